//! libFuzzer target for C29: no input makes the VM crash, report an internal bug or run forever.
//!
//! Input layout (everything after the 8 header bytes is raw program material):
//!   h[0] & 7      schedule: 0..=5 default, 6..=7 random (seed = h[2]); never the unit schedule
//!                 (it prices a 2^26-slot SCLR at 1 gas)
//!   h[1] % 6      script gas limit: 0, 60, 600, 6 000, 40 000, 200 000
//!   h[2]          seed of the random schedule
//!   h[3] % 3      number of contracts (inserted under ids 0x0c c0.., 0x0c c1.., listed as inputs)
//!   h[4..6]       script length (LE), h[6..8] script-data length (LE); both clamped to what is left
//!   then: script bytes, script data bytes, [u16 LE length + code of contract 0], [rest = contract 1]
//! The world is the one of part `raw-worlds` of harness/src/props/c29.rs (one signed base-asset
//! coin, contract inputs/outputs, a change and a variable output, height 5, gas price 0), so an
//! artifact converts into a replay case of that part.
//! Oracle: checking and executing return without a host panic; the outcome is a program state or
//! a specified rejection, never `InterpreterError::Bug`; single-stepped, every executed
//! instruction lowers $ggas by >= 1 and at most gas_limit + 1 instructions execute.
#![no_main]

use fuel_asm::RegId;
use fuel_crypto::SecretKey;
use fuel_tx::{
    ConsensusParameters, Finalizable, GasCosts, Input, Output, Script, TransactionBuilder, TxPointer, UtxoId,
};
use fuel_types::{Address, AssetId, BlockHeight, Bytes32, ContractId};
use fuel_vm::checked_transaction::IntoChecked;
use fuel_vm::error::InterpreterError;
use fuel_vm::interpreter::{Interpreter, InterpreterParams, MemoryInstance};
use fuel_vm::state::{DebugEval, ProgramState};
use fuel_vm::storage::{ContractsAssetsStorage, InterpreterStorage, MemoryStorage};
use libfuzzer_sys::fuzz_target;

const GAS: [u64; 6] = [0, 60, 600, 6_000, 40_000, 200_000];

fn splitmix(x: &mut u64) -> u64 {
    *x = x.wrapping_add(0x9E3779B97F4A7C15);
    let mut z = *x;
    z = (z ^ (z >> 30)).wrapping_mul(0xBF58476D1CE4E5B9);
    z = (z ^ (z >> 27)).wrapping_mul(0x94D049BB133111EB);
    z ^ (z >> 31)
}

// the same randomisation as harness/src/vm/world.rs (`Sched::Random(seed)`): every fixed cost in
// 1..=50, every per-unit cost >= 1
fn randomize(v: &mut serde_json::Value, st: &mut u64, key: &str) {
    match v {
        serde_json::Value::Number(_) => {
            let x = splitmix(st);
            let n = match key {
                "units_per_gas" => 1 + x % 512,
                "gas_per_unit" => 1 + x % 4,
                _ => 1 + x % 50,
            };
            *v = serde_json::Value::from(n);
        }
        serde_json::Value::Array(a) => a.iter_mut().for_each(|x| randomize(x, st, key)),
        serde_json::Value::Object(o) => {
            for (k, x) in o.iter_mut() {
                randomize(x, st, k)
            }
        }
        _ => {}
    }
}

fn gas_costs(sel: u8, seed: u8) -> GasCosts {
    if sel & 7 < 6 {
        GasCosts::default()
    } else {
        let mut v = serde_json::to_value(GasCosts::unit()).expect("ser");
        let mut st = seed as u64;
        randomize(&mut v, &mut st, "");
        serde_json::from_value(v).expect("randomized gas costs deserialize")
    }
}

fn contract_id(i: usize) -> ContractId {
    let mut a = [0xC0 + i as u8; 32];
    a[0] = 0x0c;
    ContractId::from(a)
}

fn secret() -> SecretKey {
    let mut b = [0x11u8; 32];
    b[31] = 1;
    SecretKey::try_from(&b[..]).expect("valid scalar")
}

fn take<'a>(rest: &mut &'a [u8], n: usize) -> &'a [u8] {
    let n = n.min(rest.len());
    let (a, b) = rest.split_at(n);
    *rest = b;
    a
}

fuzz_target!(|input: &[u8]| {
    if input.len() < 8 {
        return;
    }
    let (h, mut rest) = input.split_at(8);
    let gas_limit = GAS[(h[1] % 6) as usize];
    let n_contracts = (h[3] % 3) as usize;
    let script = take(&mut rest, u16::from_le_bytes([h[4], h[5]]) as usize).to_vec();
    let data = take(&mut rest, u16::from_le_bytes([h[6], h[7]]) as usize).to_vec();
    let mut contracts: Vec<Vec<u8>> = vec![];
    if n_contracts >= 1 {
        let l = take(&mut rest, 2);
        let n = if l.len() == 2 { u16::from_le_bytes([l[0], l[1]]) as usize } else { 0 };
        contracts.push(take(&mut rest, n).to_vec());
    }
    if n_contracts == 2 {
        contracts.push(rest.to_vec());
    }

    let mut params = ConsensusParameters::standard();
    params.set_gas_costs(gas_costs(h[0], h[2]));
    let height = BlockHeight::from(5u32);
    let mut storage = MemoryStorage::new(height, Default::default());
    let mut tb = TransactionBuilder::script(script, data);
    tb.with_params(params.clone());
    tb.script_gas_limit(gas_limit);
    tb.max_fee_limit(1 << 40);
    tb.add_unsigned_coin_input(secret(), UtxoId::new(Bytes32::from([1; 32]), 1), 1 << 40, AssetId::BASE, TxPointer::default());
    for (i, c) in contracts.iter().enumerate() {
        let id = contract_id(i);
        storage.storage_contract_insert(&id, c).expect("infallible");
        storage.contract_asset_id_balance_insert(&id, &AssetId::BASE, 1000).expect("infallible");
        let idx = tb.inputs().len() as u16;
        tb.add_input(Input::contract(UtxoId::new(Bytes32::from([0x40 + i as u8; 32]), 0), Bytes32::zeroed(), Bytes32::zeroed(), TxPointer::default(), id));
        tb.add_output(Output::contract(idx, Bytes32::zeroed(), Bytes32::zeroed()));
    }
    tb.add_output(Output::change(Address::from([0xD0; 32]), 0, AssetId::BASE));
    tb.add_output(Output::variable(Address::zeroed(), 0, AssetId::zeroed()));
    let tx: Script = tb.finalize();
    // checking returns (a panic here is a crash)
    let Ok(checked) = tx.into_checked(height, &params) else { return };
    let Ok(ready) = checked.into_ready(0, params.gas_costs(), params.fee_params(), None) else { return };
    let mut vm: Interpreter<MemoryInstance, MemoryStorage, Script> = Interpreter::with_storage(MemoryInstance::new(), storage, InterpreterParams::new(0, &params));
    vm.set_single_stepping(true);
    let mut steps = 0u64;
    let mut before = 0u64;
    let mut state = vm.transact(ready).map(|s| *s.state());
    loop {
        match state {
            Ok(ProgramState::RunProgram(DebugEval::Breakpoint(_))) => {
                let g = vm.registers()[RegId::GGAS];
                if steps > 0 {
                    assert!(g < before, "C29 gas: an executed instruction did not lower $ggas ({before} -> {g}) at step {steps}");
                }
                before = g;
                steps += 1;
                assert!(steps <= gas_limit + 1, "C29 steps: more than gas_limit + 1 = {} instructions executed", gas_limit + 1);
                state = vm.resume();
            }
            _ => break,
        }
    }
    if steps > 0 {
        let g = vm.registers()[RegId::GGAS];
        assert!(g <= before, "C29 gas: $ggas grew across the last instruction ({before} -> {g})");
    }
    match state {
        Ok(_) => {}
        Err(InterpreterError::Bug(b)) => panic!("C29 bug-error: the VM returned an internal-bug error: {b:?}"),
        Err(InterpreterError::Panic(_)) | Err(InterpreterError::PanicInstruction(_)) | Err(InterpreterError::CheckError(_)) | Err(InterpreterError::Storage(_)) => {}
        Err(e) => panic!("C29 unexpected-error: not a specified outcome: {e:?}"),
    }
});
