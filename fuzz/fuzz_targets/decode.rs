//! libFuzzer target for C02: decoding arbitrary bytes never panics and reaches a fixed point.
//! First input byte selects the type (mod 5): 0 Transaction, 1 Input, 2 Output, 3 Receipt,
//! 4 Policies; the rest is handed to the canonical decoder.
//! Oracle (same as harness/src/props/c02.rs): `decode` returns Err or Ok(v); for Ok(v) with
//! `consumed` bytes: v.size() == consumed, v.to_bytes().len() == consumed,
//! decode(v.to_bytes()) == Ok(v) consuming everything, and its re-encoding is byte-identical.
//! Any panic (in decode or in the oracle's asserts) is a crash.
#![no_main]

use fuel_tx::policies::Policies;
use fuel_tx::{Input, Output, Receipt, Transaction};
use fuel_types::canonical::{Deserialize, Serialize};
use libfuzzer_sys::fuzz_target;

fn oracle<T>(ty: &str, bytes: &[u8])
where
    T: Serialize + Deserialize + PartialEq + core::fmt::Debug,
{
    let mut s = bytes;
    let v = match T::decode(&mut s) {
        Ok(v) => v,
        Err(_) => return,
    };
    assert!(s.len() <= bytes.len(), "C02 {ty}: remaining grew");
    let consumed = bytes.len() - s.len();
    assert_eq!(v.size(), consumed, "C02 {ty}: size() differs from bytes consumed");
    let b2 = v.to_bytes();
    assert_eq!(b2.len(), consumed, "C02 {ty}: encoding length differs from bytes consumed");
    let mut s2 = &b2[..];
    let v2 = match T::decode(&mut s2) {
        Ok(v2) => v2,
        Err(e) => panic!("C02 {ty}: decode(to_bytes(v)) failed: {e:?}"),
    };
    assert!(s2.is_empty(), "C02 {ty}: decode(to_bytes(v)) left bytes");
    assert!(v2 == v, "C02 {ty}: decode(to_bytes(v)) != v");
    assert!(v2.to_bytes() == b2, "C02 {ty}: second encoding differs");
}

fuzz_target!(|data: &[u8]| {
    let Some((sel, rest)) = data.split_first() else { return };
    match sel % 5 {
        0 => oracle::<Transaction>("Transaction", rest),
        1 => oracle::<Input>("Input", rest),
        2 => oracle::<Output>("Output", rest),
        3 => oracle::<Receipt>("Receipt", rest),
        _ => oracle::<Policies>("Policies", rest),
    }
});
