#!/usr/bin/env bash
# run_campaign.sh C02|C29 — thorough tier of C02 / C29: proptest thorough run + fixed-work libFuzzer campaign
# (C02: target `decode`, seeds from `mkcorpus`; C29: target `vm`, seeds from `mkcorpus_vm`).
#
#   exit 0  held on everything explored
#   exit 1  VIOLATION property=<id> replay=<path>   (printed by fvverif or by this script)
#   exit 2  build problem / inconclusive (never reported as a violation)
#
# Layout is taken from the script's own location: ROOT=<dir of this script>/.. must contain
# harness/ (the fvverif crate), evidence/, replays/. Fixed work, no time limits:
#   FUZZ_WORKERS (default 16) independent libFuzzer processes, each with its own fresh copy of the
#   generated seed corpus, -seed derived from VERIF_SEED, -runs=FUZZ_RUNS (default below).
set -u

PROP="${1:-}"
case "$PROP" in
    C02) TARGET=decode; MKCORPUS=mkcorpus;    SEEDS=48;  DEFAULT_RUNS=150000; MAXLEN=4096 ;;
    # vm: ~60-300 executions/s per process under ASAN (each execution signs, checks and single-steps
    # a transaction); 20 000 runs x 16 processes is sized to about 5-10 minutes (measured: 480 000 runs in 16 min on a loaded host)
    C29) TARGET=vm;     MKCORPUS=mkcorpus_vm; SEEDS=160; DEFAULT_RUNS=20000;  MAXLEN=8192 ;;
    *)
        echo "usage: $0 C02|C29" >&2
        exit 2
        ;;
esac

HERE="$(cd "$(dirname "${BASH_SOURCE[0]}")" && pwd)"
ROOT="$(cd "$HERE/.." && pwd)"
HARNESS="$ROOT/harness"
export VERIF_ROOT="${VERIF_ROOT:-$ROOT}"
export CARGO_NET_OFFLINE=true
SEED="${VERIF_SEED:-0}"
WORKERS="${FUZZ_WORKERS:-16}"
RUNS="${FUZZ_RUNS:-$DEFAULT_RUNS}"
WORK="$HERE/work/$PROP"
EVID="$VERIF_ROOT/evidence/$PROP.json"

# ---------------------------------------------------------------- 1. build (exit 2 on problems)
if ! (cd "$HARNESS" && cargo build --release --offline >"$HERE/build-harness.log" 2>&1); then
    echo "INCONCLUSIVE property=$PROP harness build failed, see $HERE/build-harness.log"
    exit 2
fi
[ -f "$HERE/Cargo.lock" ] || cp /repo/Cargo.lock "$HERE/Cargo.lock" 2>/dev/null || true
if ! (cd "$HERE" && cargo +nightly fuzz build --fuzz-dir "$HERE" "$TARGET" >"$HERE/build-fuzz.log" 2>&1); then
    echo "INCONCLUSIVE property=$PROP fuzz target build failed, see $HERE/build-fuzz.log"
    exit 2
fi
TRIPLE="$(rustc +nightly -vV | sed -n 's/^host: //p')"
BIN="$HERE/target/$TRIPLE/release/$TARGET"
if [ ! -x "$BIN" ]; then
    echo "INCONCLUSIVE property=$PROP fuzz binary not found at $BIN"
    exit 2
fi

# ---------------------------------------------------------------- 2. proptest thorough tier
if [ "${FUZZ_ONLY:-0}" != "1" ]; then      # FUZZ_ONLY=1: debugging aid, skips the proptest tier
    "$HARNESS/target/release/fvverif" "$PROP" thorough
    RC=$?
    if [ $RC -ne 0 ]; then
        exit $RC      # 1 = violation already printed with its replay path, 2 = inconclusive
    fi
fi

# ---------------------------------------------------------------- 3. fresh seed corpus
rm -rf "$WORK"
mkdir -p "$WORK/seed"
if ! "$HARNESS/target/release/$MKCORPUS" "$WORK/seed" "$SEEDS" >"$WORK/mkcorpus.log" 2>&1; then
    echo "INCONCLUSIVE property=$PROP seed corpus generation failed, see $WORK/mkcorpus.log"
    exit 2
fi

# ---------------------------------------------------------------- 4. fixed-work campaign
T0=$(date +%s)
PIDS=()
for i in $(seq 1 "$WORKERS"); do
    mkdir -p "$WORK/corpus$i" "$WORK/artifacts$i"
    cp "$WORK/seed"/* "$WORK/corpus$i/"
    S=$(( (SEED % 1000000) * 1000 + i ))          # never 0: libFuzzer treats -seed=0 as "random"
    "$BIN" "$WORK/corpus$i" -runs="$RUNS" -seed="$S" -len_control=0 -max_len="$MAXLEN" \
        -malloc_limit_mb=0 -rss_limit_mb=0 -timeout=600 -print_final_stats=1 \
        -artifact_prefix="$WORK/artifacts$i/" >"$WORK/fuzz$i.log" 2>&1 &
    PIDS+=($!)
done
FAILED=0
for p in "${PIDS[@]}"; do
    wait "$p" || FAILED=$((FAILED + 1))
done
T1=$(date +%s)

# ---------------------------------------------------------------- 5. collect
# every artifact is copied to replays/<id>-fuzz-<hash>.bin (raw libFuzzer input) and converted to
# replays/<id>-fuzz-<hash>.json: for C02 a case of part "raw-bytes" (selector byte + bytes), for
# C29 a case of part "raw-worlds" (header bytes -> schedule / gas limit / contracts, see
# fuzz_targets/vm.rs), which `fvverif <id> --replay` (and every later quick run) re-executes
# with the same oracle.
# Not crashes: slow-unit-* (libFuzzer's report of an execution slower than 10 s: with ASAN the
# address-space reservations of observation O1 cost shadow-memory work and, with many processes,
# kernel mmap contention) — counted and reported only. timeout-* makes the run inconclusive.
CRASHES=0
FIRST=""
SLOW=$(find "$WORK" -path '*/artifacts*/slow-unit-*' -type f 2>/dev/null | wc -l)
TIMEOUTS=$(find "$WORK" -path '*/artifacts*/timeout-*' -type f 2>/dev/null | wc -l)
mkdir -p "$VERIF_ROOT/replays"
for f in "$WORK"/artifacts*/crash-* "$WORK"/artifacts*/leak-* "$WORK"/artifacts*/oom-*; do
    [ -f "$f" ] || continue
    CRASHES=$((CRASHES + 1))
    H=$(sha256sum "$f" | cut -c1-16)
    DEST="$VERIF_ROOT/replays/$PROP-fuzz-$H.bin"
    cp "$f" "$DEST"
    JSON="$VERIF_ROOT/replays/$PROP-fuzz-$H.json"
    if python3 - "$DEST" "$JSON" "$SEED" "$PROP" <<'PY'
import json, sys
data = open(sys.argv[1], "rb").read()
prop = sys.argv[4]
if prop == "C02":
    part = "raw-bytes"
    case = {"src": {"Raw": data[1:].hex()}, "muts": [], "cross": None}
    msg = "libFuzzer artifact %s (selector byte %d)" % (sys.argv[1], data[0] if data else -1)
else:
    # layout of fuzz_targets/vm.rs
    if len(data) < 8:
        sys.exit(1)
    h, rest = data[:8], data[8:]
    def take(n):
        global rest
        a, rest = rest[:n], rest[n:]
        return a
    gas = [0, 60, 600, 6000, 40000, 200000][h[1] % 6]
    sched = "Default" if (h[0] & 7) < 6 else {"Random": h[2]}
    script = take(h[4] | (h[5] << 8))
    sdata = take(h[6] | (h[7] << 8))
    contracts = []
    n = h[3] % 3
    if n >= 1:
        l = take(2)
        contracts.append(take((l[0] | (l[1] << 8)) if len(l) == 2 else 0))
    if n == 2:
        contracts.append(rest)
    part = "raw-worlds"
    case = {"sched": sched, "gas_limit": gas, "script": script.hex(), "data": sdata.hex(),
            "contracts": [c.hex() for c in contracts], "balance": 0}
    msg = "libFuzzer artifact %s (target vm)" % sys.argv[1]
json.dump({"property": prop, "part": part, "seed": int(sys.argv[3]), "shard": 0,
           "key": prop.lower() + ":fuzz-crash", "message": msg, "case": case}, open(sys.argv[2], "w"), indent=2)
PY
    then DEST="$JSON"; fi
    [ -n "$FIRST" ] || FIRST="$DEST"
done
EXECS=$(grep -h "stat::number_of_executed_units" "$WORK"/fuzz*.log 2>/dev/null | awk '{s+=$2} END {print s+0}')
CORPUS=$(find "$WORK" -path '*/corpus*/*' -type f 2>/dev/null | wc -l)
SECS=$((T1 - T0))

if [ -f "$EVID" ]; then
    python3 - "$EVID" "$EXECS" "$CRASHES" "$CORPUS" "$SECS" "$WORKERS" "$RUNS" "$SLOW" "$TIMEOUTS" "$TARGET" "$MAXLEN" <<'PY' || echo "note: could not patch $EVID" >&2
import json, sys
path, execs, crashes, corpus, secs, workers, runs, slow, timeouts = sys.argv[1], *map(int, sys.argv[2:10])
target, maxlen = sys.argv[10], sys.argv[11]
ev = json.load(open(path))
ev.setdefault("coverage", {})["fuzz"] = {
    "target": target, "runs": execs, "crashes": crashes, "corpus_size": corpus, "seconds": secs,
    "processes": workers, "runs_per_process": runs, "slow_units_over_10s": slow, "timeouts": timeouts,
    "flags": "-len_control=0 -max_len=%s -malloc_limit_mb=0 -rss_limit_mb=0" % maxlen,
}
json.dump(ev, open(path, "w"), indent=2)
PY
fi

if [ "$CRASHES" -gt 0 ]; then
    echo "FAIL fuzz target=$TARGET crashes=$CRASHES (reproduce: $BIN <file>)"
    grep -h -m1 -A2 "panicked at\|ERROR: AddressSanitizer\|ERROR: libFuzzer" "$WORK"/fuzz*.log 2>/dev/null | head -12
    echo "VIOLATION property=$PROP replay=$FIRST"
    exit 1
fi
if [ "$TIMEOUTS" -gt 0 ]; then
    echo "INCONCLUSIVE property=$PROP $TIMEOUTS fuzz execution(s) exceeded -timeout=600 (kept under $WORK/artifacts*/timeout-*)"
    exit 2
fi
if [ "$FAILED" -gt 0 ]; then
    # a process died without leaving an artifact (e.g. killed by the kernel): not a verdict
    echo "INCONCLUSIVE property=$PROP $FAILED fuzz process(es) ended abnormally without an artifact, see $WORK/fuzz*.log"
    exit 2
fi
echo "OK property=$PROP fuzz target=$TARGET runs=$EXECS crashes=0 slow_units=$SLOW corpus=$CORPUS seconds=$SECS processes=$WORKERS"
exit 0
