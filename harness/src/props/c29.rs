//! C29 — No input makes the VM crash, report an internal bug or run forever.
//!
//! Parts
//!  * `mutated-worlds`: a G-PROG world whose script, script data and contract codes are then
//!    replaced by raw bytes / mutated at byte level (set byte, insert word, truncate, append raw);
//!  * `raw-worlds`: script = raw random bytes (plus contracts with raw code, listed as inputs);
//!  * `wild-worlds`: G-PROG worlds whose bodies draw 40–95 % wild templates;
//!  * `floods`: hand-shaped stress programs (receipt flood up to the receipt limit followed by
//!    every kind of receipt-producing ending, unbounded self-recursion, frame/heap exhaustion);
//!  * `planted-instruction`: one raw instruction word (every opcode byte) executed by
//!    `Interpreter::instruction` on a script VM after a generated register file was planted;
//!  * `raw-predicates`: raw bytes as predicate code/data through estimation and `into_checked`.
//!
//! Oracle: under `catch_panic`, checking and executing return; the outcome is a program state, a
//! storage error or a specified rejection (`Panic`, `CheckError`), never `InterpreterError::Bug`,
//! `PredicateVerificationFailed::Bug` or a host panic; single-stepped, every executed instruction
//! lowers `$ggas` by at least 1 (all three schedules keep every cost ≥ 1) and the number of
//! steps never exceeds `gas_limit + 1`.
use crate::engine::*;
use crate::gens::tx::HexBytes;
use crate::vm::prog::{self, Base, JumpKind, Ptr, StOp, Tpl, Val};
use crate::vm::world::{self, run_stepping, Built, Sched, WorldSpec};
use crate::vmfix;
use crate::{ensure, fail};
use fuel_asm::{op, PanicReason, RegId};
use fuel_tx::field::{Inputs, Outputs, Policies as _, ScriptGasLimit};
use fuel_tx::{ConsensusParameters, Finalizable, Input, Output, Receipt, Script, Signable, Transaction, TransactionBuilder, TxPointer, UtxoId};
use fuel_types::{Address, AssetId, BlockHeight, Bytes32};
use fuel_vm::checked_transaction::{CheckPredicateParams, EstimatePredicates, IntoChecked};
use fuel_vm::interpreter::MemoryInstance;
use fuel_vm::state::ExecuteState;
use fuel_vm::storage::predicate::EmptyStorage;
use fuel_vm::storage::{InterpreterStorage, MemoryStorage};
use proptest::prelude::*;
use serde::{Deserialize, Serialize};

// ------------------------------------------------------------------ common oracle

/// a defined opcode byte (flat over the ISA snapshot of model::isa)
fn opcode_byte() -> impl Strategy<Value = u8> {
    let bytes: Vec<u8> = crate::model::isa::snapshot().iter().map(|o| o.byte).collect();
    prop::sample::select(bytes)
}

/// a word with opcode `byte` whose reserved bits are clear (so that it decodes); `gp` forces the
/// register operands into the general-purpose range (bit 4 set: 0x10..0x1f, 0x30..0x3f)
fn mk_word(byte: u8, x: u32, gp: bool) -> u32 {
    use std::sync::OnceLock;
    static SHAPES: OnceLock<Vec<Option<crate::model::isa::Shape>>> = OnceLock::new();
    let shapes = SHAPES.get_or_init(|| {
        let mut v = vec![None; 256];
        for o in crate::model::isa::snapshot() {
            v[o.byte as usize] = Some(o.shape);
        }
        v
    });
    let Some(sh) = shapes[byte as usize] else { return ((byte as u32) << 24) | (x & 0x00ff_ffff) };
    let mut w = x & sh.used_mask();
    if gp {
        for i in 0..sh.regs() {
            let (shift, _) = sh.field(i);
            w |= 0x10 << shift;
        }
    }
    ((byte as u32) << 24) | w
}

/// instructions that give a raw program something to work with: two heap buffers, a stack frame,
/// pointers to them in 0x10..0x17 and small constants
fn seed_prefix() -> Vec<u8> {
    let v = vec![
        op::movi(0x10, 2048),
        op::aloc(0x10),
        op::move_(0x10, RegId::HP),
        op::addi(0x11, RegId::HP, 512),
        op::addi(0x12, RegId::HP, 1024),
        op::cfei(2048),
        op::subi(0x13, RegId::SP, 2048),
        op::subi(0x14, RegId::SP, 1024),
        op::movi(0x15, 32),
        op::movi(0x16, 8),
        op::gtf_args(0x17, RegId::ZERO, fuel_asm::GTFArgs::ScriptData),
        op::move_(0x30, RegId::HP),
        op::move_(0x31, 0x13),
        op::movi(0x32, 64),
    ];
    v.into_iter().collect()
}

/// classify the debug rendering of an `InterpreterError`
fn judge_error(e: &str, obs: &mut Obs) -> Check {
    let head = e.split(|c: char| !c.is_alphanumeric()).next().unwrap_or("");
    match head {
        "Bug" => {
            let variant = e.split("variant: ").nth(1).and_then(|s| s.split(|c: char| !c.is_alphanumeric()).next()).unwrap_or("?");
            Err(Failure::new(format!("bug-error:{variant}"), format!("the VM returned an internal-bug error: {}", &e[..e.len().min(400)])))
        }
        "Panic" | "PanicInstruction" | "CheckError" | "Storage" => {
            obs.class(&format!("vm-rejected:{}", e.split(|c: char| !c.is_alphanumeric()).filter(|s| !s.is_empty()).take(2).collect::<Vec<_>>().join(":")));
            Ok(())
        }
        other => Err(Failure::new(format!("unexpected-error:{other}"), format!("not a specified outcome: {}", &e[..e.len().min(400)]))),
    }
}

struct ExecStats {
    steps: u64,
    contract_steps: u64,
}

/// execute single-stepped under catch_panic with the step/gas monitor
fn execute(
    params: &ConsensusParameters,
    storage: MemoryStorage,
    checked: fuel_vm::checked_transaction::Checked<Script>,
    gas_price: u64,
    obs: &mut Obs,
) -> Result<Option<ExecStats>, Failure> {
    let gas_limit = *checked.transaction().script_gas_limit();
    let ready = match catch_panic(|| checked.into_ready(gas_price, params.gas_costs(), params.fee_params(), None)) {
        Err((loc, msg)) => fail!(format!("host-panic:into_ready@{loc}"), "into_ready panicked at {loc}: {msg}"),
        Ok(Err(_)) => {
            obs.class("not-ready");
            return Ok(None);
        }
        Ok(Ok(r)) => r,
    };
    let ip = fuel_vm::interpreter::InterpreterParams::new(gas_price, params);
    let mut vm: world::Vm<MemoryStorage> = fuel_vm::interpreter::Interpreter::with_storage(MemoryInstance::new(), storage, ip);
    use std::cell::Cell;
    let steps_c = Cell::new(0u64);
    let contract_c = Cell::new(0u64);
    let g_before = Cell::new(0u64);
    let gas_fault: Cell<Option<(u64, u64, u64, Option<u32>)>> = Cell::new(None);
    let last_raw_c: Cell<Option<u32>> = Cell::new(None);
    let r = catch_panic(|| {
        run_stepping(
            &mut vm,
            ready,
            gas_limit.saturating_add(16),
            |s| {
                steps_c.set(steps_c.get() + 1);
                if s.vm.verif_call_depth() > 0 {
                    contract_c.set(contract_c.get() + 1);
                }
                g_before.set(s.vm.registers()[RegId::GGAS]);
                last_raw_c.set(s.raw);
            },
            |vm, ended| {
                let g = vm.registers()[RegId::GGAS];
                // an instruction that ended the run with a panic may have been refused before it was charged
                if gas_fault.get().is_none() && (g > g_before.get() || (!ended && g == g_before.get())) {
                    gas_fault.set(Some((steps_c.get(), g_before.get(), g, last_raw_c.get())));
                }
            },
        )
    });
    let (steps, contract_steps, last_raw, gas_fault) = (steps_c.get(), contract_c.get(), last_raw_c.get(), gas_fault.get());
    let out = match r {
        Err((loc, msg)) => {
            let dbg = if cfg!(debug_assertions) { "" } else { " (release)" };
            fail!(format!("host-panic@{loc}"), "the VM panicked the host at {loc}{dbg} after {steps} steps (last instruction word {last_raw:x?}): {}", &msg[..msg.len().min(300)]);
        }
        Ok(Err(e)) => fail!("steps:exceed-gas-limit", "more than gas_limit + 16 = {} instructions executed: {e}", gas_limit.saturating_add(16)),
        Ok(Ok(o)) => o,
    };
    if let Some((at, before, after, raw)) = gas_fault {
        let name = raw.and_then(|w| fuel_asm::Instruction::try_from(w).ok()).map(|i| format!("{:?}", i.opcode())).unwrap_or_else(|| "?".into());
        fail!(format!("gas:instruction-burned-no-gas:{name}"), "step {at}: $ggas {before} -> {after} across instruction {raw:x?}");
    }
    ensure!(steps <= gas_limit.saturating_add(1), "steps:exceed-gas-limit", "{steps} instructions executed with gas limit {gas_limit}");
    match &out.state {
        Ok(st) => obs.class(&format!("state:{}", format!("{st:?}").split('(').next().unwrap_or("?"))),
        Err(e) => judge_error(e, obs)?,
    }
    for r in &out.receipts {
        if let Receipt::Panic { reason, .. } = r {
            obs.class(&format!("panic:{:?}", reason.reason()));
        }
    }
    obs.note("steps", steps);
    Ok(Some(ExecStats { steps, contract_steps }))
}

fn nontrivial(st: &ExecStats, tag: &str, obs: &mut Obs, extra: u64) {
    if st.steps >= 10 {
        obs.class("steps>=10");
    }
    if st.contract_steps >= 1 {
        obs.class("reached-contract-code");
    }
    if st.steps >= 10 && st.contract_steps >= 1 {
        obs.class("nontrivial");
        obs.nontrivial(&(tag, st.steps, st.contract_steps, extra));
    }
}

/// Keep CPU and memory bounded where gas does not bound them: the unit schedule prices every
/// per-unit cost at 0, so one SCLR/SCWQ over 2^26 slots (1 gas) walks 67 M keys and caches as many
/// entries. Worlds that can contain arbitrary operands therefore run under the default or a
/// random schedule (every per-unit cost >= 1), never the unit schedule.
fn cap_gas(spec: &mut WorldSpec) {
    if spec.sched == Sched::Unit {
        spec.sched = Sched::Random(0x5eed_0000 ^ spec.gas_limit ^ spec.words[0]);
    }
    if let Sched::Random(_) = spec.sched {
        spec.gas_limit = spec.gas_limit.min(20_000);
    }
}

fn sched_no_unit() -> impl Strategy<Value = Sched> {
    prop_oneof![5 => Just(Sched::Default), 3 => any::<u64>().prop_map(Sched::Random)]
}

fn run_world(spec: &WorldSpec, tag: &str, obs: &mut Obs) -> Check {
    let b = match catch_panic(|| spec.build()) {
        Err((loc, msg)) => fail!(format!("host-panic:check@{loc}"), "building/checking the transaction panicked at {loc}: {msg}"),
        Ok(Err(_)) => {
            obs.class("world-invalid");
            return Ok(());
        }
        Ok(Ok(b)) => b,
    };
    obs.class(match spec.sched {
        Sched::Default => "sched:default",
        Sched::Unit => "sched:unit",
        Sched::Random(_) => "sched:random",
    });
    if let Some(st) = execute(&b.params, b.storage.clone(), b.checked.clone(), b.gas_price, obs)? {
        nontrivial(&st, tag, obs, b.script_words.len() as u64);
    }
    Ok(())
}

// ------------------------------------------------------------------ (a) mutated / raw worlds

#[derive(Debug, Clone, PartialEq, Eq, Hash, Serialize, Deserialize)]
pub enum Mut {
    SetByte { pos: u16, val: u8 },
    /// overwrite the instruction word at `pos` (word index selector)
    SetWord { pos: u16, word: u32 },
    InsertWord { pos: u16, word: u32 },
    Truncate { pos: u16 },
    Append { raw: HexBytes },
    Replace { raw: HexBytes },
}

#[derive(Debug, Clone, PartialEq, Eq, Hash, Serialize, Deserialize)]
pub struct MutCase {
    pub world: WorldSpec,
    /// (target: 0 script, 1 script data, 2+k contract k; mutation)
    pub muts: Vec<(u8, Mut)>,
}

fn apply(v: &mut Vec<u8>, m: &Mut) {
    match m {
        Mut::SetByte { pos, val } => {
            if !v.is_empty() {
                let i = crate::gens::pick(*pos, v.len());
                v[i] = *val;
            }
        }
        Mut::SetWord { pos, word } => {
            let n = v.len() / 4;
            if n > 0 {
                let i = crate::gens::pick(*pos, n) * 4;
                v[i..i + 4].copy_from_slice(&word.to_be_bytes());
            }
        }
        Mut::InsertWord { pos, word } => {
            let n = v.len() / 4 + 1;
            let i = crate::gens::pick(*pos, n) * 4;
            let tail = v.split_off(i.min(v.len()));
            v.extend_from_slice(&word.to_be_bytes());
            v.extend(tail);
        }
        Mut::Truncate { pos } => {
            let i = crate::gens::pick(*pos, v.len() + 1);
            v.truncate(i);
        }
        Mut::Append { raw } => v.extend_from_slice(&raw.0),
        Mut::Replace { raw } => *v = raw.0.clone(),
    }
}

/// rebuild the world's transaction with other script / data bytes and re-sign it
fn rebuild(b: &Built, script: Vec<u8>, data: Vec<u8>) -> Script {
    let old = b.checked.transaction();
    let mut tx = Transaction::script(*old.script_gas_limit(), script, data, old.policies().clone(), old.inputs().clone(), old.outputs().clone(), old.witnesses_owned());
    for k in 0..3u8 {
        tx.sign_inputs(&world::secret(k), &b.params.chain_id());
    }
    tx
}

trait WitnessesOwned {
    fn witnesses_owned(&self) -> Vec<fuel_tx::Witness>;
}
impl WitnessesOwned for Script {
    fn witnesses_owned(&self) -> Vec<fuel_tx::Witness> {
        use fuel_tx::field::Witnesses;
        self.witnesses().clone()
    }
}

fn mut_check(case: &MutCase, obs: &mut Obs) -> Check {
    let mut spec = case.world.clone();
    cap_gas(&mut spec);
    let b = match spec.build() {
        Ok(b) => b,
        Err(_) => {
            obs.class("world-invalid");
            return Ok(());
        }
    };
    let mut script = prog::to_bytes(&b.script_words);
    let mut data = b.script_data.clone();
    let mut codes: Vec<Vec<u8>> = b.contract_words.iter().map(|w| prog::to_bytes(w)).collect();
    for (t, m) in &case.muts {
        match *t {
            0 => {
                apply(&mut script, m);
                obs.class("mutated:script");
            }
            1 => {
                apply(&mut data, m);
                obs.class("mutated:script-data");
            }
            k => {
                if !codes.is_empty() {
                    let i = (k as usize - 2) % codes.len();
                    apply(&mut codes[i], m);
                    obs.class("mutated:contract-code");
                }
            }
        }
    }
    let mut storage = b.storage.clone();
    for (i, c) in codes.iter().enumerate() {
        storage.storage_contract_insert(&b.cids[i], c).map_err(|e| Failure::new("harness-storage", format!("{e:?}")))?;
    }
    let tx = rebuild(&b, script, data);
    let height = BlockHeight::from(spec.height);
    let checked = match catch_panic(|| tx.into_checked(height, &b.params)) {
        Err((loc, msg)) => fail!(format!("host-panic:check@{loc}"), "into_checked panicked at {loc}: {msg}"),
        Ok(Err(e)) => {
            obs.class(&format!("check-rejected:{}", format!("{e:?}").split(|c: char| !c.is_alphanumeric()).filter(|s| !s.is_empty()).nth(1).unwrap_or("?")));
            return Ok(());
        }
        Ok(Ok(c)) => c,
    };
    if let Some(st) = execute(&b.params, storage, checked, b.gas_price, obs)? {
        nontrivial(&st, "mut", obs, case.muts.len() as u64);
    }
    Ok(())
}

fn raw_bytes(max: usize) -> impl Strategy<Value = HexBytes> {
    prop_oneof![
        3 => prop::collection::vec(any::<u8>(), 0..=max),
        // sequences of decodable instructions: valid opcode byte, reserved bits clear, mostly general-purpose registers
        5 => prop::collection::vec((opcode_byte(), any::<u32>(), prop::bool::weighted(0.8), prop::bool::weighted(0.5)), 0..=(max / 4)).prop_map(|v| {
            v.into_iter()
                .flat_map(|(o, x, gp, small)| {
                    // small immediates keep memory operands near their base
                    let x = if small { x & 0x00ff_f03f } else { x };
                    mk_word(o, x, gp).to_be_bytes()
                })
                .collect()
        }),
        1 => Just(vec![]),
    ]
    .prop_map(HexBytes)
}

fn mutation() -> impl Strategy<Value = Mut> {
    prop_oneof![
        4 => (any::<u16>(), any::<u8>()).prop_map(|(pos, val)| Mut::SetByte { pos, val }),
        4 => (any::<u16>(), any::<u32>()).prop_map(|(pos, word)| Mut::SetWord { pos, word }),
        2 => (any::<u16>(), any::<u32>()).prop_map(|(pos, word)| Mut::InsertWord { pos, word }),
        1 => any::<u16>().prop_map(|pos| Mut::Truncate { pos }),
        1 => raw_bytes(40).prop_map(|raw| Mut::Append { raw }),
        1 => raw_bytes(200).prop_map(|raw| Mut::Replace { raw }),
    ]
}

pub fn mut_case() -> impl Strategy<Value = MutCase> {
    (world::world(prog::W_SCRIPT, 30, 3), prop::collection::vec((prop_oneof![3 => Just(0u8), 2 => Just(1u8), 4 => 2u8..5], mutation()), 1..=6)).prop_map(|(world, muts)| MutCase { world, muts })
}

#[derive(Debug, Clone, PartialEq, Eq, Hash, Serialize, Deserialize)]
pub struct RawCase {
    pub sched: Sched,
    pub gas_limit: u64,
    pub script: HexBytes,
    pub data: HexBytes,
    /// raw contract codes, inserted under `world::contract_id(i)` and listed as inputs
    pub contracts: Vec<HexBytes>,
    pub balance: u64,
}

fn raw_check(case: &RawCase, obs: &mut Obs) -> Check {
    let mut params = ConsensusParameters::standard();
    params.set_gas_costs(world::gas_costs(&case.sched));
    // generated schedules are default or random; a unit schedule (hand-written replay) is refused
    ensure!(case.sched != Sched::Unit, "harness-unit-schedule", "raw worlds do not run under the unit schedule (see cap_gas)");
    let gas_limit = case.gas_limit.min(400_000);
    let height = BlockHeight::from(5u32);
    let mut storage = MemoryStorage::new(height, Default::default());
    let mut tb = TransactionBuilder::script(case.script.0.clone(), case.data.0.clone());
    tb.with_params(params.clone());
    tb.script_gas_limit(gas_limit);
    tb.max_fee_limit(1 << 40);
    tb.add_unsigned_coin_input(world::secret(0), UtxoId::new(Bytes32::from([1; 32]), 1), (1 << 40) + case.balance, AssetId::BASE, TxPointer::default());
    for (i, c) in case.contracts.iter().enumerate() {
        let id = world::contract_id(i);
        storage.storage_contract_insert(&id, &c.0).map_err(|e| Failure::new("harness-storage", format!("{e:?}")))?;
        use fuel_vm::storage::ContractsAssetsStorage;
        storage.contract_asset_id_balance_insert(&id, &AssetId::BASE, 1000).map_err(|e| Failure::new("harness-storage", format!("{e:?}")))?;
        let idx = tb.inputs().len() as u16;
        tb.add_input(Input::contract(UtxoId::new(Bytes32::from([0x40 + i as u8; 32]), 0), Bytes32::zeroed(), Bytes32::zeroed(), TxPointer::default(), id));
        tb.add_output(Output::contract(idx, Bytes32::zeroed(), Bytes32::zeroed()));
    }
    tb.add_output(Output::change(Address::from([0xD0; 32]), 0, AssetId::BASE));
    tb.add_output(Output::variable(Address::zeroed(), 0, AssetId::zeroed()));
    let tx = tb.finalize();
    let checked = match catch_panic(|| tx.into_checked(height, &params)) {
        Err((loc, msg)) => fail!(format!("host-panic:check@{loc}"), "into_checked panicked at {loc}: {msg}"),
        Ok(Err(_)) => {
            obs.class("check-rejected");
            return Ok(());
        }
        Ok(Ok(c)) => c,
    };
    if let Some(st) = execute(&params, storage, checked, 0, obs)? {
        if st.steps >= 10 {
            obs.class("steps>=10");
            obs.nontrivial(&("raw", st.steps, st.contract_steps, case.script.0.len()));
        }
        if st.contract_steps > 0 {
            obs.class("reached-contract-code");
        }
    }
    Ok(())
}

/// a raw script that calls contract 0 first (so raw contract code is reached), then raw bytes
fn calling_prefix() -> Vec<u8> {
    // script data = [contract id (32) ++ a (8) ++ b (8)] at its start
    let v = vec![
        op::gtf_args(0x10, RegId::ZERO, fuel_asm::GTFArgs::ScriptData),
        op::movi(0x11, 0),
        op::addi(0x12, 0x10, 48), // asset id pointer (zeros follow in well-formed data; any bytes otherwise)
        op::call(0x10, 0x11, 0x12, RegId::CGAS),
    ];
    v.into_iter().collect()
}

pub fn raw_case() -> impl Strategy<Value = RawCase> {
    (
        sched_no_unit(),
        prop_oneof![0u64..200, 200u64..20_000, 20_000u64..400_000],
        (any::<bool>(), prop::bool::weighted(0.7), raw_bytes(400)),
        (any::<bool>(), raw_bytes(200)),
        prop::collection::vec((prop::bool::weighted(0.7), raw_bytes(300)), 0..=2),
        0u64..10_000,
    )
        .prop_map(|(sched, gas_limit, (call_first, seed, script), (cid_first, data), contracts, balance)| {
            let mut contracts: Vec<HexBytes> = contracts
                .into_iter()
                .map(|(seed, c)| {
                    let mut v = if seed { seed_prefix() } else { vec![] };
                    v.extend(c.0);
                    HexBytes(v)
                })
                .collect();
            if call_first && contracts.is_empty() {
                contracts.push(HexBytes(seed_prefix()));
            }
            let mut s = if call_first { calling_prefix() } else { vec![] };
            if seed {
                s.extend(seed_prefix());
            }
            s.extend(script.0);
            let mut d = vec![];
            if cid_first {
                d.extend_from_slice(world::contract_id(0).as_ref());
                d.extend_from_slice(&[0u8; 16]);
                d.extend_from_slice(&[0u8; 32]);
            }
            d.extend(data.0);
            RawCase { sched, gas_limit, script: HexBytes(s), data: HexBytes(d), contracts, balance }
        })
}

// ------------------------------------------------------------------ (b) wild worlds

fn wild_body(w: prog::Weights, contract: bool, max: usize) -> impl Strategy<Value = Vec<Tpl>> {
    prop_oneof![Just(40u32), Just(70u32), Just(95u32)].prop_flat_map(move |pct| (prop::collection::vec(prog::tpl(w, contract, pct), 0..=max), prog::end_tpl(true)).prop_map(|(mut b, e)| {
        b.push(e);
        b
    }))
}

pub fn wild_world() -> impl Strategy<Value = WorldSpec> {
    (world::world(prog::W_SCRIPT, 10, 3), wild_body(prog::W_SCRIPT, false, 40), prop::collection::vec(prop::option::weighted(0.7, wild_body(prog::W_CONTRACT, true, 40)), 3)).prop_map(|(mut w, script, bodies)| {
        // keep the tame head of the generated script (it usually contains a call), go wild afterwards
        let keep = w.script.len().min(6);
        w.script.truncate(keep);
        w.script.retain(|t| !matches!(t, Tpl::Ret { .. } | Tpl::Retd { .. } | Tpl::Rvrt { .. }));
        w.script.extend(script);
        for (c, b) in w.contracts.iter_mut().zip(bodies) {
            if let Some(b) = b {
                c.body = b;
            }
        }
        w
    })
}

fn wild_check(spec: &WorldSpec, obs: &mut Obs) -> Check {
    let mut spec = spec.clone();
    cap_gas(&mut spec);
    run_world(&spec, "wild", obs)
}

// ------------------------------------------------------------------ floods

#[derive(Debug, Clone, Copy, PartialEq, Eq, Hash, Serialize, Deserialize)]
pub enum Ending {
    Log,
    Logd,
    Ret,
    Retd,
    Rvrt,
    Call,
    Tr,
    Tro,
    Smo,
    PanicOp,
    Raw(u32),
}

#[derive(Debug, Clone, PartialEq, Eq, Hash, Serialize, Deserialize)]
pub enum Flood {
    /// emit `n` LOG receipts in a counted loop (the interesting values sit around 65 535), then `ending`
    Receipts { n: u32, inside_call: bool, ending: Ending },
    /// contract 0 calls itself with all its gas until something gives
    Recursion { forward: Val, extend_frame: u32 },
    /// frame / heap exhaustion: grow until the two regions meet, then keep touching the boundary
    Exhaust { stack_first: bool, chunk: u32, tail: Vec<Tpl> },
}

#[derive(Debug, Clone, PartialEq, Eq, Hash, Serialize, Deserialize)]
pub struct FloodCase {
    pub world: WorldSpec,
    pub flood: Flood,
}

fn loop_logs(n: u32) -> Vec<Tpl> {
    // counter in 0x25, decrement with a raw JNZB two instructions back
    vec![
        Tpl::Movi { d: 0x25, imm: n.min(0x3ffff) },
        Tpl::Log { a: 0x25, b: 0, c: 0, d: 0 },
        Tpl::Raw(op::subi(0x25, 0x25, 1).into()),
        Tpl::Raw(op::jnzb(0x25, RegId::ZERO, 1).into()),
    ]
}

fn ending_tpls(e: Ending) -> Vec<Tpl> {
    let hp = Ptr { base: Base::HeapA, off: 0 };
    match e {
        Ending::Log => vec![Tpl::Log { a: 1, b: 1, c: 1, d: 1 }, Tpl::Log { a: 1, b: 1, c: 1, d: 1 }, Tpl::Log { a: 1, b: 1, c: 1, d: 1 }],
        Ending::Logd => vec![Tpl::Logd { a: 1, b: 1, p: hp, len: Val::Imm(8) }, Tpl::Logd { a: 1, b: 1, p: hp, len: Val::Imm(8) }],
        Ending::Ret => vec![Tpl::Ret { v: Val::Imm(1) }],
        Ending::Retd => vec![Tpl::Retd { p: hp, len: Val::Imm(8) }],
        Ending::Rvrt => vec![Tpl::Rvrt { v: Val::Imm(1) }],
        Ending::Call => vec![Tpl::Call { call: 0, coins: Val::Imm(0), asset: 0, gas: Val::Reg(RegId::CGAS.to_u8()) }, Tpl::Call { call: 0, coins: Val::Imm(0), asset: 0, gas: Val::Reg(RegId::CGAS.to_u8()) }],
        Ending::Tr => vec![Tpl::Tr { cid: 0, amount: Val::Imm(1), asset: 0 }, Tpl::Tr { cid: 0, amount: Val::Imm(1), asset: 0 }],
        Ending::Tro => vec![Tpl::Tro { addr: 0, out: Val::VarOut(0), amount: Val::Imm(1), asset: 0 }, Tpl::Tro { addr: 0, out: Val::VarOut(1), amount: Val::Imm(1), asset: 0 }],
        Ending::Smo => vec![Tpl::Smo { addr: 0, p: hp, len: Val::Imm(4), coins: Val::Imm(0) }, Tpl::Smo { addr: 0, p: hp, len: Val::Imm(4), coins: Val::Imm(0) }],
        Ending::PanicOp => vec![Tpl::Raw(0xff00_0000)],
        Ending::Raw(w) => vec![Tpl::Raw(w), Tpl::Raw(w)],
    }
}

fn flood_check(case: &FloodCase, obs: &mut Obs) -> Check {
    let mut w = case.world.clone();
    w.dag = false;
    match &case.flood {
        Flood::Receipts { n, inside_call, ending } => {
            obs.class("flood:receipts");
            if *n >= 65_000 {
                obs.class("flood:receipts-near-limit");
            }
            // the loop costs 3 instructions per receipt; make the budget sufficient
            // fixed bodies without storage range operations: the unit schedule is safe here, except for a raw ending
            w.sched = match (&w.sched, ending) {
                (_, Ending::Raw(_)) => Sched::Default,
                (Sched::Random(_), _) => Sched::Unit,
                (s, _) => s.clone(),
            };
            w.gas_limit = match w.sched {
                Sched::Unit => (*n as u64) * 3 + 400,
                _ => ((*n as u64) * 3 + 400) * 3,
            };
            let mut body = loop_logs(*n);
            body.extend(ending_tpls(*ending));
            body.push(Tpl::Ret { v: Val::Imm(0) });
            if *inside_call && !w.contracts.is_empty() {
                w.contracts[0].listed = true;
                w.contracts[0].body = body;
                w.calls = vec![(0, 0, 0)];
                w.script = vec![Tpl::Call { call: 0, coins: Val::Imm(0), asset: 0, gas: Val::Reg(RegId::CGAS.to_u8()) }, Tpl::Log { a: 1, b: 1, c: 1, d: 1 }, Tpl::Ret { v: Val::Imm(1) }];
            } else {
                w.script = body;
            }
            // unit schedule with a large budget: the bodies contain no bulk memory operation
        }
        Flood::Recursion { forward, extend_frame } => {
            obs.class("flood:recursion");
            if w.contracts.is_empty() {
                obs.class("flood:no-contract");
                return Ok(());
            }
            cap_gas(&mut w);
            w.contracts[0].listed = true;
            w.calls = vec![(0, 1, 2)];
            w.contracts[0].body = vec![
                Tpl::Stack { op: prog::StackOp::Cfei, n: *extend_frame & 0xfff8, r: Val::Imm(0) },
                Tpl::Storage { op: StOp::Sww, key: 0, key_ptr: None, p: Ptr { base: Base::HeapA, off: 0 }, a: Val::Imm(7), b: Val::Imm(0), imm: 0 },
                Tpl::Call { call: 0, coins: Val::Imm(0), asset: 0, gas: *forward },
                Tpl::Ret { v: Val::Imm(1) },
            ];
            w.script = vec![Tpl::Call { call: 0, coins: Val::Imm(0), asset: 0, gas: Val::Reg(RegId::CGAS.to_u8()) }, Tpl::Ret { v: Val::Imm(1) }];
        }
        Flood::Exhaust { stack_first, chunk, tail } => {
            obs.class("flood:exhaust");
            cap_gas(&mut w);
            let grow_stack = Tpl::Stack { op: prog::StackOp::Cfei, n: *chunk & 0xff_fff8, r: Val::Imm(0) };
            let grow_heap = Tpl::Aloc { len: Val::Imm(*chunk & 0x3ffff) };
            let (a, b) = if *stack_first { (grow_stack, grow_heap) } else { (grow_heap, grow_stack) };
            let mut body = vec![Tpl::SetCnt { n: 40 }, a.clone(), Tpl::Jump { kind: JumpKind::Jmpb, delta: -4, a: 0, b: 0, guarded: true }, b.clone(), b, a];
            body.extend(tail.iter().cloned());
            body.push(Tpl::Ret { v: Val::Imm(1) });
            w.script = body;
        }
    }
    run_world(&w, "flood", obs)
}

fn ending() -> impl Strategy<Value = Ending> {
    prop_oneof![
        Just(Ending::Log),
        Just(Ending::Logd),
        Just(Ending::Ret),
        Just(Ending::Retd),
        Just(Ending::Rvrt),
        Just(Ending::Call),
        Just(Ending::Tr),
        Just(Ending::Tro),
        Just(Ending::Smo),
        Just(Ending::PanicOp),
        (opcode_byte(), any::<u32>()).prop_map(|(o, x)| Ending::Raw(((o as u32) << 24) | (x & 0x00_41_0c_ff))),
    ]
}

pub fn flood_case() -> impl Strategy<Value = FloodCase> {
    let flood = prop_oneof![
        3 => (prop_oneof![3 => 65_525u32..=65_540, 1 => 0u32..300, 1 => 300u32..66_000], any::<bool>(), ending()).prop_map(|(n, inside_call, ending)| Flood::Receipts { n, inside_call, ending }),
        3 => (prop_oneof![Just(Val::Reg(RegId::CGAS.to_u8())), Just(Val::Max), (0u32..5000).prop_map(Val::Imm)], prop_oneof![Just(0u32), 0u32..4096, Just(0xfff8u32)]).prop_map(|(forward, extend_frame)| Flood::Recursion { forward, extend_frame }),
        3 => (any::<bool>(), prop_oneof![Just(0x3fff8u32), 1u32..0x40000, Just(0x20_0000u32)], prop::collection::vec(prog::tpl(prog::W_SCRIPT, false, 60), 0..8)).prop_map(|(stack_first, chunk, tail)| Flood::Exhaust { stack_first, chunk, tail }),
    ];
    (world::world(prog::W_SCRIPT, 4, 2), flood).prop_map(|(world, flood)| FloodCase { world, flood })
}

// ------------------------------------------------------------------ (c) planted instruction

#[derive(Debug, Clone, PartialEq, Eq, Hash, Serialize, Deserialize)]
pub struct PlantCase {
    pub opcode: u8,
    pub fields: u32,
    /// general-purpose registers 0x10..0x40
    pub regs: Vec<u64>,
    /// ($of, $err, $ret, $retl, $bal, $flag & 3)
    pub sys: (u64, u64, u64, u64, u64, u8),
    /// set-up executed through real instructions first: bytes allocated / frame extension
    pub alloc: u32,
    pub cfei: u32,
    pub predicate_ctx: bool,
    pub script_data: HexBytes,
    /// clear the reserved bits of the operand fields (the word then decodes)
    pub valid_fields: bool,
}

fn plant_check(c: &PlantCase, obs: &mut Obs) -> Check {
    let spec = vmfix::VmSpec { script: op::ret(RegId::ONE).to_bytes().to_vec(), script_data: c.script_data.0.clone(), gas_limit: 1_000_000 };
    let mut vm = vmfix::script_vm(&spec).map_err(|e| Failure::new("harness-fixture", e))?;
    // legitimate set-up through instructions (keeps $hp/$sp consistent with the memory instance)
    let setup = [op::movi(0x10, c.alloc & 0x3ffff), op::aloc(0x10), op::cfei(c.cfei & 0xffff)];
    for i in setup {
        let _ = vmfix::step(&mut vm, i.into());
    }
    let mut rf = vmfix::regfile(&vm);
    // pointers into the live regions are planted as some of the values
    let hp = rf[RegId::HP.to_u8() as usize];
    let sp = rf[RegId::SP.to_u8() as usize];
    let ssp = rf[RegId::SSP.to_u8() as usize];
    for (i, v) in c.regs.iter().take(48).enumerate() {
        rf[0x10 + i] = match v >> 60 {
            0 => hp.wrapping_add(v & 0xffff),
            1 => sp.wrapping_sub(v & 0xffff),
            2 => ssp.wrapping_add(v & 0xfff),
            3 => v & 0x3f,
            4 => v & 0xffff,
            _ => *v,
        };
    }
    rf[RegId::OF.to_u8() as usize] = c.sys.0;
    rf[RegId::ERR.to_u8() as usize] = c.sys.1;
    rf[RegId::RET.to_u8() as usize] = c.sys.2;
    rf[RegId::RETL.to_u8() as usize] = c.sys.3;
    rf[RegId::BAL.to_u8() as usize] = c.sys.4;
    rf[RegId::FLAG.to_u8() as usize] = (c.sys.5 & 3) as u64;
    vmfix::plant(&mut vm, &rf);
    let raw = if c.valid_fields { mk_word(c.opcode, c.fields, false) } else { ((c.opcode as u32) << 24) | (c.fields & 0x00ff_ffff) };
    let g0 = vm.registers()[RegId::GGAS];
    let r = if c.predicate_ctx { catch_panic(|| vmfix::step_in::<true>(&mut vm, raw)) } else { catch_panic(|| vmfix::step(&mut vm, raw)) };
    let name = fuel_asm::Instruction::try_from(raw).ok().map(|i| format!("{:?}", i.opcode())).unwrap_or_else(|| "invalid".into());
    obs.class(&format!("op:{name}"));
    match r {
        Err((loc, msg)) => fail!(format!("host-panic@{loc}"), "instruction {raw:#010x} ({name}) panicked the host at {loc}: {}", &msg[..msg.len().min(300)]),
        Ok(Err(vmfix::StepError::Other(e))) => {
            judge_error(&e, obs)?;
        }
        Ok(Err(vmfix::StepError::Panic(p))) => {
            obs.class("result:panic");
            obs.note(&format!("panic:{p:?}"), 1);
            if name != "invalid" && !matches!(p, PanicReason::ReservedRegisterNotWritable | PanicReason::ExpectedInternalContext | PanicReason::ContractInstructionNotAllowed) {
                obs.nontrivial(&(c.opcode, format!("{p:?}")));
            }
        }
        Ok(Ok(st)) => {
            let g1 = vm.registers()[RegId::GGAS];
            ensure!(g1 < g0, format!("gas:instruction-burned-no-gas:{name}"), "instruction {raw:#010x} ({name}) executed ({st:?}) with $ggas {g0} -> {g1}");
            obs.class(match st {
                ExecuteState::Proceed => "result:proceed",
                _ => "result:ended",
            });
            obs.nontrivial(&(c.opcode, "ok"));
        }
    }
    Ok(())
}

pub fn plant_case() -> impl Strategy<Value = PlantCase> {
    let reg = prop_oneof![4 => any::<u64>(), 3 => crate::gens::word(), 3 => (0u64..5, any::<u64>()).prop_map(|(k, v)| (k << 60) | (v & 0x0fff_ffff_ffff_ffff))];
    (
        prop_oneof![9 => opcode_byte(), 1 => any::<u8>()],
        // register fields mostly in the general-purpose range so that the instruction gets past the register checks
        prop_oneof![3 => any::<u32>(), 5 => (0x10u32..0x40, 0x10u32..0x40, 0x10u32..0x40, 0u32..0x40).prop_map(|(a, b, c, d)| (a << 18) | (b << 12) | (c << 6) | d), 2 => (0x10u32..0x40, 0x10u32..0x40, 0u32..4096).prop_map(|(a, b, i)| (a << 18) | (b << 12) | i)],
        prop::collection::vec(reg, 48),
        (crate::gens::word(), crate::gens::word(), crate::gens::word(), crate::gens::word(), crate::gens::word(), 0u8..4),
        prop_oneof![Just(0u32), 0u32..4096, Just(0x3ffffu32)],
        prop_oneof![Just(0u32), 0u32..4096, Just(0xfff8u32)],
        prop::bool::weighted(0.15),
        raw_bytes(64),
        prop::bool::weighted(0.9),
    )
        .prop_map(|(opcode, fields, regs, sys, alloc, cfei, predicate_ctx, script_data, valid_fields)| PlantCase { opcode, fields, regs, sys, alloc, cfei, predicate_ctx, script_data, valid_fields })
}

// ------------------------------------------------------------------ raw predicates

#[derive(Debug, Clone, PartialEq, Eq, Hash, Serialize, Deserialize)]
pub struct RawPredCase {
    pub sched: Sched,
    /// code = [seed prefix] ++ raw ++ [RET $one]
    pub seed: bool,
    pub ret_one: bool,
    pub code: HexBytes,
    pub data: HexBytes,
    pub declared_gas: Option<u64>,
    pub max_gas_per_predicate: u64,
}

fn raw_pred_check(c: &RawPredCase, obs: &mut Obs) -> Check {
    let mut code = if c.seed {
        // predicates have no script data: drop the GTF of the seed prefix
        let mut p = seed_prefix();
        p.truncate(10 * 4);
        p
    } else {
        vec![]
    };
    code.extend_from_slice(&c.code.0);
    if c.ret_one {
        code.extend_from_slice(&op::ret(RegId::ONE).to_bytes());
    }
    if code.is_empty() {
        obs.class("empty-predicate-skipped");
        return Ok(());
    }
    let mut params = ConsensusParameters::standard();
    params.set_gas_costs(world::gas_costs(&c.sched));
    let cap = match c.sched {
        Sched::Unit => 1500,
        _ => 200_000,
    };
    let pp = params.predicate_params().clone().with_max_gas_per_predicate(c.max_gas_per_predicate.min(cap));
    params.set_predicate_params(pp);
    let height = BlockHeight::from(3u32);
    let owner = Input::predicate_owner(&code);
    let mut tb = TransactionBuilder::script(vec![], vec![]);
    tb.with_params(params.clone());
    tb.max_fee_limit(1 << 30);
    tb.add_input(Input::coin_predicate(UtxoId::new(Bytes32::from([1; 32]), 0), owner, 1 << 31, AssetId::BASE, TxPointer::default(), c.declared_gas.unwrap_or(0), code.clone(), c.data.0.clone()));
    tb.add_output(Output::change(Address::from([9; 32]), 0, AssetId::BASE));
    let mut tx: Script = tb.finalize();
    let cp: CheckPredicateParams = (&params).into();
    let bug = |e: &str| e.contains("Bug(");
    if c.declared_gas.is_none() {
        match catch_panic(|| tx.estimate_predicates(&cp, MemoryInstance::new(), &EmptyStorage)) {
            Err((loc, msg)) => fail!(format!("host-panic:predicate@{loc}"), "estimate_predicates panicked at {loc}: {msg}"),
            Ok(Err(e)) => {
                let s = format!("{e:?}");
                ensure!(!bug(&s), "bug-error:predicate", "predicate estimation reported an internal bug: {s}");
                obs.class("estimation-failed");
            }
            Ok(Ok(())) => {
                obs.class("estimated");
                let used = tx.inputs().first().and_then(|i| i.predicate_gas_used()).unwrap_or(0);
                if used >= 10 {
                    obs.class("estimated:gas>=10");
                    obs.nontrivial(&(code.len(), used));
                }
            }
        }
    }
    match catch_panic(|| tx.into_checked(height, &params)) {
        Err((loc, msg)) => fail!(format!("host-panic:predicate@{loc}"), "into_checked panicked at {loc}: {msg}"),
        Ok(Err(e)) => {
            let s = format!("{e:?}");
            ensure!(!bug(&s), "bug-error:predicate", "predicate verification reported an internal bug: {s}");
            obs.class(&format!("rejected:{}", s.split(|ch: char| !ch.is_alphanumeric()).filter(|x| !x.is_empty()).nth(1).unwrap_or("?")));
        }
        Ok(Ok(_)) => {
            obs.class("accepted");
            obs.nontrivial(&(code.len(), c.data.0.len(), "accepted"));
        }
    }
    Ok(())
}

pub fn raw_pred_case() -> impl Strategy<Value = RawPredCase> {
    (world::sched(), any::<bool>(), prop::bool::weighted(0.7), raw_bytes(300), raw_bytes(100), prop::option::weighted(0.3, prop_oneof![0u64..100, 0u64..100_000]), prop_oneof![1 => 0u64..100, 4 => 100u64..200_000])
        .prop_map(|(sched, seed, ret_one, code, data, declared_gas, max_gas_per_predicate)| RawPredCase { sched, seed, ret_one, code, data, declared_gas, max_gas_per_predicate })
}

// ---------------------------------------------------------------- asset counts vs max_inputs

/// A checked, ready script whose inputs use many distinct assets: the balance table the VM
/// writes at initialisation has `max_inputs` entries.
#[derive(Debug, Clone, Serialize, Deserialize)]
pub struct AssetsCase {
    pub max_inputs: u16,
    /// number of coin inputs (clipped to max_inputs)
    pub inputs: u16,
    /// number of distinct non-base assets among them (clipped to inputs)
    pub assets: u16,
    /// one of the inputs is a base-asset coin
    pub with_base: bool,
    pub max_fee: u64,
}

fn assets_case() -> impl Strategy<Value = AssetsCase> {
    (prop_oneof![3 => 1u16..6, 1 => Just(16u16), 1 => Just(255u16)], any::<u16>(), any::<u16>(), any::<bool>(), prop_oneof![3 => Just(0u64), 1 => 0u64..1000])
        .prop_map(|(max_inputs, i, a, with_base, max_fee)| {
            // bias towards full tables: inputs == max_inputs, all distinct
            let inputs = if i % 3 == 0 { 1 + i % max_inputs } else { max_inputs };
            let assets = if a % 3 == 0 { 1 + a % inputs } else { inputs };
            AssetsCase { max_inputs, inputs, assets, with_base, max_fee }
        })
}

fn assets_check(c: &AssetsCase, obs: &mut Obs) -> Check {
    let mut params = ConsensusParameters::standard();
    let mut txp = *params.tx_params();
    txp = txp.with_max_inputs(c.max_inputs);
    params.set_tx_params(txp);
    let mut tb = TransactionBuilder::script(vec![op::ret(RegId::ONE)].into_iter().collect(), vec![]);
    tb.with_params(params.clone());
    tb.script_gas_limit(10_000);
    tb.max_fee_limit(c.max_fee);
    let n = c.inputs.min(c.max_inputs).max(1);
    let secret = world::secret(0);
    for k in 0..n {
        let asset = if c.with_base && k == 0 {
            AssetId::zeroed()
        } else {
            let a = 1 + (k % c.assets.max(1));
            let mut b = [0xA5u8; 32];
            b[0] = (a >> 8) as u8;
            b[1] = a as u8;
            AssetId::from(b)
        };
        let mut id = [0x77u8; 32];
        id[0] = (k >> 8) as u8;
        id[1] = k as u8;
        tb.add_unsigned_coin_input(secret, UtxoId::new(Bytes32::from(id), k), 1_000_000, asset, TxPointer::default());
    }
    let tx = tb.finalize();
    let checked = match tx.into_checked(BlockHeight::from(1u32), &params) {
        Ok(c) => c,
        Err(_) => {
            obs.class("assets:rejected-by-check");
            return Ok(());
        }
    };
    let ready = match checked.into_ready(0, params.gas_costs(), params.fee_params(), None) {
        Ok(r) => r,
        Err(_) => {
            obs.class("assets:not-ready");
            return Ok(());
        }
    };
    let distinct = c.assets.min(n) as usize + 1; // the base asset always has an entry
    if distinct > c.max_inputs as usize {
        obs.class("assets:more-assets-than-max-inputs");
        obs.nontrivial(&(c.max_inputs, n, c.assets, c.with_base));
    }
    let mut vm = fuel_vm::interpreter::Interpreter::<_, _, Script>::with_storage(
        MemoryInstance::new(),
        MemoryStorage::default(),
        fuel_vm::interpreter::InterpreterParams::new(0, &params),
    );
    // a host panic is caught by the engine and keyed by its location
    match vm.transact(ready) {
        Ok(st) => {
            obs.class("assets:executed");
            let _ = st.state();
        }
        Err(e) => {
            let s = format!("{e:?}");
            ensure!(!s.contains("Bug"), "bug-error:asset-counts", "internal bug error: {s}");
            obs.class("assets:specified-rejection");
        }
    }
    Ok(())
}

pub fn property() -> Property {
    Property {
        id: "C29",
        rule: "parts: mutated-worlds (G-PROG world, then 1-6 byte-level mutations of script / script data / contract code: set byte, set word, insert word, truncate, append raw, replace by raw bytes; transaction rebuilt and re-signed), raw-worlds (script and 0-2 listed contracts are raw bytes or sequences of valid-opcode words, optionally behind a CALL to contract 0), wild-worlds (G-PROG bodies with 40/70/95 % wild templates in script and contracts), floods (receipt loops of 0..66 000 LOGs — clustered at the 65 535 limit — followed by each kind of receipt-producing ending, in the script or inside a call; unbounded self-recursion; stack/heap exhaustion followed by wild templates), planted-instruction (every opcode byte x generated operand fields x generated register file with pointers into live regions, planted after real ALOC/CFEI set-up, script and predicate context), raw-predicates (raw predicate code/data through estimate_predicates and into_checked). Default / unit / random schedules (no unit schedule where operands are arbitrary: it prices a 2^26-slot SCLR at 1 gas; random budgets capped). Oracle: no host panic, no Bug error, outcome is a program state / Panic / CheckError / Storage error, every single-stepped instruction lowers $ggas by >= 1, steps <= gas_limit + 1. Non-trivial (worlds) = >= 10 steps with >= 1 instruction inside a contract; distinct by (steps, contract steps, size)".into(),
        assumptions: vec![
            "C32: single-stepping does not change execution (the step monitor counts instructions and reads $ggas between them)".into(),
            "debug assertions and overflow checks are compiled in (harness profile): a debug_assert in the library counts as a host panic".into(),
            "reserved registers are never planted with values the VM could not have produced ($hp/$sp/$ssp/$fp/$pc/$is/$ggas/$cgas come from real set-up instructions)".into(),
            "CPU time and memory are bounded by gas only for schedules with per-unit costs >= 1 (default, random); the unit schedule (per-unit cost 0) is used only for hand-shaped receipt floods and predicates".into(),
        ],
        parts: vec![
            gen_part("mutated-worlds", "world × byte mutations", (3_000, 50_000), |_c: &Ctx| mut_case(), mut_check),
            gen_part("raw-worlds", "raw script / data / contract bytes", (4_000, 100_000), |_c: &Ctx| raw_case(), raw_check),
            gen_part("wild-worlds", "G-PROG with 40-95% wild templates", (3_000, 40_000), |_c: &Ctx| wild_world(), wild_check),
            gen_part("floods", "receipt floods, recursion, exhaustion", (300, 3_000), |_c: &Ctx| flood_case(), flood_check),
            gen_part("planted-instruction", "opcode × fields × register file", (40_000, 1_000_000), |_c: &Ctx| plant_case(), plant_check),
            gen_part("asset-counts", "checked scripts with max_inputs coin inputs over 1..=max_inputs distinct assets, with / without a base-asset input", (6_000, 100_000), |_c: &Ctx| assets_case(), assets_check),
            gen_part("raw-predicates", "raw predicate bytes", (4_000, 100_000), |_c: &Ctx| raw_pred_case(), raw_pred_check),
        ],
        floors: vec![
            ("mutated-worlds", "nontrivial", 0.15),
            ("wild-worlds", "nontrivial", 0.10),
            ("wild-worlds", "sched:default", 0.30),
            ("raw-worlds", "steps>=10", 0.15),
            ("raw-predicates", "estimated:gas>=10", 0.10),
            ("floods", "flood:receipts-near-limit", 0.10),
            ("planted-instruction", "result:proceed", 0.20),
        ],
    }
}
