//! C32 — Breakpoints and single-stepping do not change execution results.
use crate::engine::*;
use crate::vm::prog;
use crate::vm::world::{self, run_on, run_stepping, storage_fingerprint, RunOut, WorldSpec};
use crate::{ensure, ensure_eq};
use fuel_asm::RegId;
use fuel_tx::Receipt;
use fuel_vm::state::{Breakpoint, DebugEval, ProgramState};
use proptest::prelude::*;
use serde::{Deserialize, Serialize};

#[derive(Debug, Clone, Serialize, Deserialize)]
pub struct Case {
    pub world: WorldSpec,
    /// breakpoints: (location selector: 0 = script, k = contract k-1; instruction index selector)
    pub bps: Vec<(u8, u16)>,
    pub every: bool,
}

pub fn classify_run(out: &RunOut, obs: &mut Obs) {
    let mut calls = 0;
    for r in &out.receipts {
        match r {
            Receipt::Call { .. } => calls += 1,
            Receipt::Transfer { .. } | Receipt::TransferOut { .. } => obs.class("has-transfer"),
            Receipt::Mint { .. } | Receipt::Burn { .. } => obs.class("has-mint/burn"),
            Receipt::MessageOut { .. } => obs.class("has-smo"),
            Receipt::Panic { reason, .. } => obs.class(&format!("panic:{:?}", reason.reason())),
            Receipt::ScriptResult { result, .. } => obs.class(&format!("result:{result:?}")),
            _ => {}
        }
    }
    if calls > 0 {
        obs.class("has-call");
    }
    if calls > 1 {
        obs.class("has-2+calls");
    }
    if let Err(e) = &out.state {
        obs.class(&format!("vm-error:{}", e.split('(').next().unwrap_or("?")));
    }
}

fn check(case: &Case, obs: &mut Obs) -> Check {
    let b = match case.world.build() {
        Ok(b) => b,
        Err(e) => {
            obs.class("world-invalid");
            obs.note(&format!("invalid:{}", e.chars().take(60).collect::<String>()), 1);
            return Ok(());
        }
    };
    let ready = match b.ready() {
        Ok(r) => r,
        Err(_) => {
            obs.class("world-not-ready");
            return Ok(());
        }
    };
    // reference: plain run
    let (plain, st_plain) = b.run_plain().map_err(|e| Failure::new("harness-run", e))?;
    classify_run(&plain, obs);
    if plain.receipts.iter().any(|r| matches!(r, Receipt::Panic { reason, .. } if *reason.reason() == fuel_asm::PanicReason::OutOfGas)) {
        let g = case.world.gas_limit * 3;
        let depth = plain.receipts.iter().filter(|r| matches!(r, Receipt::Call { .. })).count();
        obs.class(&format!("oog:gas<{}:calls{}", if g < 300 { "300" } else if g < 3000 { "3000" } else if g < 50_000 { "50k" } else { "200k" }, depth.min(3)));
    }
    let fp_plain = storage_fingerprint(&st_plain);

    // (1) single stepping
    let mut vm = b.new_vm(b.storage.clone());
    let mut events: Vec<(u64, u64)> = vec![]; // (pc - is, is)
    let max_steps = b.gas_limit + 16;
    let stepped = run_stepping(
        &mut vm,
        ready.clone(),
        max_steps,
        |s| {
            let regs = s.vm.registers();
            events.push((regs[RegId::PC], regs[RegId::IS]));
        },
        |_, _| {},
    );
    let stepped = match stepped {
        Ok(o) => o,
        Err(e) => return Err(Failure::new("harness-step-budget", e)),
    };
    obs.note("steps", events.len() as u64);
    ensure_eq!(stepped.state, plain.state, "single-step:state-differs", "final state");
    ensure_eq!(stepped.receipts, plain.receipts, "single-step:receipts-differ", "receipts");
    ensure_eq!(stepped.tx, plain.tx, "single-step:tx-differs", "output tx");
    ensure!(storage_fingerprint(vm.as_ref()) == fp_plain, "single-step:storage-differs", "storage after single-stepped run differs");

    // (2) breakpoint sets
    let mut vm2 = b.new_vm(b.storage.clone());
    let mut set: Vec<Breakpoint> = vec![];
    if case.every {
        // the executable region extends over the rest of the tx bytes and LDC-loaded code
        for i in 0..(b.script_words.len() as u64 + 6000) {
            set.push(Breakpoint::script(i));
        }
        for (k, w) in b.contract_words.iter().enumerate() {
            for i in 0..(w.len() as u64 + 3000) {
                set.push(Breakpoint::new(b.cids[k], i));
            }
        }
    } else {
        for (loc, sel) in &case.bps {
            let nloc = 1 + b.contract_words.len();
            let l = (*loc as usize) % nloc;
            if l == 0 {
                let n = b.script_words.len();
                // bias towards the body (after the prelude)
                let i = prog::PRELUDE_LEN.min(n.saturating_sub(1)) + crate::gens::pick(*sel, (n - prog::PRELUDE_LEN.min(n.saturating_sub(1))).max(1));
                set.push(Breakpoint::script(i as u64));
            } else {
                let n = b.contract_words[l - 1].len();
                let i = crate::gens::pick(*sel, n.max(1));
                set.push(Breakpoint::new(b.cids[l - 1], i as u64));
            }
        }
    }
    for bp in &set {
        vm2.set_breakpoint(*bp);
    }
    let mut state = match vm2.transact(ready.clone()) {
        Ok(s) => Ok(*s.state()),
        Err(e) => Err(format!("{e:?}")),
    };
    let mut n_events = 0u64;
    let mut inside_call = false;
    let mut last: Option<(Breakpoint, u64)> = None; // (bp, steps executed marker)
    loop {
        match state {
            Ok(ProgramState::RunProgram(DebugEval::Breakpoint(bp))) => {
                n_events += 1;
                // the event location must be a configured breakpoint and equal the next instruction's location
                ensure!(case.every || set.contains(&bp), "breakpoint:event-not-configured", "event at {bp:?} which is not a configured breakpoint");
                let regs = vm2.registers();
                let rel = regs[RegId::PC].saturating_sub(regs[RegId::IS]);
                ensure_eq!(bp.pc(), rel, "breakpoint:event-pc-mismatch", "event pc vs $pc-$is");
                if *bp.contract() != Default::default() {
                    inside_call = true;
                }
                let _ = &last;
                last = Some((bp, n_events));
                if n_events > max_steps {
                    return Err(Failure::new("harness-step-budget", "breakpoint loop"));
                }
                state = vm2.resume().map_err(|e| format!("{e:?}"));
            }
            _ => break,
        }
    }
    let out2 = RunOut { state, receipts: vm2.receipts().to_vec(), tx: vm2.transaction().clone() };
    ensure_eq!(out2.state, plain.state, "breakpoints:state-differs", "final state");
    ensure_eq!(out2.receipts, plain.receipts, "breakpoints:receipts-differ", "receipts");
    ensure_eq!(out2.tx, plain.tx, "breakpoints:tx-differs", "output tx");
    ensure!(storage_fingerprint(vm2.as_ref()) == fp_plain, "breakpoints:storage-differs", "storage after breakpointed run differs");
    if case.every {
        // a breakpoint on every instruction must report exactly the single-step events
        ensure_eq!(n_events, events.len() as u64, "breakpoints:every-instruction-count", "events with a breakpoint on every instruction vs single-step events");
    }
    if n_events >= 3 {
        obs.class("3+events");
        if inside_call {
            obs.class("3+events-inside-call");
            obs.nontrivial(&(events.len(), n_events, plain.receipts.len()));
        }
    }
    // (3) a second plain run on the used VM must not be influenced by the debugger state: covered by C31
    let _ = run_on::<fuel_vm::storage::MemoryStorage>;
    Ok(())
}

pub fn case() -> impl Strategy<Value = Case> {
    (world::world(prog::W_SCRIPT, 40, 3), prop::collection::vec((0u8..4, any::<u16>()), 0..6), prop::bool::weighted(0.3)).prop_map(|(world, bps, every)| Case { world, bps, every })
}

pub fn property() -> Property {
    Property {
        id: "C32",
        rule: "G-PROG worlds (script + 0..3 contracts from aimed instruction templates) run (a) plain, (b) single-stepped resuming after every event, (c) with a generated breakpoint set (script and contract locations) or a breakpoint on every instruction; final state, receipts, output tx and storage must be identical, each event must be at a configured location equal to $pc-$is, and breakpoint-on-every-instruction must report exactly the single-step events. Non-trivial = ≥3 events with at least one inside a called contract; distinct by (steps, events, receipts)".into(),
        assumptions: vec!["MemoryStorage Debug output is a faithful rendering of its tables (used as storage fingerprint)".into()],
        parts: vec![gen_part("debug-equivalence", "world × breakpoint set", (6_000, 200_000), |_c: &Ctx| case(), check)],
        floors: vec![("debug-equivalence", "has-call", 0.10), ("debug-equivalence", "3+events-inside-call", 0.05)],
    }
}
