//! C20 — Only authorized inputs survive signature and predicate checks.
//!
//! (a) `check_signatures` ok ⇔ every signed input's witness recovers (fuel-crypto
//!     `Signature::recover` over the harness's reference id, C03) to a key whose SHA-256 is the
//!     owner, and every predicate input's owner is the C15 formula of its code; after acceptance a
//!     sample of single-field mutations of the spec: non-malleable ⇒ rejected, malleable ⇒ accepted.
//! (b) `check_predicates` ok ⇔ (stated as ⇒ by the property; ⇐ under the modelled preconditions)
//!     every predicate input has the formula owner and, run alone in a fresh VM with
//!     `gas = predicate_gas_used`, returns 1 with zero gas left; gas ± 1 and a changed owner are
//!     rejected.
//! (c) `estimate_predicates` ok ⇒ the estimated transaction passes `check_predicates` and the
//!     verified total equals the estimate's total and Σ predicate_gas_used.
//! (d) harness `ParallelExecutor` (generated execution order and generated result order) and a
//!     harness `VmMemoryPool` handing out dirty memories: same verdicts and totals as sequential.
//!
//! Predicate programs are written here from `fuel_asm::op`; the programs of the main parts never
//! name `$ggas` / `$cgas` (stated precondition); part `gas-observing` holds the ones that do.

use crate::engine::*;
use crate::gens::tx::*;
use crate::gens::validtx::{params_any, params_standard, valid_tx_kind, Auth, GasSched, ParamsSpec, Tight, VBody, VIn, ValidCase, ValidTxSpec};
use crate::gens::pick;
use crate::model::rfc6962 as rf;
use crate::props::c03::reference_id;
use crate::{ensure, ensure_eq, fail};
use fuel_asm::{op, GMArgs, GTFArgs, Instruction, RegId};
use fuel_crypto::{Message, Signature};
use fuel_tx::{ConsensusParameters, FormatValidityChecks, Transaction};
use fuel_types::Word;
use fuel_vm::checked_transaction::{CheckPredicateParams, CheckPredicates, Checked, IntoChecked, ParallelExecutor};
use fuel_vm::constraints::reg_key::{Reg, RegMut, HP, SP};
use fuel_vm::context::Context;
use fuel_vm::error::{InterpreterError, PredicateVerificationFailed};
use fuel_vm::interpreter::predicates;
use fuel_vm::interpreter::{CheckedMetadata, ExecutableTransaction, Interpreter, InterpreterParams, MemoryInstance, NotSupportedEcal};
use fuel_vm::pool::VmMemoryPool;
use fuel_vm::predicate::RuntimePredicate;
use fuel_vm::state::ExecuteState;
use fuel_vm::storage::predicate::{EmptyStorage, PredicateStorage};
use proptest::prelude::*;
use serde::{Deserialize, Serialize};
use sha2::{Digest, Sha256};
use std::cell::RefCell;
use std::future::Future;
use std::pin::Pin;
use std::sync::atomic::{AtomicU64, Ordering};
use std::task::{Context as TaskCx, Poll};

// =================================================================== predicate programs

#[derive(Debug, Clone, PartialEq, Eq, Hash, Serialize, Deserialize)]
pub enum Prog {
    RetOne,
    RetZero,
    RetVal(u32),
    Revert,
    RetData,
    /// infinite loop
    Loop,
    /// counted loop, then `ret $one`
    LoopN(u32),
    /// `gtf r, idx, imm ; ret $one`
    ReadsGtf { imm: u16, idx: u8 },
    /// compares the first word of its own predicate data with `expect`; `good` = the data holds it
    CmpData { expect: u32, good: bool },
    /// own predicate index == `want`?  (`want` = None: the real index)
    CmpIndex { off: u8 },
    /// stack + heap traffic, returns a value read back from memory
    MemOps { n: u8 },
    /// one contract-only instruction, then `ret $one`
    ContractOp(u8),
    /// raw words (never naming the gas registers), then `ret $one`
    Raw(Vec<u32>),
    /// returns `$ggas > k`  (only generated in part `gas-observing`)
    GasAbove(u32),
    /// returns `$cgas == $ggas` after k no-ops — true in both runs; gas-observing but harmless
    GasRegsEqual(u8),
}

impl Prog {
    fn label(&self) -> &'static str {
        match self {
            Prog::RetOne => "prog:ret-one",
            Prog::RetZero => "prog:ret-zero",
            Prog::RetVal(_) => "prog:ret-val",
            Prog::Revert => "prog:revert",
            Prog::RetData => "prog:retd",
            Prog::Loop => "prog:infinite-loop",
            Prog::LoopN(_) => "prog:counted-loop",
            Prog::ReadsGtf { .. } => "prog:reads-gtf",
            Prog::CmpData { .. } => "prog:cmp-predicate-data",
            Prog::CmpIndex { .. } => "prog:cmp-own-index",
            Prog::MemOps { .. } => "prog:memory-ops",
            Prog::ContractOp(_) => "prog:contract-opcode",
            Prog::Raw(_) => "prog:raw-words",
            Prog::GasAbove(_) => "prog:gas-above",
            Prog::GasRegsEqual(_) => "prog:gas-regs-equal",
        }
    }
    fn observes_gas(&self) -> bool {
        matches!(self, Prog::GasAbove(_) | Prog::GasRegsEqual(_))
    }
}

/// no 6-bit operand position of the word may name `$ggas` (0x09) or `$cgas` (0x0a)
fn scrub_gas_regs(w: u32) -> u32 {
    let mut w = w;
    for sh in [18u32, 12, 6, 0] {
        let f = (w >> sh) & 0x3f;
        if f == 0x09 || f == 0x0a {
            w = (w & !(0x3f << sh)) | (0x10 << sh);
        }
    }
    w
}

fn compile(p: &Prog, is_coin: bool) -> Vec<u8> {
    let (r0, r1, r2, r3, r4, r5) = (0x10u8, 0x11u8, 0x12u8, 0x13u8, 0x14u8, 0x15u8);
    let one = RegId::ONE;
    let zero = RegId::ZERO;
    let ins: Vec<Instruction> = match p {
        Prog::RetOne => vec![op::ret(one)],
        Prog::RetZero => vec![op::ret(zero)],
        Prog::RetVal(v) => vec![op::movi(r0, *v & 0x3ffff), op::ret(r0)],
        Prog::Revert => vec![op::rvrt(one)],
        Prog::RetData => vec![op::retd(zero, zero)],
        Prog::Loop => vec![op::noop(), op::ji(0)],
        Prog::LoopN(n) => vec![op::movi(r0, (*n & 0x3ffff).max(1)), op::subi(r0, r0, 1), op::jnzb(r0, zero, 0), op::ret(one)],
        Prog::ReadsGtf { imm, idx } => vec![op::movi(r1, *idx as u32), op::gtf(r0, r1, *imm & 0xfff), op::ret(one)],
        Prog::CmpData { expect, .. } => {
            let (data_sel, len_sel) = if is_coin { (GTFArgs::InputCoinPredicateData, GTFArgs::InputCoinPredicateDataLength) } else { (GTFArgs::InputMessagePredicateData, GTFArgs::InputMessagePredicateDataLength) };
            let r6 = 0x16u8;
            vec![
                op::gm_args(r0, GMArgs::GetVerifyingPredicate),
                op::gtf_args(r1, r0, data_sel),
                op::gtf_args(r2, r0, len_sel),
                op::movi(r3, 8),
                op::lt(r4, r2, r3),
                op::jnzf(r4, zero, 3), // data shorter than a word: skip to `ret r6` (r6 == 0)
                op::lw(r5, r1, 0),
                op::movi(r3, *expect & 0x3ffff),
                op::eq(r6, r5, r3),
                op::ret(r6),
            ]
        }
        Prog::CmpIndex { off } => vec![op::gm_args(r0, GMArgs::GetVerifyingPredicate), op::gtf_args(r1, r0, GTFArgs::InputType), op::addi(r2, r0, *off as u16), op::eq(r3, r2, r0), op::ret(r3)],
        Prog::MemOps { n } => {
            let n = (*n as u32 % 6 + 1) * 8;
            vec![
                op::cfei(n + 8),
                op::subi(r0, RegId::SP, (n + 8) as u16),
                op::sw(r0, one, 0),
                op::movi(r1, n),
                op::aloc(r1),
                op::mcp(RegId::HP, r0, r1),
                op::lw(r2, RegId::HP, 0),
                op::meq(r3, RegId::HP, r0, r1),
                op::and(r4, r2, r3),
                op::cfsi(n + 8),
                op::ret(r4),
            ]
        }
        Prog::ContractOp(k) => {
            let i = match k % 8 {
                0 => op::log(zero, zero, zero, zero),
                1 => op::sww(zero, r0, zero),
                2 => op::call(zero, zero, zero, zero),
                3 => op::tr(zero, zero, zero),
                4 => op::mint(zero, zero),
                5 => op::bhei(r0),
                6 => op::bal(r0, zero, zero),
                _ => op::time(r0, zero),
            };
            vec![i, op::ret(one)]
        }
        Prog::Raw(ws) => {
            let mut v: Vec<u8> = ws.iter().flat_map(|w| scrub_gas_regs(*w).to_be_bytes()).collect();
            v.extend(op::ret(one).to_bytes());
            return v;
        }
        Prog::GasAbove(k) => vec![op::movi(r0, *k & 0x3ffff), op::gt(r1, RegId::GGAS, r0), op::ret(r1)],
        Prog::GasRegsEqual(k) => {
            let mut v = vec![op::noop(); (*k % 6) as usize];
            v.extend([op::eq(r0, RegId::GGAS, RegId::CGAS), op::ret(r0)]);
            v
        }
    };
    ins.into_iter().flat_map(|i| i.to_bytes()).collect()
}

fn prog_data(p: &Prog, salt: &[u8]) -> Vec<u8> {
    match p {
        Prog::CmpData { expect, good } => {
            let mut d = ((*expect & 0x3ffff) as u64 ^ (!*good as u64)).to_be_bytes().to_vec();
            d.extend_from_slice(salt);
            d
        }
        _ => salt.to_vec(),
    }
}

fn prog(blind: bool) -> BoxedStrategy<Prog> {
    use fuel_asm::Opcode as O;
    let ops: Vec<u8> = [
        O::ADD, O::ADDI, O::SUB, O::SUBI, O::MUL, O::DIV, O::EQ, O::GT, O::LT, O::MOVE, O::MOVI, O::NOT, O::XOR, O::SLL, O::LW, O::SW, O::LB, O::SB, O::MCP, O::MCL, O::MCLI, O::MEQ,
        O::CFSI, O::JI, O::JNZI, O::JMPF, O::JMPB, O::JNZF, O::JNEI, O::GM, O::GTF, O::RET, O::NOOP, O::S256, O::K256, O::PSHL, O::POPL, O::WQOP, O::WQCM, O::LDC, O::BSIZ, O::ECAL, O::FLAG,
    ]
    .into_iter()
    .map(|o| o as u8)
    .collect();
    let raw_word = prop_oneof![
        2 => any::<u32>(),
        // a predicate-allowed opcode; operands: anything / registers 0x10..0x1f / registers 0..0x1f
        5 => (prop::sample::select(ops), any::<u32>(), 0u8..3).prop_map(|(o, r, m)| {
            let body = match m {
                0 => r & 0x00ff_ffff,
                1 => (r & 0x003c_f3cf) | 0x0041_0410,
                _ => r & 0x007d_f7df,
            };
            (o as u32) << 24 | body
        }),
        1 => Just(u32::from_be_bytes(op::ret(RegId::ONE).to_bytes())),
    ];
    let common = prop_oneof![
        5 => Just(Prog::RetOne),
        1 => Just(Prog::RetZero),
        1 => (0u32..4).prop_map(Prog::RetVal),
        1 => Just(Prog::Revert),
        1 => Just(Prog::RetData),
        1 => Just(Prog::Loop),
        3 => prop_oneof![0u32..40, 0u32..3000, Just(200_000u32)].prop_map(Prog::LoopN),
        3 => (prop_oneof![Just(0x001u16), Just(0x200), Just(0x204), Just(0x242), Just(0x900), Just(0x00e), Just(0x302), Just(0x503), any::<u16>()], 0u8..6).prop_map(|(imm, idx)| Prog::ReadsGtf { imm, idx }),
        4 => (any::<u32>(), prop::bool::weighted(0.75)).prop_map(|(expect, good)| Prog::CmpData { expect, good }),
        2 => prop_oneof![3 => Just(0u8), 1 => 1u8..3].prop_map(|off| Prog::CmpIndex { off }),
        3 => any::<u8>().prop_map(|n| Prog::MemOps { n }),
        1 => any::<u8>().prop_map(Prog::ContractOp),
        3 => prop::collection::vec(raw_word, 1..8).prop_map(Prog::Raw),
    ];
    if blind {
        common.boxed()
    } else {
        prop_oneof![
            4 => prop_oneof![50u32..400, 400u32..5000].prop_map(Prog::GasAbove),
            2 => any::<u8>().prop_map(Prog::GasRegsEqual),
            2 => common,
        ]
        .boxed()
    }
}

// =================================================================== reference formulas

type H = [u8; 32];

fn sha(parts: &[&[u8]]) -> H {
    let mut h = Sha256::new();
    for p in parts {
        h.update(p);
    }
    h.finalize().into()
}

/// C15: SHA-256("FUEL" ‖ MTH(16 KiB chunks, last one zero-padded to 8 bytes))
fn ref_predicate_owner(code: &[u8]) -> H {
    const CHUNK: usize = 16 * 1024;
    let mut leaves: Vec<Vec<u8>> = vec![];
    let mut at = 0;
    while at < code.len() {
        let end = (at + CHUNK).min(code.len());
        let mut c = code[at..end].to_vec();
        if c.len() < CHUNK {
            while c.len() % 8 != 0 {
                c.push(0);
            }
        }
        leaves.push(c);
        at = end;
    }
    sha(&[&[0x46, 0x55, 0x45, 0x4C], &rf::mth(&leaves)])
}

struct PredIn<'a> {
    index: usize,
    owner: &'a B32,
    gas: u64,
    code: &'a HexBytes,
}

fn pred_inputs(t: &TxSpec) -> Vec<PredIn<'_>> {
    t.inputs
        .iter()
        .enumerate()
        .filter_map(|(index, i)| match i {
            InSpec::CoinPredicate { owner, gas, predicate, .. } => Some(PredIn { index, owner, gas: *gas, code: predicate }),
            InSpec::MsgCoinPredicate { recipient, gas, predicate, .. } | InSpec::MsgDataPredicate { recipient, gas, predicate, .. } => Some(PredIn { index, owner: recipient, gas: *gas, code: predicate }),
            _ => None,
        })
        .collect()
}

fn signed_inputs(t: &TxSpec) -> Vec<(usize, B32, u16)> {
    t.inputs
        .iter()
        .enumerate()
        .filter_map(|(i, x)| match x {
            InSpec::CoinSigned { owner, wit, .. } => Some((i, *owner, *wit)),
            InSpec::MsgCoinSigned { recipient, wit, .. } | InSpec::MsgDataSigned { recipient, wit, .. } => Some((i, *recipient, *wit)),
            _ => None,
        })
        .collect()
}

/// reference verdict of signature checking: index of the first offending input
fn ref_signatures(t: &TxSpec, chain: u64) -> Result<(), usize> {
    let id = reference_id(&AnyTx::Charge(t.clone()), chain);
    let msg = Message::from_bytes(id);
    for (i, x) in t.inputs.iter().enumerate() {
        match x {
            InSpec::CoinSigned { owner, wit, .. } | InSpec::MsgCoinSigned { recipient: owner, wit, .. } | InSpec::MsgDataSigned { recipient: owner, wit, .. } => {
                let Some(w) = t.witnesses.get(*wit as usize) else { return Err(i) };
                let Ok(bytes) = <[u8; 64]>::try_from(&w.0[..]) else { return Err(i) };
                let Ok(pk) = Signature::from_bytes(bytes).recover(&msg) else { return Err(i) };
                if sha(&[pk.as_ref()]) != owner.0 {
                    return Err(i);
                }
            }
            InSpec::CoinPredicate { owner, predicate, .. } | InSpec::MsgCoinPredicate { recipient: owner, predicate, .. } | InSpec::MsgDataPredicate { recipient: owner, predicate, .. } => {
                if ref_predicate_owner(&predicate.0) != owner.0 {
                    return Err(i);
                }
            }
            InSpec::Contract { .. } => {}
        }
    }
    Ok(())
}

// =================================================================== single-field mutations (own list; c03's enumerator is private)

fn mix(salt: u64, n: u64) -> u64 {
    let mut z = salt ^ n.wrapping_mul(0x9E3779B97F4A7C15);
    z = (z ^ (z >> 30)).wrapping_mul(0xBF58476D1CE4E5B9);
    z = (z ^ (z >> 27)).wrapping_mul(0x94D049BB133111EB);
    z ^ (z >> 31)
}

fn flip32(b: &mut B32, r: u64) {
    let bit = (r >> 8) % 256;
    b.0[(bit / 8) as usize] ^= 1 << (bit % 8);
}
fn chg64(v: &mut u64, r: u64) {
    *v ^= 1 << ((r >> 8) % 64);
}
fn chg16(v: &mut u16, r: u64) {
    *v ^= 1 << ((r >> 8) % 16);
}
fn chg32(v: &mut u32, r: u64) {
    *v ^= 1 << ((r >> 8) % 32);
}
fn chg_bytes(b: &mut HexBytes, r: u64, min: usize) {
    if b.0.is_empty() || (r % 3 == 0) {
        b.0.push((r >> 16) as u8);
    } else if r % 3 == 1 && b.0.len() > min {
        b.0.pop();
    } else {
        let bit = (r >> 8) as usize % (b.0.len() * 8);
        b.0[bit / 8] ^= 1 << (bit % 8);
    }
}

/// every single-position mutation: (label, malleable, mutated spec)
fn mutations(base: &TxSpec, salt: u64) -> Vec<(String, bool, TxSpec)> {
    let mut out: Vec<(String, bool, TxSpec)> = vec![];
    let mut ctr = 0u64;
    let mut next = || {
        ctr += 1;
        mix(salt, ctr)
    };
    macro_rules! m {
        ($label:expr, $mal:expr, |$t:ident, $r:ident| $body:expr) => {{
            let mut $t = base.clone();
            let $r = next();
            $body;
            out.push(($label.to_string(), $mal, $t));
        }};
    }
    match &base.body {
        BodySpec::Script { .. } => {
            m!("script.gas_limit", false, |t, r| if let BodySpec::Script { gas_limit, .. } = &mut t.body { chg64(gas_limit, r) });
            m!("script.receipts_root", true, |t, r| if let BodySpec::Script { receipts_root, .. } = &mut t.body { flip32(receipts_root, r) });
            m!("script.script", false, |t, r| if let BodySpec::Script { script, .. } = &mut t.body { chg_bytes(script, r, 0) });
            m!("script.data", false, |t, r| if let BodySpec::Script { data, .. } = &mut t.body { chg_bytes(data, r, 0) });
        }
        BodySpec::Create { slots, .. } => {
            m!("create.wit", false, |t, r| if let BodySpec::Create { wit, .. } = &mut t.body { chg16(wit, r) });
            m!("create.salt", false, |t, r| if let BodySpec::Create { salt, .. } = &mut t.body { flip32(salt, r) });
            if !slots.is_empty() {
                m!("create.slot.value", false, |t, r| if let BodySpec::Create { slots, .. } = &mut t.body {
                    let k = r as usize % slots.len();
                    flip32(&mut slots[k].1, r >> 4)
                });
            }
        }
        BodySpec::Upgrade(PurposeSpec::Consensus { .. }) => {
            m!("upgrade.checksum", false, |t, r| if let BodySpec::Upgrade(PurposeSpec::Consensus { checksum, .. }) = &mut t.body { flip32(checksum, r) });
            m!("upgrade.wit", false, |t, r| if let BodySpec::Upgrade(PurposeSpec::Consensus { wit, .. }) = &mut t.body { chg16(wit, r) });
        }
        BodySpec::Upgrade(PurposeSpec::StateTransition { .. }) => {
            m!("upgrade.root", false, |t, r| if let BodySpec::Upgrade(PurposeSpec::StateTransition { root }) = &mut t.body { flip32(root, r) });
        }
        BodySpec::Upload { proof, .. } => {
            m!("upload.root", false, |t, r| if let BodySpec::Upload { root, .. } = &mut t.body { flip32(root, r) });
            m!("upload.sub_idx", false, |t, r| if let BodySpec::Upload { sub_idx, .. } = &mut t.body { chg16(sub_idx, r) });
            m!("upload.sub_n", false, |t, r| if let BodySpec::Upload { sub_n, .. } = &mut t.body { chg16(sub_n, r) });
            m!("upload.wit", false, |t, r| if let BodySpec::Upload { wit, .. } = &mut t.body { chg16(wit, r) });
            if !proof.is_empty() {
                m!("upload.proof", false, |t, r| if let BodySpec::Upload { proof, .. } = &mut t.body {
                    let k = r as usize % proof.len();
                    flip32(&mut proof[k], r >> 4)
                });
            }
        }
        BodySpec::Blob { .. } => {
            m!("blob.id", false, |t, r| if let BodySpec::Blob { id, .. } = &mut t.body { flip32(id, r) });
            m!("blob.wit", false, |t, r| if let BodySpec::Blob { wit, .. } = &mut t.body { chg16(wit, r) });
        }
    }
    const POL: [&str; 6] = ["pol.tip", "pol.witness_limit", "pol.maturity", "pol.max_fee", "pol.expiration", "pol.owner"];
    for i in 0..6usize {
        if base.pol.mask & (1 << i) != 0 {
            m!(POL[i], false, |t, r| if matches!(i, 2 | 4 | 5) { t.pol.vals[i] ^= 1 << ((r >> 8) % 32) } else { chg64(&mut t.pol.vals[i], r) });
        }
        m!(format!("{}.bit", POL[i]), false, |t, _r| t.pol.mask ^= 1 << i);
    }
    for (k, i) in base.inputs.iter().enumerate() {
        macro_rules! mi {
            ($label:expr, $mal:expr, $pat:pat => $body:expr) => {
                m!(format!("in.{}", $label), $mal, |t, r| {
                    let _ = r;
                    #[allow(irrefutable_let_patterns)]
                    if let $pat = &mut t.inputs[k] {
                        $body(r)
                    }
                })
            };
        }
        match i {
            InSpec::CoinSigned { .. } => {
                mi!("CoinSigned.utxo.tx_id", false, InSpec::CoinSigned { utxo, .. } => |r| flip32(&mut utxo.0, r));
                mi!("CoinSigned.utxo.index", false, InSpec::CoinSigned { utxo, .. } => |r| chg16(&mut utxo.1, r));
                mi!("CoinSigned.owner", false, InSpec::CoinSigned { owner, .. } => |r| flip32(owner, r));
                mi!("CoinSigned.amount", false, InSpec::CoinSigned { amount, .. } => |r| chg64(amount, r));
                mi!("CoinSigned.asset", false, InSpec::CoinSigned { asset, .. } => |r| flip32(asset, r));
                mi!("CoinSigned.txp.height", true, InSpec::CoinSigned { txp, .. } => |r| chg32(&mut txp.0, r));
                mi!("CoinSigned.txp.index", true, InSpec::CoinSigned { txp, .. } => |r| chg16(&mut txp.1, r));
                mi!("CoinSigned.wit", false, InSpec::CoinSigned { wit, .. } => |r| chg16(wit, r));
            }
            InSpec::CoinPredicate { .. } => {
                mi!("CoinPredicate.utxo.tx_id", false, InSpec::CoinPredicate { utxo, .. } => |r| flip32(&mut utxo.0, r));
                mi!("CoinPredicate.owner", false, InSpec::CoinPredicate { owner, .. } => |r| flip32(owner, r));
                mi!("CoinPredicate.amount", false, InSpec::CoinPredicate { amount, .. } => |r| chg64(amount, r));
                mi!("CoinPredicate.asset", false, InSpec::CoinPredicate { asset, .. } => |r| flip32(asset, r));
                mi!("CoinPredicate.txp.height", true, InSpec::CoinPredicate { txp, .. } => |r| chg32(&mut txp.0, r));
                mi!("CoinPredicate.gas", true, InSpec::CoinPredicate { gas, .. } => |r| chg64(gas, r));
                mi!("CoinPredicate.predicate", false, InSpec::CoinPredicate { predicate, .. } => |r| chg_bytes(predicate, r, 1));
                mi!("CoinPredicate.pdata", false, InSpec::CoinPredicate { pdata, .. } => |r| chg_bytes(pdata, r, 0));
            }
            InSpec::Contract { .. } => {
                mi!("Contract.utxo.tx_id", true, InSpec::Contract { utxo, .. } => |r| flip32(&mut utxo.0, r));
                mi!("Contract.utxo.index", true, InSpec::Contract { utxo, .. } => |r| chg16(&mut utxo.1, r));
                mi!("Contract.balance_root", true, InSpec::Contract { balance_root, .. } => |r| flip32(balance_root, r));
                mi!("Contract.state_root", true, InSpec::Contract { state_root, .. } => |r| flip32(state_root, r));
                mi!("Contract.txp.height", true, InSpec::Contract { txp, .. } => |r| chg32(&mut txp.0, r));
                mi!("Contract.contract", false, InSpec::Contract { contract, .. } => |r| flip32(contract, r));
            }
            InSpec::MsgCoinSigned { .. } => {
                mi!("MsgCoinSigned.sender", false, InSpec::MsgCoinSigned { sender, .. } => |r| flip32(sender, r));
                mi!("MsgCoinSigned.recipient", false, InSpec::MsgCoinSigned { recipient, .. } => |r| flip32(recipient, r));
                mi!("MsgCoinSigned.amount", false, InSpec::MsgCoinSigned { amount, .. } => |r| chg64(amount, r));
                mi!("MsgCoinSigned.nonce", false, InSpec::MsgCoinSigned { nonce, .. } => |r| flip32(nonce, r));
                mi!("MsgCoinSigned.wit", false, InSpec::MsgCoinSigned { wit, .. } => |r| chg16(wit, r));
            }
            InSpec::MsgCoinPredicate { .. } => {
                mi!("MsgCoinPredicate.sender", false, InSpec::MsgCoinPredicate { sender, .. } => |r| flip32(sender, r));
                mi!("MsgCoinPredicate.recipient", false, InSpec::MsgCoinPredicate { recipient, .. } => |r| flip32(recipient, r));
                mi!("MsgCoinPredicate.amount", false, InSpec::MsgCoinPredicate { amount, .. } => |r| chg64(amount, r));
                mi!("MsgCoinPredicate.nonce", false, InSpec::MsgCoinPredicate { nonce, .. } => |r| flip32(nonce, r));
                mi!("MsgCoinPredicate.gas", true, InSpec::MsgCoinPredicate { gas, .. } => |r| chg64(gas, r));
                mi!("MsgCoinPredicate.predicate", false, InSpec::MsgCoinPredicate { predicate, .. } => |r| chg_bytes(predicate, r, 1));
                mi!("MsgCoinPredicate.pdata", false, InSpec::MsgCoinPredicate { pdata, .. } => |r| chg_bytes(pdata, r, 0));
            }
            InSpec::MsgDataSigned { .. } => {
                mi!("MsgDataSigned.sender", false, InSpec::MsgDataSigned { sender, .. } => |r| flip32(sender, r));
                mi!("MsgDataSigned.recipient", false, InSpec::MsgDataSigned { recipient, .. } => |r| flip32(recipient, r));
                mi!("MsgDataSigned.amount", false, InSpec::MsgDataSigned { amount, .. } => |r| chg64(amount, r));
                mi!("MsgDataSigned.nonce", false, InSpec::MsgDataSigned { nonce, .. } => |r| flip32(nonce, r));
                mi!("MsgDataSigned.wit", false, InSpec::MsgDataSigned { wit, .. } => |r| chg16(wit, r));
                mi!("MsgDataSigned.data", false, InSpec::MsgDataSigned { data, .. } => |r| chg_bytes(data, r, 1));
            }
            InSpec::MsgDataPredicate { .. } => {
                mi!("MsgDataPredicate.recipient", false, InSpec::MsgDataPredicate { recipient, .. } => |r| flip32(recipient, r));
                mi!("MsgDataPredicate.amount", false, InSpec::MsgDataPredicate { amount, .. } => |r| chg64(amount, r));
                mi!("MsgDataPredicate.nonce", false, InSpec::MsgDataPredicate { nonce, .. } => |r| flip32(nonce, r));
                mi!("MsgDataPredicate.gas", true, InSpec::MsgDataPredicate { gas, .. } => |r| chg64(gas, r));
                mi!("MsgDataPredicate.data", false, InSpec::MsgDataPredicate { data, .. } => |r| chg_bytes(data, r, 1));
                mi!("MsgDataPredicate.predicate", false, InSpec::MsgDataPredicate { predicate, .. } => |r| chg_bytes(predicate, r, 1));
                mi!("MsgDataPredicate.pdata", false, InSpec::MsgDataPredicate { pdata, .. } => |r| chg_bytes(pdata, r, 0));
            }
        }
    }
    for (k, o) in base.outputs.iter().enumerate() {
        macro_rules! mo {
            ($label:expr, $mal:expr, $pat:pat => $body:expr) => {
                m!(format!("out.{}", $label), $mal, |t, r| {
                    if let $pat = &mut t.outputs[k] {
                        $body(r)
                    }
                })
            };
        }
        match o {
            OutSpec::Coin { .. } => {
                mo!("Coin.to", false, OutSpec::Coin { to, .. } => |r| flip32(to, r));
                mo!("Coin.amount", false, OutSpec::Coin { amount, .. } => |r| chg64(amount, r));
                mo!("Coin.asset", false, OutSpec::Coin { asset, .. } => |r| flip32(asset, r));
            }
            OutSpec::Contract { .. } => {
                mo!("Contract.input_index", false, OutSpec::Contract { input_index, .. } => |r| chg16(input_index, r));
                mo!("Contract.balance_root", true, OutSpec::Contract { balance_root, .. } => |r| flip32(balance_root, r));
                mo!("Contract.state_root", true, OutSpec::Contract { state_root, .. } => |r| flip32(state_root, r));
            }
            OutSpec::Change { .. } => {
                mo!("Change.to", false, OutSpec::Change { to, .. } => |r| flip32(to, r));
                mo!("Change.amount", true, OutSpec::Change { amount, .. } => |r| chg64(amount, r));
                mo!("Change.asset", false, OutSpec::Change { asset, .. } => |r| flip32(asset, r));
            }
            OutSpec::Variable { .. } => {
                mo!("Variable.to", true, OutSpec::Variable { to, .. } => |r| flip32(to, r));
                mo!("Variable.amount", true, OutSpec::Variable { amount, .. } => |r| chg64(amount, r));
                mo!("Variable.asset", true, OutSpec::Variable { asset, .. } => |r| flip32(asset, r));
            }
            OutSpec::ContractCreated { .. } => {
                mo!("ContractCreated.contract", false, OutSpec::ContractCreated { contract, .. } => |r| flip32(contract, r));
                mo!("ContractCreated.state_root", false, OutSpec::ContractCreated { state_root, .. } => |r| flip32(state_root, r));
            }
        }
    }
    // vector lengths
    m!("inputs.push", false, |t, r| t.inputs.push(InSpec::Contract { utxo: UtxoSpec(B32([0; 32]), 0), balance_root: B32([0; 32]), state_root: B32([0; 32]), txp: TxpSpec(0, 0), contract: B32([(r >> 8) as u8; 32]) }));
    m!("outputs.push", false, |t, _r| t.outputs.push(OutSpec::Variable { to: B32([0; 32]), amount: 0, asset: B32([0; 32]) }));
    if !base.outputs.is_empty() {
        m!("outputs.pop", false, |t, _r| {
            t.outputs.pop();
        });
    }
    if base.inputs.len() > 1 && !matches!(base.inputs.last(), Some(InSpec::CoinSigned { .. } | InSpec::MsgCoinSigned { .. } | InSpec::MsgDataSigned { .. })) {
        // (removing the only signed input would leave nothing to reject)
        m!("inputs.pop", false, |t, _r| {
            t.inputs.pop();
        });
    }
    out
}

// =================================================================== harness executor, pool

thread_local! {
    /// (execution-order selectors, result-order selectors, tasks seen)
    static SCHED: RefCell<(Vec<u16>, Vec<u16>, usize)> = const { RefCell::new((vec![], vec![], 0)) };
}

fn permutation(sel: &[u16], n: usize) -> Vec<usize> {
    let mut p: Vec<usize> = (0..n).collect();
    for i in 0..n {
        let s = sel.get(i).copied().unwrap_or(0);
        let j = i + pick(s, n - i);
        p.swap(i, j);
    }
    p
}

type TaskOut = (usize, Result<Word, PredicateVerificationFailed>);

pub struct LazyTask(Option<Box<dyn FnOnce() -> TaskOut + Send + 'static>>);

impl Future for LazyTask {
    type Output = TaskOut;
    fn poll(mut self: Pin<&mut Self>, _cx: &mut TaskCx<'_>) -> Poll<TaskOut> {
        let f = self.0.take().expect("task polled once");
        Poll::Ready(f())
    }
}

pub struct HarnessExecutor;

impl ParallelExecutor for HarnessExecutor {
    type Task = LazyTask;

    fn create_task<F>(func: F) -> LazyTask
    where
        F: FnOnce() -> TaskOut + Send + 'static,
    {
        LazyTask(Some(Box::new(func)))
    }

    // hand-desugared `#[async_trait] async fn execute_tasks(futures: Vec<Self::Task>) -> Vec<TaskOut>`
    fn execute_tasks<'a>(futures: Vec<LazyTask>) -> Pin<Box<dyn Future<Output = Vec<TaskOut>> + Send + 'a>> {
        Box::pin(async move {
            let n = futures.len();
            let (run, ret) = SCHED.with(|s| {
                let mut s = s.borrow_mut();
                s.2 = n;
                (permutation(&s.0, n), permutation(&s.1, n))
            });
            let mut slots: Vec<Option<LazyTask>> = futures.into_iter().map(Some).collect();
            let mut results: Vec<Option<TaskOut>> = (0..n).map(|_| None).collect();
            for k in run {
                let t = slots[k].take().expect("each task once");
                results[k] = Some(t.await);
            }
            ret.into_iter().map(|k| results[k].take().expect("each result once")).collect()
        })
    }
}

fn dirty_memory(seed: u64) -> MemoryInstance {
    let r = mix(seed, 1);
    let stack_len = match r % 4 {
        0 => 0usize,
        1 => 64 + (r >> 8) as usize % 4096,
        _ => 4096 + (r >> 8) as usize % 60_000,
    };
    let stack: Vec<u8> = (0..stack_len).map(|i| (mix(seed, 2) as u8).wrapping_add((i as u8).wrapping_mul(13)) | 1).collect();
    let mut m = MemoryInstance::from(stack);
    let heap = (mix(seed, 3) % 3) * (1 + mix(seed, 4) % 5000);
    if heap > 0 {
        let sp = stack_len as u64;
        let mut hp = fuel_vm::consts::VM_MAX_RAM;
        if m.grow_heap_by(Reg::<SP>::new(&sp), RegMut::<HP>::new(&mut hp), heap).is_ok() {
            if let Ok(s) = m.write_noownerchecks(hp, heap as usize) {
                for (i, b) in s.iter_mut().enumerate() {
                    *b = 0xa5 ^ (i as u8);
                }
            }
        }
    }
    m
}

pub struct DirtyPool {
    seed: u64,
    handed: AtomicU64,
}

impl VmMemoryPool for DirtyPool {
    type Memory = MemoryInstance;
    fn get_new(&self) -> impl Future<Output = MemoryInstance> + Send {
        let k = self.handed.fetch_add(1, Ordering::SeqCst);
        std::future::ready(dirty_memory(mix(self.seed, 100 + k)))
    }
}

// =================================================================== running one predicate alone

#[derive(Debug, Clone, PartialEq, Eq)]
enum Alone {
    /// `ret v` with this much gas left
    Return(u64, u64),
    /// anything else, with the gas left
    Failed(String, u64),
}

fn run_alone<Tx: ExecutableTransaction>(tx: &Tx, index: usize, gas: u64, cp: &CheckPredicateParams) -> Result<Alone, Failure> {
    let mut vm = Interpreter::<MemoryInstance, PredicateStorage<EmptyStorage>, Tx>::with_storage(MemoryInstance::new(), PredicateStorage::new(EmptyStorage), InterpreterParams::new(0, cp.clone()));
    let Some(program) = RuntimePredicate::from_tx(tx, cp.tx_offset, index) else {
        fail!("harness-runtime-predicate", "no predicate at input {index}");
    };
    if let Err(e) = vm.init_predicate(Context::PredicateVerification { program }, tx.clone(), gas) {
        return Ok(Alone::Failed(format!("init: {e:?}"), gas));
    }
    let mut steps: u64 = 0;
    loop {
        steps += 1;
        if steps > gas.saturating_add(64) && steps > 2_000_000 {
            fail!("harness-runaway-predicate", "predicate {index} still running after {steps} instructions with {gas} gas");
        }
        match vm.execute::<true>() {
            Ok(ExecuteState::Proceed) => continue,
            Ok(ExecuteState::Return(v)) => return Ok(Alone::Return(v, vm.remaining_gas())),
            Ok(other) => return Ok(Alone::Failed(format!("{other:?}"), vm.remaining_gas())),
            Err(InterpreterError::PanicInstruction(p)) => return Ok(Alone::Failed(format!("panic {:?}", p.reason()), vm.remaining_gas())),
            Err(InterpreterError::Panic(p)) => return Ok(Alone::Failed(format!("panic {p:?}"), vm.remaining_gas())),
            Err(e) => return Ok(Alone::Failed(format!("error {}", format!("{e:?}").chars().take(60).collect::<String>()), vm.remaining_gas())),
        }
    }
}

// =================================================================== the case

#[derive(Debug, Clone, PartialEq, Eq, Serialize, Deserialize)]
pub enum SigEdit {
    None,
    /// signed input `input` points at witness `wit`
    Repoint { input: u16, wit: u16 },
    /// a later signed input with the owner of an earlier one points at another witness
    RepointSameOwner { wit: u16 },
    FlipWitnessBit { wit: u16, bit: u16 },
    ResizeWitness { wit: u16, longer: bool },
    SwapWitnesses { a: u16, b: u16 },
    FlipOwnerBit { input: u16, bit: u8 },
}

#[derive(Debug, Clone, Serialize, Deserialize)]
pub struct Case {
    pub vc: ValidCase,
    /// programs for the predicate inputs, in input order (cycled)
    pub progs: Vec<Prog>,
    /// convert this share of the signed user inputs into predicate inputs (selector per input)
    pub to_predicate: Vec<bool>,
    pub sig_edit: SigEdit,
    pub run_order: Vec<u16>,
    pub ret_order: Vec<u16>,
    pub dirty: u64,
    pub salt: u64,
}

fn prepare(c: &Case) -> ValidCase {
    let mut vc = c.vc.clone();
    // bounded, non-free gas so that every generated program terminates
    if vc.params.gas == GasSched::Free {
        vc.params.gas = GasSched::Unit;
    }
    vc.params.max_gas_per_predicate = vc.params.max_gas_per_predicate.min(120_000);
    let mut k = 0usize;
    let salt_bytes = c.salt.to_le_bytes();
    for (n, i) in vc.tx.inputs.iter_mut().enumerate() {
        let is_coin = matches!(i, VIn::Coin { .. });
        let auth = match i {
            VIn::Coin { auth, .. } | VIn::MsgCoin { auth, .. } | VIn::MsgData { auth, .. } => auth,
            VIn::Contract { .. } => continue,
        };
        if matches!(auth, Auth::Signed { .. }) && c.to_predicate.get(n).copied().unwrap_or(false) {
            *auth = Auth::Predicate { code: HexBytes(vec![]), data: HexBytes(vec![]), gas: mix(c.salt, n as u64) % 300 };
        }
        if let Auth::Predicate { code, data, gas } = auth {
            // the declared gas is what verification hands to the predicate (no per-predicate cap
            // applies there): keep loops short
            if *gas > 150_000 {
                *gas %= 150_000;
            }
            if !c.progs.is_empty() {
                let p = &c.progs[k % c.progs.len()];
                k += 1;
                *code = HexBytes(compile(p, is_coin));
                *data = HexBytes(prog_data(p, &salt_bytes[..(c.salt % 9) as usize]));
            }
        }
    }
    vc
}

fn apply_sig_edit(t: &mut TxSpec, e: &SigEdit) -> &'static str {
    let signed = signed_inputs(t);
    let nw = t.witnesses.len();
    fn wit_mut(i: &mut InSpec) -> Option<&mut u16> {
        match i {
            InSpec::CoinSigned { wit, .. } | InSpec::MsgCoinSigned { wit, .. } | InSpec::MsgDataSigned { wit, .. } => Some(wit),
            _ => None,
        }
    }
    match e {
        SigEdit::None => "sig-edit:none",
        SigEdit::Repoint { input, wit } => {
            if signed.is_empty() || nw == 0 {
                return "sig-edit:not-applicable";
            }
            let (i, _, _) = signed[pick(*input, signed.len())];
            *wit_mut(&mut t.inputs[i]).unwrap() = pick(*wit, nw) as u16;
            "sig-edit:repoint"
        }
        SigEdit::RepointSameOwner { wit } => {
            let later = signed.iter().enumerate().find(|(k, (_, o, _))| signed[..*k].iter().any(|(_, o2, _)| o2 == o));
            let Some((_, (i, _, w0))) = later else { return "sig-edit:not-applicable" };
            if nw < 2 {
                return "sig-edit:not-applicable";
            }
            // a witness other than the one it uses now
            let mut w = pick(*wit, nw - 1) as u16;
            if w >= *w0 {
                w += 1;
            }
            *wit_mut(&mut t.inputs[*i]).unwrap() = w;
            "sig-edit:repoint-same-owner"
        }
        SigEdit::FlipWitnessBit { wit, bit } => {
            if nw == 0 {
                return "sig-edit:not-applicable";
            }
            let w = &mut t.witnesses[pick(*wit, nw)].0;
            if w.is_empty() {
                return "sig-edit:not-applicable";
            }
            let b = *bit as usize % (w.len() * 8);
            w[b / 8] ^= 1 << (b % 8);
            "sig-edit:flip-witness-bit"
        }
        SigEdit::ResizeWitness { wit, longer } => {
            if nw == 0 {
                return "sig-edit:not-applicable";
            }
            let w = &mut t.witnesses[pick(*wit, nw)].0;
            if *longer {
                w.push(0);
            } else if w.pop().is_none() {
                return "sig-edit:not-applicable";
            }
            "sig-edit:resize-witness"
        }
        SigEdit::SwapWitnesses { a, b } => {
            if nw < 2 {
                return "sig-edit:not-applicable";
            }
            t.witnesses.swap(pick(*a, nw), pick(*b, nw));
            "sig-edit:swap-witnesses"
        }
        SigEdit::FlipOwnerBit { input, bit } => {
            let owned: Vec<usize> = t.inputs.iter().enumerate().filter(|(_, i)| !matches!(i, InSpec::Contract { .. })).map(|(i, _)| i).collect();
            if owned.is_empty() {
                return "sig-edit:not-applicable";
            }
            let i = owned[pick(*input, owned.len())];
            match &mut t.inputs[i] {
                InSpec::CoinSigned { owner, .. }
                | InSpec::CoinPredicate { owner, .. }
                | InSpec::MsgCoinSigned { recipient: owner, .. }
                | InSpec::MsgCoinPredicate { recipient: owner, .. }
                | InSpec::MsgDataSigned { recipient: owner, .. }
                | InSpec::MsgDataPredicate { recipient: owner, .. } => owner.0[(*bit / 8) as usize] ^= 1 << (*bit % 8),
                InSpec::Contract { .. } => {}
            }
            "sig-edit:flip-owner-bit"
        }
    }
}

// ------------------------------------------------------------------ (a) signatures

fn check_sigs(c: &Case, obs: &mut Obs) -> Check {
    let vc = prepare(c);
    let r = vc.realize();
    let AnyTx::Charge(base) = &r.spec else { fail!("harness-mint", "no Mint in C20") };
    let chain: u64 = r.params.chain_id().into();
    let chain_id = r.params.chain_id();
    obs.class(&format!("kind:{}", base.body.kind()));

    let mut edited = base.clone();
    let label = apply_sig_edit(&mut edited, &c.sig_edit);
    obs.class(label);
    let lib = AnyTx::Charge(edited.clone()).build().check_signatures(&chain_id);
    let want = ref_signatures(&edited, chain);
    let signed = signed_inputs(&edited);
    let shared = signed.iter().enumerate().any(|(k, (_, _, w))| signed[..k].iter().any(|(_, _, w2)| w2 == w));
    if shared {
        obs.class("shared-witness");
    }
    if edited.witnesses.len() > signed.iter().map(|s| s.2).collect::<std::collections::BTreeSet<_>>().len() {
        obs.class("has-unreferenced-witness");
    }
    match (&lib, &want) {
        (Ok(()), Ok(())) => obs.class("signatures:accepted"),
        (Err(_), Err(_)) => obs.class("signatures:rejected"),
        (Ok(()), Err(i)) => fail!(
            format!("signatures:accepts-unauthorized:{}", match &edited.inputs[*i] { x if is_pred(x) => "predicate-owner", _ => "signed-input" }),
            "check_signatures accepted although input {i} is not authorized ({label})"
        ),
        (Err(e), Ok(())) => fail!("signatures:rejects-authorized", "check_signatures failed with {e:?} although every input is authorized ({label})"),
    }
    if matches!(c.sig_edit, SigEdit::None) {
        ensure!(lib.is_ok(), "harness-validtx-signature", "valid-TX does not pass check_signatures: {lib:?}");
    }
    if lib.is_err() {
        if !signed.is_empty() && !pred_inputs(&edited).is_empty() {
            obs.nontrivial(&(layout_sig(&edited), label));
        }
        return Ok(());
    }

    // ---- accepted: single-field mutations
    if signed.is_empty() {
        obs.class("mutations:skipped-no-signed-input");
        return Ok(());
    }
    let all = mutations(&edited, c.salt);
    let n = all.len();
    let take = 14usize.min(n);
    let mut picked: Vec<usize> = vec![];
    // a salted stride through the list; always at least two malleable ones when there are any
    let start = mix(c.salt, 7) as usize % n;
    let stride = 1 + mix(c.salt, 8) as usize % n.max(1);
    let mut k = start;
    for _ in 0..n {
        if picked.len() >= take {
            break;
        }
        if !picked.contains(&k) {
            picked.push(k);
        }
        k = (k + stride) % n;
    }
    let mal: Vec<usize> = (0..n).filter(|i| all[*i].1).collect();
    for j in 0..2usize.min(mal.len()) {
        let i = mal[(mix(c.salt, 9 + j as u64) as usize) % mal.len()];
        if !picked.contains(&i) {
            picked.push(i);
        }
    }
    let (mut n_mal, mut n_non) = (0u64, 0u64);
    for i in picked {
        let (label, malleable, spec) = &all[i];
        if spec == &edited {
            fail!("harness-noop-mutation", "mutation {label} left the spec unchanged");
        }
        let res = AnyTx::Charge(spec.clone()).build().check_signatures(&chain_id);
        let gen_label: String = label.split('[').next().unwrap_or(label).to_string();
        if *malleable {
            n_mal += 1;
            ensure!(res.is_ok(), format!("signatures:malleable-change-rejected:{gen_label}"), "changing malleable {label} made check_signatures fail: {res:?}");
        } else {
            n_non += 1;
            ensure!(res.is_err(), format!("signatures:signed-content-change-accepted:{gen_label}"), "changing {label} of an accepted transaction still passes check_signatures");
        }
        obs.note(&format!("mutated:{gen_label}"), 1);
    }
    obs.note("mutations:malleable", n_mal);
    obs.note("mutations:non-malleable", n_non);
    if !pred_inputs(&edited).is_empty() {
        obs.class("signed+predicate");
        obs.nontrivial(&(layout_sig(&edited), label));
    }
    Ok(())
}

fn is_pred(i: &InSpec) -> bool {
    matches!(i, InSpec::CoinPredicate { .. } | InSpec::MsgCoinPredicate { .. } | InSpec::MsgDataPredicate { .. })
}

// ------------------------------------------------------------------ (b) (c) (d) predicates

fn err_name(e: &PredicateVerificationFailed) -> String {
    let s = format!("{e:?}");
    s.split(|c: char| !c.is_alphanumeric()).next().unwrap_or("").to_string()
}

fn set_gas(t: &mut TxSpec, index: usize, g: u64) {
    match &mut t.inputs[index] {
        InSpec::CoinPredicate { gas, .. } | InSpec::MsgCoinPredicate { gas, .. } | InSpec::MsgDataPredicate { gas, .. } => *gas = g,
        _ => {}
    }
}

struct Env<'a> {
    c: &'a Case,
    params: &'a ConsensusParameters,
    cp: CheckPredicateParams,
    height: u32,
    observing: bool,
}

type Verdict = Result<u64, String>;

/// (the library's `PredicatesChecked` cannot be named from outside)
macro_rules! verdict {
    ($r:expr) => {{
        let v: Verdict = ($r).map(|p| p.gas_used()).map_err(|e| err_name(&e));
        v
    }};
}

fn with_sched<R>(c: &Case, f: impl FnOnce() -> R) -> (R, usize) {
    SCHED.with(|s| *s.borrow_mut() = (c.run_order.clone(), c.ret_order.clone(), 0));
    let r = f();
    let n = SCHED.with(|s| s.borrow().2);
    (r, n)
}

/// reference verdict of predicate verification for `spec` (owners by formula, every predicate alone)
fn ref_verify<Tx: ExecutableTransaction>(tx: &Tx, spec: &TxSpec, env: &Env) -> Result<Result<u64, String>, Failure> {
    let mut total: u64 = 0;
    for p in pred_inputs(spec) {
        if ref_predicate_owner(&p.code.0) != p.owner.0 {
            return Ok(Err(format!("owner of input {}", p.index)));
        }
        match run_alone(tx, p.index, p.gas, &env.cp)? {
            Alone::Return(1, 0) => {}
            other => return Ok(Err(format!("input {}: {other:?}", p.index))),
        }
        total = match total.checked_add(p.gas) {
            Some(t) => t,
            None => return Ok(Err("gas sum overflow".into())),
        };
    }
    Ok(Ok(total))
}

fn checked_of<Tx>(tx: &Tx, env: &Env) -> Option<Checked<Tx>>
where
    Tx: ExecutableTransaction + IntoChecked,
{
    tx.clone().into_checked_basic(env.height.into(), env.params).ok()
}

/// verification of one transaction: library sequential (clean and dirty memory), library
/// parallel (harness executor + dirty pool), reference
fn verify_all<Tx>(tx: &Tx, spec: &TxSpec, env: &Env, what: &str, obs: &mut Obs) -> Result<Option<Verdict>, Failure>
where
    Tx: ExecutableTransaction + IntoChecked + Send + Sync + 'static,
    <Tx as IntoChecked>::Metadata: CheckedMetadata + Send + Sync,
{
    let Some(checked) = checked_of(tx, env) else {
        obs.class(&format!("{what}:not-checkable"));
        return Ok(None);
    };
    let seq = verdict!(predicates::check_predicates(&checked, &env.cp, MemoryInstance::new(), &EmptyStorage, NotSupportedEcal));
    let seq_dirty = verdict!(predicates::check_predicates(&checked, &env.cp, dirty_memory(env.c.dirty), &EmptyStorage, NotSupportedEcal));
    ensure!(seq.is_ok() == seq_dirty.is_ok() && (seq.is_err() || seq == seq_dirty), format!("pool:dirty-memory-changes-verdict:{what}"), "check_predicates: clean memory {seq:?}, dirty memory {seq_dirty:?}");
    let pool = DirtyPool { seed: env.c.dirty, handed: AtomicU64::new(0) };
    let (par, ntasks) = with_sched(env.c, || futures::executor::block_on(predicates::check_predicates_async::<Tx, NotSupportedEcal, HarnessExecutor>(&checked, &env.cp, &pool, &EmptyStorage, NotSupportedEcal)));
    let par = verdict!(par);
    ensure_eq!(ntasks, pred_inputs(spec).len(), "async:task-count", "number of tasks handed to the executor");
    match (&seq, &par) {
        (Ok(a), Ok(b)) => ensure_eq!(a, b, format!("async:total-gas-differs:{what}"), "sequential vs parallel total gas"),
        (Err(_), Err(_)) => {}
        (Ok(_), Err(e)) => fail!(format!("async:rejects-what-sequential-accepts:{what}:{e}"), "sequential check_predicates accepted, parallel failed with {e}"),
        (Err(e), Ok(_)) => fail!(format!("async:accepts-what-sequential-rejects:{what}:{e}"), "sequential check_predicates failed with {e}, parallel accepted"),
    }
    // reference
    let want = ref_verify(tx, spec, env)?;
    let over_limit = {
        // the max_gas ≤ max_gas_per_tx rule is part of into_checked_basic already
        false
    };
    match (&seq, &want) {
        (Ok(g), Ok(w)) => ensure_eq!(g, w, format!("verify:total-gas:{what}"), "total gas of accepted predicates vs Σ predicate_gas_used"),
        (Err(_), Err(_)) => {}
        (Ok(_), Err(why)) => {
            let k = if why.starts_with("owner") { "owner" } else if why.contains("Return(1,") { "gas-not-exact" } else if why.contains("Return(") { "returned-non-one" } else { "did-not-succeed" };
            fail!(format!("verify:accepts-unauthorized:{k}"), "check_predicates accepted but the reference says: {why} ({what})")
        }
        (Err(e), Ok(_)) if !over_limit => fail!(format!("verify:rejects-authorized:{e}"), "check_predicates failed with {e} although every predicate alone returns 1 with exactly its declared gas ({what})"),
        _ => {}
    }
    obs.class(&format!("{what}:{}", if seq.is_ok() { "accepted" } else { "rejected" }));
    if let Err(e) = &seq {
        obs.note(&format!("{what}:error:{e}"), 1);
    }
    Ok(Some(seq))
}

/// `into_checked` (basic + signatures + predicates in one call) agrees with its parts
fn full_check<Tx>(tx: &Tx, preds: Option<&Verdict>, env: &Env, what: &str, obs: &mut Obs) -> Check
where
    Tx: ExecutableTransaction + IntoChecked + Send + Sync + 'static,
    <Tx as IntoChecked>::Metadata: CheckedMetadata + Send + Sync,
    Checked<Tx>: CheckPredicates,
{
    let Some(preds) = preds else { return Ok(()) };
    let sig_ok = tx.check_signatures(&env.params.chain_id()).is_ok();
    let full = tx.clone().into_checked(env.height.into(), env.params);
    let want = sig_ok && preds.is_ok();
    match (&full, want) {
        (Ok(_), true) => obs.class(&format!("into_checked:{what}:accepted")),
        (Err(_), false) => obs.class(&format!("into_checked:{what}:rejected")),
        (Ok(_), false) => fail!(format!("into-checked:accepts-what-its-parts-reject:{what}"), "into_checked accepted; check_signatures ok = {sig_ok}, check_predicates = {preds:?}"),
        (Err(e), true) => fail!(format!("into-checked:rejects-what-its-parts-accept:{what}"), "into_checked failed with {e:?} although signatures and predicates pass separately"),
    }
    Ok(())
}

fn run_preds<Tx>(tx: Tx, spec: &TxSpec, env: &Env, obs: &mut Obs) -> Check
where
    Tx: ExecutableTransaction + IntoChecked + FromTransaction + Send + Sync + 'static,
    <Tx as IntoChecked>::Metadata: CheckedMetadata + Send + Sync,
    Checked<Tx>: CheckPredicates,
{
    let preds = pred_inputs(spec);
    let np = preds.len();
    obs.class(&format!("predicates:{}", np.min(4)));
    let signed = signed_inputs(spec).len();
    let run_perm = permutation(&env.c.run_order, np);
    let identity = run_perm.iter().enumerate().all(|(i, k)| i == *k) && permutation(&env.c.ret_order, np).iter().enumerate().all(|(i, k)| i == *k);
    if np >= 2 && !identity {
        obs.class("non-identity-schedule");
    }
    let rebuild = |s: &TxSpec| -> Result<Tx, Failure> {
        match Tx::try_from_transaction(AnyTx::Charge(s.clone()).build()) {
            Some(t) => Ok(t),
            None => Err(Failure::new("harness-rebuild", "rebuilt transaction has another kind")),
        }
    };

    // ---- the transaction as declared (arbitrary predicate_gas_used)
    let declared = verify_all(&tx, spec, env, "declared", obs)?;
    full_check(&tx, declared.as_ref(), env, "declared", obs)?;

    // ---- (c) estimation, sequential / dirty / parallel
    let mut est = tx.clone();
    let e_seq = verdict!(predicates::estimate_predicates(&mut est, &env.cp, MemoryInstance::new(), &EmptyStorage, NotSupportedEcal));
    let mut est_dirty = tx.clone();
    let e_dirty = verdict!(predicates::estimate_predicates(&mut est_dirty, &env.cp, dirty_memory(env.c.dirty ^ 1), &EmptyStorage, NotSupportedEcal));
    ensure!(e_seq == e_dirty || (e_seq.is_err() && e_dirty.is_err()), "pool:dirty-memory-changes-estimate", "estimate_predicates: clean memory {e_seq:?}, dirty memory {e_dirty:?}");
    let est_gas = |t: &Tx| -> Vec<u64> { preds.iter().map(|p| t.inputs()[p.index].predicate_gas_used().unwrap_or(u64::MAX)).collect() };
    if e_seq.is_ok() {
        ensure_eq!(est_gas(&est), est_gas(&est_dirty), "pool:dirty-memory-changes-estimate", "per-input estimates, clean vs dirty memory");
    }

    // parallel estimation
    let mut est_par = tx.clone();
    let pool = DirtyPool { seed: env.c.dirty ^ 2, handed: AtomicU64::new(0) };
    let (e_par, _) = with_sched(env.c, || futures::executor::block_on(predicates::estimate_predicates_async::<Tx, NotSupportedEcal, HarnessExecutor>(&mut est_par, &env.cp, &pool, &EmptyStorage, NotSupportedEcal)));
    let e_par = verdict!(e_par);
    // precondition of the comparison: the sequential run is never limited by the remaining
    // gas of the transaction (it hands `min(remaining, max_gas_per_predicate)` to each predicate,
    // the parallel run `min(max_gas_per_tx, max_gas_per_predicate)`)
    let per_pred = env.cp.max_gas_per_predicate.min(env.cp.max_gas_per_tx);
    let mut remaining = env.cp.max_gas_per_tx.saturating_sub(crate::gens::validtx::max_gas_of(&tx.clone().into(), env.params));
    let mut unlimited = true;
    // every predicate evaluates to true when run alone with the gas the sequential estimation
    // hands to it (estimation deliberately ignores the predicates' verdicts, CHANGELOG #917)
    let mut all_true = true;
    let mut ref_est: Vec<u64> = vec![];
    for p in &preds {
        let avail = remaining.min(env.cp.max_gas_per_predicate);
        if avail != per_pred {
            unlimited = false;
        }
        let (is_true, left) = match run_alone(&tx, p.index, avail, &env.cp)? {
            Alone::Return(v, left) => (v == 1, left),
            Alone::Failed(_, left) => (false, left),
        };
        all_true &= is_true;
        let used = avail - left.min(avail);
        ref_est.push(used);
        remaining = remaining.saturating_sub(used);
    }
    if unlimited {
        obs.class("estimate:schedules-comparable");
        match (&e_seq, &e_par) {
            (Ok(a), Ok(b)) => {
                ensure_eq!(a, b, "async:estimate-total-differs", "sequential vs parallel estimated total");
                ensure_eq!(est_gas(&est), est_gas(&est_par), "async:estimate-per-input-differs", "sequential vs parallel per-input estimates");
            }
            (Err(_), Err(_)) => {}
            (Ok(_), Err(e)) => fail!(format!("async:estimate-fails-where-sequential-succeeds:{e}"), "sequential estimation succeeded, parallel failed with {e}"),
            (Err(e), Ok(_)) => fail!(format!("async:estimate-succeeds-where-sequential-fails:{e}"), "sequential estimation failed with {e}, parallel succeeded"),
        }
    } else {
        obs.class("estimate:sequential-limited-by-tx-gas");
    }

    let Ok(total) = e_seq else {
        obs.class("estimate:failed");
        obs.note(&format!("estimate:error:{}", e_seq.unwrap_err()), 1);
        return Ok(());
    };
    obs.class("estimate:ok");
    let gases = est_gas(&est);
    // the estimate is the gas each predicate uses when run alone
    ensure_eq!(gases, ref_est, "estimate:per-input-differs-from-alone-run", "predicate_gas_used written by the estimation vs gas used by each predicate run alone with the gas the estimation hands out");
    obs.class(if all_true { "estimate:ok-all-predicates-true" } else { "estimate:ok-with-false-predicate" });
    ensure_eq!(gases.iter().try_fold(0u64, |a, g| a.checked_add(*g)), Some(total), "estimate:total-vs-per-input", "estimate's total vs Σ predicate_gas_used written into the inputs");
    // nothing but predicate_gas_used may change
    let mut est_spec = spec.clone();
    for (p, g) in preds.iter().zip(&gases) {
        set_gas(&mut est_spec, p.index, *g);
    }
    {
        let want: Transaction = rebuild(&est_spec)?.into();
        let got: Transaction = est.clone().into();
        ensure!(want == got, "estimate:touches-other-fields", "estimation changed something else than predicate_gas_used");
    }
    let suffix = if env.observing { ":gas-observing-predicate" } else { "" };
    match verify_all(&est, &est_spec, env, "estimated", obs) {
        Ok(Some(Ok(g))) => {
            ensure_eq!(g, total, "estimate:verified-total-differs", "verified total of the estimated transaction vs the estimate's total");
            full_check(&est, Some(&Ok(g)), env, "estimated", obs)?;
        }
        Ok(Some(Err(_))) if !all_true => {
            // estimation does not evaluate verdicts: a false predicate is estimated, then refused
            return Ok(());
        }
        Ok(Some(Err(e))) => fail!(format!("estimate:estimated-tx-rejected:{e}{suffix}"), "estimate_predicates succeeded (total {total}, per input {gases:?}) but check_predicates of the estimated transaction failed with {e}"),
        Ok(None) => {
            obs.class("estimated:not-checkable");
            return Ok(());
        }
        Err(f) if env.observing && f.key.starts_with("verify:") => {
            // the reference and the library disagree on a gas-observing predicate in the same way
            return Err(Failure::new(format!("{}{suffix}", f.key), f.msg));
        }
        Err(f) => return Err(f),
    }

    // ---- (b) exactness: gas ± 1, changed owner
    if np > 0 {
        let k = pick((env.c.salt >> 16) as u16, np);
        let p = &preds[k];
        let g = gases[k];
        for (d, name) in [(1i64, "gas+1"), (-1, "gas-1")] {
            let Some(g2) = (if d > 0 { g.checked_add(1) } else { g.checked_sub(1) }) else { continue };
            let mut s = est_spec.clone();
            set_gas(&mut s, p.index, g2);
            let t = rebuild(&s)?;
            match verify_all(&t, &s, env, name, obs)? {
                Some(Ok(_)) => fail!(format!("verify:accepts-inexact-gas:{name}"), "predicate {} verified with {g2} gas although it uses exactly {g}", p.index),
                Some(Err(_)) => {}
                None => {}
            }
        }
        let mut s = est_spec.clone();
        match &mut s.inputs[p.index] {
            InSpec::CoinPredicate { owner, .. } | InSpec::MsgCoinPredicate { recipient: owner, .. } | InSpec::MsgDataPredicate { recipient: owner, .. } => flip32(owner, env.c.salt),
            _ => {}
        }
        let t = rebuild(&s)?;
        if let Some(Ok(_)) = verify_all(&t, &s, env, "owner-changed", obs)? {
            fail!("verify:accepts-changed-owner", "predicate {} verified although its owner was changed", p.index);
        }
    }
    if signed >= 1 && np >= 1 && !identity {
        obs.class("signed+predicate+non-identity-schedule");
        obs.nontrivial(&(layout_sig(spec), env.c.run_order.iter().take(np).collect::<Vec<_>>(), env.c.ret_order.iter().take(np).collect::<Vec<_>>()));
    }
    Ok(())
}

/// concrete transaction type out of `Transaction`
trait FromTransaction: Sized {
    fn try_from_transaction(t: Transaction) -> Option<Self>;
}
macro_rules! from_tx {
    ($($v:ident),*) => {$(impl FromTransaction for fuel_tx::$v { fn try_from_transaction(t: Transaction) -> Option<Self> { if let Transaction::$v(x) = t { Some(x) } else { None } } })*};
}
from_tx!(Script, Create, Upgrade, Upload, Blob);

fn check_preds_inner(c: &Case, observing: bool, obs: &mut Obs) -> Check {
    let vc = prepare(c);
    let r = vc.realize();
    let AnyTx::Charge(spec) = &r.spec else { fail!("harness-mint", "no Mint in C20") };
    for p in &c.progs {
        obs.note(p.label(), 1);
    }
    obs.class(&format!("kind:{}", spec.body.kind()));
    obs.class(vc.params.gas.label());
    let env = Env { c, params: &r.params, cp: CheckPredicateParams::from(&r.params), height: r.height, observing };
    match r.transaction() {
        Transaction::Script(t) => run_preds(t, spec, &env, obs),
        Transaction::Create(t) => run_preds(t, spec, &env, obs),
        Transaction::Upgrade(t) => run_preds(t, spec, &env, obs),
        Transaction::Upload(t) => run_preds(t, spec, &env, obs),
        Transaction::Blob(t) => run_preds(t, spec, &env, obs),
        Transaction::Mint(_) => unreachable!(),
    }
}

fn check_preds(c: &Case, obs: &mut Obs) -> Check {
    ensure!(!c.progs.iter().any(Prog::observes_gas), "harness-gas-observing-in-blind-part", "part `predicates` must not contain gas-observing programs");
    check_preds_inner(c, false, obs)
}

fn check_observing(c: &Case, obs: &mut Obs) -> Check {
    if c.progs.iter().any(|p| matches!(p, Prog::GasAbove(_))) {
        obs.class("has-gas-above-program");
    }
    check_preds_inner(c, c.progs.iter().any(Prog::observes_gas), obs)
}

// =================================================================== strategies

fn sig_edit() -> impl Strategy<Value = SigEdit> {
    prop_oneof![
        5 => Just(SigEdit::None),
        2 => (any::<u16>(), any::<u16>()).prop_map(|(input, wit)| SigEdit::Repoint { input, wit }),
        2 => any::<u16>().prop_map(|wit| SigEdit::RepointSameOwner { wit }),
        2 => (any::<u16>(), any::<u16>()).prop_map(|(wit, bit)| SigEdit::FlipWitnessBit { wit, bit }),
        1 => (any::<u16>(), any::<bool>()).prop_map(|(wit, longer)| SigEdit::ResizeWitness { wit, longer }),
        1 => (any::<u16>(), any::<u16>()).prop_map(|(a, b)| SigEdit::SwapWitnesses { a, b }),
        1 => (any::<u16>(), any::<u8>()).prop_map(|(input, bit)| SigEdit::FlipOwnerBit { input, bit }),
    ]
}

fn tx_spec(script_heavy: bool) -> impl Strategy<Value = ValidTxSpec> {
    let kinds = if script_heavy { vec![0u8, 0, 0, 0, 1, 3, 4, 5] } else { vec![0u8, 0, 1, 3, 4, 5] };
    prop::sample::select(kinds).prop_flat_map(valid_tx_kind).prop_map(|mut t| {
        // big bytecode witnesses only slow the signature part down
        match &mut t.body {
            VBody::Create { code, .. } => code.0.truncate(600),
            VBody::Upload { bytecode, .. } => bytecode.0.truncate(600),
            VBody::Blob { data } => data.0.truncate(600),
            _ => {}
        }
        t
    })
}

fn params(small_share: u32) -> impl Strategy<Value = ParamsSpec> {
    prop_oneof![
        10 => (params_standard(), prop::sample::select(vec![0u64, 30, 400, 5_000, 120_000, 120_000])).prop_map(|(mut p, g)| { p.max_gas_per_predicate = g; p }),
        small_share => params_any(),
    ]
}

fn case(blind: bool) -> impl Strategy<Value = Case> {
    (
        (tx_spec(true), params(2), prop_oneof![4 => Just(Tight { size: None, gas: None }), 1 => crate::gens::validtx::tight()]),
        prop::collection::vec(prog(blind), 1..5),
        prop::collection::vec(prop::bool::weighted(0.35), 0..8),
        sig_edit(),
        prop::collection::vec(any::<u16>(), 0..6),
        prop::collection::vec(any::<u16>(), 0..6),
        any::<u64>(),
        any::<u64>(),
    )
        .prop_map(|((tx, params, tight), progs, to_predicate, sig_edit, run_order, ret_order, dirty, salt)| Case { vc: ValidCase { tx, params, tight }, progs, to_predicate, sig_edit, run_order, ret_order, dirty, salt })
}

fn observing_case() -> impl Strategy<Value = Case> {
    case(false).prop_map(|mut c| {
        // room for the estimate: standard limits, generous per-predicate gas
        c.vc.params = ParamsSpec { gas: c.vc.params.gas.clone(), base_asset: c.vc.params.base_asset, chain_id: c.vc.params.chain_id, ..ParamsSpec::standard() };
        c.vc.params.max_gas_per_predicate = 100_000;
        c.vc.tight = Tight { size: None, gas: None };
        c
    })
}

pub fn property() -> Property {
    Property {
        id: "C20",
        rule: "valid-TX (Script-heavy, all five chargeable kinds) with 1-4 real keys, shared witness slots, junk witnesses; a generated share of the signed inputs is turned into predicate inputs whose code is one of 13 program families written from fuel_asm::op (ret 1 / ret 0 / ret k / rvrt / retd / infinite loop / counted loop / GTF reader / predicate-data comparison / own-index comparison / stack+heap traffic / contract-only opcode / 1-7 raw words + ret), schedules default/unit/custom (never free), max_gas_per_predicate in {0,30,400,5000,120000}. Part signatures: one of 7 witness/owner edits, then check_signatures == reference (recover over the harness id; predicate owner formula); accepted => <=16 sampled single-field mutations (non-malleable => rejected, malleable => accepted). Part predicates: declared / estimated / gas±1 / owner-changed transactions through check_predicates (clean + dirty memory), check_predicates_async (harness executor: generated run order and result order; dirty pool), estimate_predicates(+async), against the reference 'owner formula and each predicate alone returns 1 with zero gas left'; estimate => per-input gas equals the gas used alone, only predicate_gas_used changes, and (when every predicate is true: estimation ignores verdicts by design, CHANGELOG #917) the estimated transaction verifies with the same total; into_checked agrees with check_signatures && check_predicates. Part gas-observing: the same with predicates that read $ggas/$cgas. Non-trivial = >=1 signed and >=1 predicate input (and a non-identity schedule in the predicate parts); distinct by layout signature + edit / schedule".into(),
        assumptions: vec![
            "fuel-crypto Signature::recover is correct (C16, C17)".into(),
            "harness reference id (C03) and predicate owner formula (C15, model::rfc6962)".into(),
            "running a predicate alone = Interpreter::init_predicate + execute::<true>() until it stops; the interpreter's instruction semantics are covered elsewhere (C21..C29)".into(),
            "main parts: predicate programs never name $ggas/$cgas (raw words are scrubbed); estimation comparisons sequential vs parallel only when the sequential run is not limited by the transaction's remaining gas (counted)".into(),
        ],
        parts: vec![
            gen_part("signatures", "witness / owner edits; reference verdict; sampled mutations after acceptance", (2_500, 60_000), |_c: &Ctx| case(true), check_sigs),
            gen_part("predicates", "declared, estimated, ±1, owner-changed; sequential, dirty, parallel; reference", (4_000, 100_000), |_c: &Ctx| case(true), check_preds),
            gen_part("gas-observing", "as `predicates`, with programs that read $ggas / $cgas", (600, 10_000), |_c: &Ctx| observing_case(), check_observing),
        ],
        floors: vec![
            ("signatures", "signatures:rejected", 0.10),
            ("signatures", "signed+predicate", 0.10),
            ("signatures", "shared-witness", 0.10),
            ("predicates", "estimate:ok", 0.15),
            ("predicates", "estimated:accepted", 0.15),
            ("predicates", "declared:rejected", 0.2),
            ("predicates", "signed+predicate+non-identity-schedule", 0.05),
            ("predicates", "estimate:schedules-comparable", 0.3),
        ],
    }
}
