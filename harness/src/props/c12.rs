//! C12 — Sparse Merkle root depends only on the final key-value map.
//!
//! Also hosts what C13 and C14 share: the clustered key generator, the history type, its
//! interpretation against the model map, the per-step classifier and an enumerable node storage.
//!
//! Empty values: at the pinned commit `insert(key, b"")` stores an ordinary leaf whose value hash
//! is SHA256("") (CHANGELOG #938 "allow inserting empty values", unit tests
//! `test_insert_empty_data_changes_root` / `test_update_with_empty_data_changes_root`); the older
//! text in `fuel-merkle/docs/test-specs` ("update with empty data performs delete") describes the
//! pre-#938 `update` and is stale. The model therefore treats the empty value as a value.
use crate::engine::*;
use crate::gens::{bytes32, small_bytes};
use crate::model::smt as m;
use crate::ensure_eq;
use fuel_merkle::common::StorageMap;
use fuel_merkle::sparse::{self, in_memory, in_memory::NodesTable, MerkleTreeKey, Primitive};
use fuel_merkle::storage::{StorageInspect, StorageMutate};
use proptest::prelude::*;
use rand::{rngs::StdRng, seq::SliceRandom, SeedableRng};
use serde::{Deserialize, Serialize};
use std::borrow::Cow;
use std::collections::{BTreeMap, BTreeSet};

pub type H = m::H;

// ------------------------------------------------------------------ clustered keys

/// bit positions (MSB first) flipped on a base to make neighbours
pub const FLIP_POS: [usize; 7] = [255, 254, 253, 128, 8, 1, 0];
/// shared-prefix lengths
pub const PREFIX_BITS: [usize; 4] = [8, 64, 200, 255];

#[derive(Debug, Clone, Serialize, Deserialize, PartialEq, Eq)]
pub enum KeySpec {
    /// one of the bases (selector scaled onto the pool)
    Base(u8),
    /// base with the bits of `FLIP_POS` selected by the 7-bit mask flipped
    Flip(u8, u8),
    /// first `PREFIX_BITS[class]` bits of the base, remaining bits taken from a 32-byte fill of `byte`
    Prefix(u8, u8, u8),
    Zero,
    Ones,
    Raw([u8; 32]),
}

pub fn flip_bit(k: &mut H, pos: usize) {
    k[pos >> 3] ^= 1 << (7 - (pos & 7));
}

fn base_of(bases: &[H], sel: u8) -> H {
    if bases.is_empty() {
        return [0u8; 32];
    }
    bases[(sel as usize * bases.len()) >> 8]
}

pub fn resolve(bases: &[H], k: &KeySpec) -> H {
    match k {
        KeySpec::Base(b) => base_of(bases, *b),
        KeySpec::Flip(b, mask) => {
            let mut key = base_of(bases, *b);
            for (i, pos) in FLIP_POS.iter().enumerate() {
                if mask & (1 << i) != 0 {
                    flip_bit(&mut key, *pos);
                }
            }
            key
        }
        KeySpec::Prefix(b, class, fill) => {
            let base = base_of(bases, *b);
            let bits = PREFIX_BITS[(*class as usize * PREFIX_BITS.len()) >> 8];
            let mut key = [*fill; 32];
            for i in 0..bits {
                if m::bit(&base, i) != m::bit(&key, i) {
                    flip_bit(&mut key, i);
                }
            }
            key
        }
        KeySpec::Zero => [0u8; 32],
        KeySpec::Ones => [0xffu8; 32],
        KeySpec::Raw(k) => *k,
    }
}

pub fn key_spec() -> impl Strategy<Value = KeySpec> {
    let fill = prop_oneof![
        3 => prop::sample::select(vec![0x00u8, 0xff, 0x55, 0xaa, 0x01, 0x80]),
        1 => any::<u8>(),
    ];
    prop_oneof![
        3 => any::<u8>().prop_map(KeySpec::Base),
        4 => (any::<u8>(), 0u32..7).prop_map(|(b, i)| KeySpec::Flip(b, 1 << i)),
        2 => (any::<u8>(), 0u8..128).prop_map(|(b, mk)| KeySpec::Flip(b, mk)),
        4 => (any::<u8>(), any::<u8>(), fill).prop_map(|(b, c, f)| KeySpec::Prefix(b, c, f)),
        1 => Just(KeySpec::Zero),
        1 => Just(KeySpec::Ones),
        1 => bytes32().prop_map(KeySpec::Raw),
    ]
}

// ------------------------------------------------------------------ histories

#[derive(Debug, Clone, Serialize, Deserialize)]
pub enum Op {
    Insert(KeySpec, Vec<u8>),
    /// delete by key description (mostly absent keys)
    Delete(KeySpec),
    /// delete the selected key of the current map (no keys: delete base 0)
    DeletePresent(u16),
    /// insert over the selected present key with a generated value
    Overwrite(u16, Vec<u8>),
    /// insert the selected present key again with the value it already has
    Reinsert(u16),
}

#[derive(Debug, Clone, Serialize, Deserialize)]
pub struct Hist {
    pub bases: Vec<[u8; 32]>,
    pub ops: Vec<Op>,
}

pub fn op() -> impl Strategy<Value = Op> {
    prop_oneof![
        9 => (key_spec(), small_bytes()).prop_map(|(k, v)| Op::Insert(k, v)),
        1 => key_spec().prop_map(Op::Delete),
        5 => any::<u16>().prop_map(Op::DeletePresent),
        1 => (any::<u16>(), small_bytes()).prop_map(|(s, v)| Op::Overwrite(s, v)),
        1 => any::<u16>().prop_map(Op::Reinsert),
    ]
}

pub fn hist(max_ops: usize) -> impl Strategy<Value = Hist> {
    (prop::collection::vec(bytes32(), 2..=4), prop::collection::vec(op(), 0..=max_ops))
        .prop_map(|(bases, ops)| Hist { bases, ops })
}

/// an operation with its key made concrete
#[derive(Debug, Clone, PartialEq, Eq)]
pub enum COp {
    Ins(H, Vec<u8>),
    Del(H),
}

impl COp {
    pub fn key(&self) -> &H {
        match self {
            COp::Ins(k, _) | COp::Del(k) => k,
        }
    }
    pub fn apply(&self, map: &mut m::Map) {
        match self {
            COp::Ins(k, v) => {
                map.insert(*k, v.clone());
            }
            COp::Del(k) => {
                map.remove(k);
            }
        }
    }
}

fn nth_key(map: &m::Map, sel: u16) -> Option<H> {
    if map.is_empty() {
        return None;
    }
    map.keys().nth(crate::gens::pick(sel, map.len())).copied()
}

pub fn concretize(bases: &[H], op: &Op, map: &m::Map) -> COp {
    let b0 = base_of(bases, 0);
    match op {
        Op::Insert(k, v) => COp::Ins(resolve(bases, k), v.clone()),
        Op::Delete(k) => COp::Del(resolve(bases, k)),
        Op::DeletePresent(s) => COp::Del(nth_key(map, *s).unwrap_or(b0)),
        Op::Overwrite(s, v) => COp::Ins(nth_key(map, *s).unwrap_or(b0), v.clone()),
        Op::Reinsert(s) => match nth_key(map, *s) {
            Some(k) => COp::Ins(k, map[&k].clone()),
            None => COp::Ins(b0, vec![]),
        },
    }
}

/// the whole history made concrete, with the model map after 0..=n operations
pub fn unfold(h: &Hist) -> (Vec<COp>, Vec<m::Map>) {
    let mut map = m::Map::new();
    let mut maps = vec![map.clone()];
    let mut cops = vec![];
    for o in &h.ops {
        let c = concretize(&h.bases, o, &map);
        c.apply(&mut map);
        maps.push(map.clone());
        cops.push(c);
    }
    (cops, maps)
}

// ------------------------------------------------------------------ classification

/// depth of the leaf of a present key = longest prefix shared with another key, plus one
pub fn depth_of(map: &m::Map, key: &H) -> usize {
    map.keys().filter(|k| *k != key).map(|k| m::common_prefix(k, key) + 1).max().unwrap_or(0)
}

/// coarse kind of the operation, used in failure keys and distinctness signatures
pub fn op_kind(map: &m::Map, c: &COp) -> &'static str {
    match c {
        COp::Ins(k, v) => match map.get(k) {
            None => "insert-new",
            Some(old) if old == v => "overwrite-same",
            Some(_) => "overwrite-diff",
        },
        COp::Del(k) => {
            if map.contains_key(k) { "delete-present" } else { "delete-absent" }
        }
    }
}

/// labels describing which update path the operation takes on a compact tree holding `map`
pub fn classify_step(map: &m::Map, c: &COp, labels: &mut BTreeSet<&'static str>) {
    let kind = op_kind(map, c);
    labels.insert(kind);
    let k = c.key();
    if *k == [0u8; 32] {
        labels.insert("key-all-zero");
    }
    if *k == [0xffu8; 32] {
        labels.insert("key-all-one");
    }
    match c {
        COp::Ins(_, v) => {
            if v.is_empty() {
                labels.insert("insert-empty-value");
            }
            if kind == "insert-new" {
                if map.is_empty() {
                    labels.insert("insert-into-empty");
                    return;
                }
                let (d, at) = m::locate(map, k);
                match at {
                    None => {
                        labels.insert("insert-on-placeholder");
                        if d >= 16 {
                            labels.insert("insert-on-placeholder-depth>=16");
                        }
                    }
                    Some(l) => {
                        let cp = m::common_prefix(k, &l);
                        let chain = cp - d;
                        labels.insert("insert-splits-leaf");
                        if chain >= 1 {
                            labels.insert("insert-placeholder-chain");
                        }
                        if chain >= 16 {
                            labels.insert("insert-placeholder-chain>=16");
                        }
                        if cp == 255 {
                            labels.insert("pair-at-depth-256");
                        }
                    }
                }
            }
        }
        COp::Del(_) => {
            if map.is_empty() {
                labels.insert("delete-on-empty");
                return;
            }
            if kind == "delete-absent" {
                match m::locate(map, k).1 {
                    None => labels.insert("delete-absent-ends-at-placeholder"),
                    Some(_) => labels.insert("delete-absent-ends-at-other-leaf"),
                };
                return;
            }
            if map.len() == 1 {
                labels.insert("delete-last-leaf");
                return;
            }
            let d = depth_of(map, k);
            let sib: Vec<&H> = map.keys().filter(|o| *o != k && m::common_prefix(o, k) == d - 1).collect();
            if sib.len() == 1 {
                labels.insert("orphan-collapse");
                if d - 1 >= 16 {
                    labels.insert("orphan-collapse>=16");
                }
                if map.len() == 2 {
                    labels.insert("orphan-becomes-root");
                }
                let mut after = map.clone();
                after.remove(k);
                let nd = depth_of(&after, sib[0]);
                if d - nd >= 2 {
                    labels.insert("orphan-rises-past-placeholders");
                }
                if d - nd >= 2 && nd > 0 {
                    labels.insert("orphan-rises-past-placeholders-then-joins");
                }
            } else {
                labels.insert("delete-sibling-internal");
            }
        }
    }
}

/// signature for `distinct_nontrivial`: op-kind sequence + shape (leaf depths) of the final trie
pub fn signature(kinds: &[&'static str], last: &m::Map) -> (Vec<u8>, Vec<u16>) {
    let ks = kinds
        .iter()
        .map(|k| match *k {
            "insert-new" => 0u8,
            "overwrite-same" => 1,
            "overwrite-diff" => 2,
            "delete-present" => 3,
            _ => 4,
        })
        .collect();
    (ks, m::leaf_depths(last))
}

// ------------------------------------------------------------------ enumerable node storage

/// Node storage that can be cloned, listed and damaged (C13 fault injection).
#[derive(Debug, Clone, Default)]
pub struct MemStore {
    pub map: BTreeMap<H, Primitive>,
}

impl StorageInspect<NodesTable> for MemStore {
    type Error = core::convert::Infallible;
    fn get(&self, key: &H) -> Result<Option<Cow<'_, Primitive>>, Self::Error> {
        Ok(self.map.get(key).map(Cow::Borrowed))
    }
    fn contains_key(&self, key: &H) -> Result<bool, Self::Error> {
        Ok(self.map.contains_key(key))
    }
}

impl StorageMutate<NodesTable> for MemStore {
    fn replace(&mut self, key: &H, value: &Primitive) -> Result<Option<Primitive>, Self::Error> {
        Ok(self.map.insert(*key, *value))
    }
    fn take(&mut self, key: &H) -> Result<Option<Primitive>, Self::Error> {
        Ok(self.map.remove(key))
    }
}

pub type MemTree = sparse::MerkleTree<NodesTable, MemStore>;

pub fn mk(k: &H) -> MerkleTreeKey {
    MerkleTreeKey::new_without_hash(*k)
}

/// apply a concrete op to a library tree
pub fn apply_lib<S>(t: &mut sparse::MerkleTree<NodesTable, S>, c: &COp) -> Result<(), String>
where
    S: StorageMutate<NodesTable>,
    S::Error: std::fmt::Debug,
{
    match c {
        COp::Ins(k, v) => t.insert(mk(k), v).map_err(|e| format!("{e:?}")),
        COp::Del(k) => t.delete(mk(k)).map_err(|e| format!("{e:?}")),
    }
}

// ------------------------------------------------------------------ the C12 check

#[derive(Debug, Clone, Serialize, Deserialize)]
pub enum Order {
    Ascending,
    Descending,
    Shuffled(u64),
    /// every key first with a stale value (shuffled), then the real pairs (shuffled): the
    /// documented "sequential update" reading makes the later pair win
    StaleThenReal(u64),
}

fn order() -> impl Strategy<Value = Order> {
    prop_oneof![
        1 => Just(Order::Ascending),
        1 => Just(Order::Descending),
        3 => any::<u64>().prop_map(Order::Shuffled),
        1 => any::<u64>().prop_map(Order::StaleThenReal),
    ]
}

#[derive(Debug, Clone, Serialize, Deserialize)]
pub struct Case {
    pub hist: Hist,
    pub orders: Vec<Order>,
    /// operations applied to the tree returned by `from_set` (it must be an ordinary tree)
    pub tail: Vec<Op>,
}

fn case(max_ops: usize) -> impl Strategy<Value = Case> {
    (hist(max_ops), prop::collection::vec(order(), 1..=2), prop::collection::vec(op(), 0..=3))
        .prop_map(|(hist, orders, tail)| Case { hist, orders, tail })
}

fn ordered(map: &m::Map, o: &Order) -> Vec<(H, Vec<u8>)> {
    let mut v: Vec<(H, Vec<u8>)> = map.iter().map(|(k, v)| (*k, v.clone())).collect();
    match o {
        Order::Ascending => v,
        Order::Descending => {
            v.reverse();
            v
        }
        Order::Shuffled(s) => {
            v.shuffle(&mut StdRng::seed_from_u64(*s));
            v
        }
        Order::StaleThenReal(s) => {
            let mut rng = StdRng::seed_from_u64(*s);
            let mut stale: Vec<(H, Vec<u8>)> = v
                .iter()
                .map(|(k, val)| {
                    let mut w = val.clone();
                    w.push(0x5a);
                    (*k, w)
                })
                .collect();
            stale.shuffle(&mut rng);
            v.shuffle(&mut rng);
            stale.extend(v);
            stale
        }
    }
}

type Store = StorageMap<NodesTable>;
type Tree = sparse::MerkleTree<NodesTable, Store>;

fn run(case: &Case, obs: &mut Obs) -> Check {
    let h = &case.hist;
    let mut map = m::Map::new();
    let mut tree: Tree = sparse::MerkleTree::new(Store::new());
    let mut wrapped = in_memory::MerkleTree::new();
    let mut labels = BTreeSet::new();
    let mut kinds = vec![];

    ensure_eq!(tree.root(), m::ZERO, "root-mismatch:new", "root of a new tree");
    for (step, o) in h.ops.iter().enumerate() {
        let c = concretize(&h.bases, o, &map);
        let kind = op_kind(&map, &c);
        classify_step(&map, &c, &mut labels);
        kinds.push(kind);
        apply_lib(&mut tree, &c).map_err(|e| Failure::new(format!("op-error:{kind}"), format!("step {step} {c:?}: {e}")))?;
        match &c {
            COp::Ins(k, v) => wrapped.update(mk(k), v),
            COp::Del(k) => wrapped.delete(mk(k)),
        }
        c.apply(&mut map);
        let want = m::root(&map);
        ensure_eq!(
            tree.root(), want, format!("root-mismatch:{kind}"),
            "step {step} {c:?}: root differs from the compact root of the {}-key map", map.len()
        );
        ensure_eq!(wrapped.root(), want, format!("in-memory-root-mismatch:{kind}"), "step {step} {c:?}: in_memory::MerkleTree root");
    }

    // set constructors on the final map
    let want = m::root(&map);
    for o in &case.orders {
        let pairs = ordered(&map, o);
        let tag = match o {
            Order::StaleThenReal(_) => {
                labels.insert("from-set-with-duplicate-keys");
                ":duplicate-keys"
            }
            _ => "",
        };
        let t: Tree = sparse::MerkleTree::from_set(Store::new(), pairs.iter().map(|(k, v)| (*k, v.clone())))
            .map_err(|e| Failure::new("from_set-error", format!("{e:?}")))?;
        ensure_eq!(t.root(), want, format!("from_set-root-mismatch{tag}"), "from_set over {} pairs ({o:?})", pairs.len());
        let r = in_memory::MerkleTree::root_from_set(pairs.iter().map(|(k, v)| (mk(k), v.clone())));
        ensure_eq!(r, want, format!("root_from_set-mismatch{tag}"), "root_from_set over {} pairs ({o:?})", pairs.len());
        let (r, _nodes) = in_memory::MerkleTree::nodes_from_set(pairs.iter().map(|(k, v)| (mk(k), v.clone())));
        ensure_eq!(r, want, format!("nodes_from_set-root-mismatch{tag}"), "nodes_from_set over {} pairs ({o:?})", pairs.len());
        let w = in_memory::MerkleTree::from_set(pairs.iter().map(|(k, v)| (mk(k), v.clone())));
        ensure_eq!(w.root(), want, format!("in-memory-from_set-root-mismatch{tag}"), "in_memory from_set ({o:?})");

        // the tree built from a set is an ordinary tree
        let mut t = t;
        let mut tm = map.clone();
        for (i, o2) in case.tail.iter().enumerate() {
            let c = concretize(&h.bases, o2, &tm);
            let kind = op_kind(&tm, &c);
            apply_lib(&mut t, &c).map_err(|e| Failure::new(format!("from_set-tail-op-error:{kind}"), format!("tail {i} {c:?}: {e}")))?;
            c.apply(&mut tm);
            ensure_eq!(t.root(), m::root(&tm), format!("from_set-tail-root-mismatch:{kind}"), "tail op {i} {c:?} after from_set");
        }
    }

    if map.len() >= 2 {
        labels.insert("final-map>=2");
    }
    if map.len() >= 8 {
        labels.insert("final-map>=8");
    }
    let nontrivial = labels.contains("orphan-collapse>=16") || labels.contains("insert-on-placeholder");
    for l in &labels {
        obs.class(l);
    }
    if nontrivial {
        obs.class("NONTRIVIAL");
        obs.nontrivial(&signature(&kinds, &map));
    }
    Ok(())
}

pub fn property() -> Property {
    Property {
        id: "C12",
        rule: "histories vec(Op,0..=60|100) of Insert/Delete/DeletePresent/Overwrite/Reinsert over clustered 256-bit keys (2-4 bases; bit flips at {255,254,253,128,8,1,0}; shared prefixes of 8/64/200/255 bits; all-zero, all-one, raw keys; passed with new_without_hash), values 0..=40 bytes incl. empty; after every op the library root (storage tree and in_memory wrapper) is compared with model::smt::root of the model map; on the final map from_set / root_from_set / nodes_from_set / in_memory::from_set in 1-2 generated orders (asc, desc, shuffled, stale-duplicates-first) and 0-3 further ops on the from_set tree. Non-trivial = history with a delete of a present key whose sibling is a single leaf under a >=16-bit shared prefix, or an insert of a new key whose path ends at a placeholder; distinct by op-kind sequence + leaf depths of the final trie".into(),
        assumptions: vec![
            "sha2 crate is correct".into(),
            "model::smt is the compact sparse Merkle tree of the statement".into(),
            "an empty value is an ordinary value (CHANGELOG #938), not a delete".into(),
        ],
        parts: vec![gen_part(
            "history",
            "lock-step history vs model root, then set constructors",
            (70_000, 600_000),
            |c: &Ctx| case(c.tier.pick(60, 100)),
            run,
        )],
        floors: vec![
            ("history", "orphan-collapse>=16", 0.25),
            ("history", "insert-on-placeholder", 0.25),
            ("history", "insert-placeholder-chain>=16", 0.25),
        ],
    }
}
