//! C27 — Assets are conserved by every script execution.
//!
//! (1) per-asset ledger equation in u128 on the final transaction and storage;
//! (2) a harness mirror of free and contract balances, driven by receipts only, is compared
//!     after every instruction with the storage and with the VM's internal free balances;
//! (3) after every instruction the balance table in VM memory equals the internal free balances.
use crate::engine::*;
use crate::model::fee as mfee;
use crate::model::ledger::{self, Equation, Holder, Id, LedgerError, Mirror, Movement, TxFunds};
use crate::vm::prog::{self, Base, Ptr, Tpl, Val};
use crate::vm::world::{self, run_stepping, WorldSpec};
use crate::{ensure, ensure_eq, fail};
use fuel_asm::RegId;
use fuel_tx::field::{Inputs, Outputs};
use fuel_tx::{Chargeable, Input, Output, Receipt, ScriptExecutionResult};
use fuel_types::{AssetId, ContractId};
use fuel_vm::storage::{ContractsAssetsStorage, MemoryStorage};
use proptest::prelude::*;
use serde::{Deserialize, Serialize};
use std::cell::RefCell;
use std::collections::{BTreeMap, BTreeSet};

#[derive(Debug, Clone, Serialize, Deserialize)]
pub struct Case {
    pub world: WorldSpec,
}

// opcode bytes (fuel-asm instruction table)
pub const OP_RET: u8 = 0x24;
pub const OP_RETD: u8 = 0x25;
pub const OP_BURN: u8 = 0x2c;
pub const OP_CALL: u8 = 0x2d;
pub const OP_MINT: u8 = 0x35;
pub const OP_RVRT: u8 = 0x36;
pub const OP_TR: u8 = 0x3c;
pub const OP_TRO: u8 = 0x3d;
pub const OP_SMO: u8 = 0x4c;

pub const BALANCE_ENTRY: usize = 40;

/// amounts per asset of the transaction as submitted
pub fn tx_funds(tx: &fuel_tx::Script, base: &AssetId, max_fee: u64) -> TxFunds {
    let mut f = TxFunds { base: **base, max_fee, ..Default::default() };
    for i in tx.inputs() {
        match i {
            Input::CoinSigned(c) => *f.spendable.entry(*c.asset_id).or_insert(0) += c.amount as u128,
            Input::CoinPredicate(c) => *f.spendable.entry(*c.asset_id).or_insert(0) += c.amount as u128,
            Input::MessageCoinSigned(m) => *f.spendable.entry(**base).or_insert(0) += m.amount as u128,
            Input::MessageCoinPredicate(m) => *f.spendable.entry(**base).or_insert(0) += m.amount as u128,
            Input::MessageDataSigned(m) => f.retryable += m.amount as u128,
            Input::MessageDataPredicate(m) => f.retryable += m.amount as u128,
            Input::Contract(_) => {}
        }
    }
    for o in tx.outputs() {
        if let Output::Coin { amount, asset_id, .. } = o {
            *f.coin_outputs.entry(**asset_id).or_insert(0) += *amount as u128;
        }
    }
    f
}

/// the claim a receipt makes, and the id of the context it names as the source
pub fn movement_of(r: &Receipt, base: &Id) -> Option<(Movement, Id)> {
    let _ = base;
    Some(match r {
        Receipt::Call { id, to, amount, asset_id, .. } => (Movement::Forward { from: Holder::from_receipt_id(id), to: **to, asset: **asset_id, amount: *amount }, **id),
        Receipt::Transfer { id, to, amount, asset_id, .. } => (Movement::Transfer { from: Holder::from_receipt_id(id), to: **to, asset: **asset_id, amount: *amount }, **id),
        Receipt::TransferOut { id, amount, asset_id, .. } => (Movement::TransferOut { from: Holder::from_receipt_id(id), asset: **asset_id, amount: *amount }, **id),
        Receipt::MessageOut { sender, amount, .. } => (Movement::MessageOut { from: Holder::from_receipt_id(sender), amount: *amount }, **sender),
        Receipt::Mint { sub_id, contract_id, val, .. } => (Movement::Mint { contract: **contract_id, asset: ledger::minted_asset(contract_id, sub_id), amount: *val }, **contract_id),
        Receipt::Burn { sub_id, contract_id, val, .. } => (Movement::Burn { contract: **contract_id, asset: ledger::minted_asset(contract_id, sub_id), amount: *val }, **contract_id),
        _ => return None,
    })
}

/// the paying holder is the executing context (checked against the receipt by the caller)
fn with_source(m: Movement, src: Holder) -> Movement {
    match m {
        Movement::Transfer { to, asset, amount, .. } => Movement::Transfer { from: src, to, asset, amount },
        Movement::Forward { to, asset, amount, .. } => Movement::Forward { from: src, to, asset, amount },
        Movement::TransferOut { asset, amount, .. } => Movement::TransferOut { from: src, asset, amount },
        Movement::MessageOut { amount, .. } => Movement::MessageOut { from: src, amount },
        other => other,
    }
}

fn opcode_of_movement(m: &Movement) -> u8 {
    match m {
        Movement::Transfer { .. } => OP_TR,
        Movement::Forward { .. } => OP_CALL,
        Movement::TransferOut { .. } => OP_TRO,
        Movement::MessageOut { .. } => OP_SMO,
        Movement::Mint { .. } => OP_MINT,
        Movement::Burn { .. } => OP_BURN,
    }
}

fn stored(st: &MemoryStorage, c: &Id, a: &Id) -> Result<u64, Failure> {
    st.contract_asset_id_balance(&ContractId::from(*c), &AssetId::from(*a)).map(|v| v.unwrap_or(0)).map_err(|e| Failure::new("harness-storage", format!("{e:?}")))
}

fn hx(b: &Id) -> String {
    hex::encode(&b[..6])
}

/// per-run monitor state shared by the `before` / `after` observers
struct Mon<'a> {
    initial: &'a MemoryStorage,
    mirror: Mirror,
    tracked: Vec<Id>,
    table_len: usize,
    tx_id: Id,
    fail: Option<Failure>,
    /// step index at which `fail` was recorded
    fail_at: u64,
    // per step
    n_receipts: usize,
    ctx: Id,
    depth: usize,
    op: Option<u8>,
    // statistics
    steps: u64,
    max_depth: usize,
    forwards_in_call: u64,
    zero_gas_forward: bool,
    calls: u64,
    moved_through_call: BTreeSet<Id>,
    movement_then_failed: bool,
}

impl<'a> Mon<'a> {
    fn load(&mut self, c: &Id, a: &Id) -> Result<(), Failure> {
        if !self.mirror.is_loaded(c, a) {
            let v = stored(self.initial, c, a)?;
            self.mirror.load(c, a, v);
        }
        Ok(())
    }

    /// (3): balance table in memory == internal free balances, entry by entry, sorted by asset id
    fn check_table(&self, vm: &world::Vm<MemoryStorage>) -> Check {
        let off = fuel_vm::consts::VM_MEMORY_BALANCES_OFFSET;
        let mem = match vm.memory().read(off, self.table_len) {
            Ok(m) => m,
            Err(e) => fail!("table:unreadable", "balance table unreadable: {e:?}"),
        };
        for (i, a) in self.tracked.iter().enumerate() {
            let e = &mem[i * BALANCE_ENTRY..(i + 1) * BALANCE_ENTRY];
            ensure!(&e[..32] == &a[..], "table:asset-id-or-order", "entry {i} holds asset {} expected {} (input assets sorted by id)", hex::encode(&e[..8]), hx(a));
            let word = u64::from_be_bytes(e[32..40].try_into().unwrap());
            let internal = vm.verif_runtime_balance(&AssetId::from(*a));
            ensure_eq!(Some(word), internal, "table:word-differs-from-internal-balance", "asset {} memory word vs RuntimeBalances", hx(a));
        }
        let rest = &mem[self.tracked.len() * BALANCE_ENTRY..];
        ensure!(rest.iter().all(|b| *b == 0), "table:entries-beyond-input-assets", "balance table has non-zero bytes after the {} input assets", self.tracked.len());
        Ok(())
    }

    /// (2): mirror == storage for every loaded pair, mirror == internal free balance
    fn check_mirror(&self, vm: &world::Vm<MemoryStorage>, what: &str) -> Check {
        for ((c, a), v) in &self.mirror.contracts {
            let s = stored(vm.as_ref(), c, a)? as u128;
            ensure!(s == *v, format!("mirror:contract-balance-differs:{what}"), "contract {} asset {}: storage {s} mirror {v} (step {}, op {:?})", hx(c), hx(a), self.steps, self.op);
        }
        for a in &self.tracked {
            let internal = vm.verif_runtime_balance(&AssetId::from(*a)).map(|v| v as u128);
            ensure!(internal == self.mirror.free_of(a), format!("mirror:free-balance-differs:{what}"), "asset {}: internal {internal:?} mirror {:?} (step {}, op {:?})", hx(a), self.mirror.free_of(a), self.steps, self.op);
        }
        Ok(())
    }

    fn before(&mut self, s: &world::Step<MemoryStorage>) -> Check {
        if s.index == 0 {
            self.check_table(s.vm)?;
            self.check_mirror(s.vm, "initial")?;
        }
        self.n_receipts = s.vm.receipts().len();
        let stack = s.vm.verif_call_stack_ids();
        self.depth = stack.len();
        self.max_depth = self.max_depth.max(self.depth);
        self.ctx = stack.last().map(|c| **c).unwrap_or(ledger::ZERO);
        self.op = s.raw.map(|w| (w >> 24) as u8);
        self.steps = s.index;
        if self.op == Some(OP_CALL) {
            // forwarded gas register is operand d (bits 0..6)
            let rd = (s.raw.unwrap_or(0) & 0x3f) as usize;
            let rb = ((s.raw.unwrap_or(0) >> 12) & 0x3f) as usize;
            let regs = s.vm.registers();
            if regs[rd] == 0 && regs[rb] > 0 {
                self.zero_gas_forward = true;
            }
        }
        Ok(())
    }

    fn after(&mut self, vm: &world::Vm<MemoryStorage>, _ended: bool) -> Check {
        let rs = vm.receipts();
        let new = &rs[self.n_receipts.min(rs.len())..];
        let panicked = new.iter().any(|r| matches!(r, Receipt::Panic { .. }));
        let mut n_mov = 0;
        for r in new {
            let Some((m, src)) = movement_of(r, &self.mirror.base) else { continue };
            n_mov += 1;
            // the receipt is produced by the instruction that moves the coins, in the context that pays
            ensure!(self.op == Some(opcode_of_movement(&m)), "receipt:kind-vs-opcode", "receipt {r:?} produced by opcode {:?}", self.op);
            // (SMO in script context names the transaction id as the sender: MEM[$fp, 32] with $fp = 0)
            let named = if matches!(m, Movement::MessageOut { .. }) && self.ctx == ledger::ZERO && src == self.tx_id { ledger::ZERO } else { src };
            ensure!(named == self.ctx, "receipt:source-is-not-the-executing-context", "receipt {r:?} names {} but the executing context is {}", hx(&src), hx(&self.ctx));
            if matches!(m, Movement::Mint { .. } | Movement::Burn { .. }) {
                ensure!(self.ctx != ledger::ZERO, "receipt:mint-burn-outside-contract", "{r:?} in script context");
            }
            let m = with_source(m, Holder::from_receipt_id(&self.ctx));
            for (c, a) in self.mirror.pairs_of(&m) {
                self.load(&c, &a)?;
            }
            match self.mirror.apply(&m) {
                Ok(()) => {}
                Err(LedgerError::Underflow { holder, asset, have, amount }) => fail!("receipt:movement-exceeds-balance", "{r:?}: {holder:?} holds {have} of {} but the receipt moves {amount}", hx(&asset)),
                Err(LedgerError::Overflow { contract, asset }) => fail!("receipt:contract-balance-overflow", "{r:?}: balance of {} in {} exceeds u64", hx(&contract), hx(&asset)),
                Err(LedgerError::NotLoaded { .. }) => fail!("harness-ledger", "pair not loaded"),
            }
            if let Movement::Forward { amount, asset, .. } = &m {
                self.calls += 1;
                if *amount > 0 {
                    self.moved_through_call.insert(*asset);
                    if self.depth > 0 {
                        self.forwards_in_call += 1;
                    }
                }
            }
        }
        if matches!(self.op, Some(OP_TR | OP_TRO | OP_SMO | OP_MINT | OP_BURN | OP_CALL)) && !panicked {
            ensure!(n_mov == 1, "receipt:missing-for-asset-instruction", "opcode {:?} completed without panic and produced {n_mov} movement receipts", self.op);
        }
        self.check_table(vm)?;
        if panicked {
            // a panicking instruction may have applied part of its effects (the transaction is discarded)
            if self.mirror.movements > 0 {
                self.movement_then_failed = true;
            }
        } else {
            self.check_mirror(vm, "after-step")?;
        }
        Ok(())
    }
}

pub struct LedgerOutcome {
    pub success: bool,
    pub result: ScriptExecutionResult,
    pub gas_used: u64,
    pub refund: u64,
}

/// refund recomputed by the fee model from `gas_used`
pub fn model_refund(b: &world::Built, spec: &WorldSpec, gas_used: u64) -> Result<u64, Failure> {
    let tx = b.checked.transaction();
    let min_gas = tx.min_gas(b.params.gas_costs(), b.params.fee_params());
    if min_gas as u128 + gas_used as u128 > u64::MAX as u128 {
        return Err(Failure::new("harness-refund-domain", "min_gas + gas_used beyond u64"));
    }
    mfee::refund(min_gas, gas_used, b.gas_price, spec.price_factor.max(1), spec.tip, b.max_fee_limit).ok_or_else(|| Failure::new("harness-refund-negative", "fee of the used gas exceeds the fee limit"))
}

pub fn script_result(receipts: &[Receipt]) -> Option<(ScriptExecutionResult, u64)> {
    match receipts.last() {
        Some(Receipt::ScriptResult { result, gas_used }) => Some((*result, *gas_used)),
        _ => None,
    }
}

fn check(case: &Case, obs: &mut Obs) -> Check {
    let spec = &case.world;
    let b = match spec.build() {
        Ok(b) => b,
        Err(_) => {
            obs.class("world-invalid");
            return Ok(());
        }
    };
    let ready = match b.ready() {
        Ok(r) => r,
        Err(_) => {
            obs.class("world-not-ready");
            return Ok(());
        }
    };
    let base = *b.params.base_asset_id();
    let tx0 = b.checked.transaction().clone();
    let funds = tx_funds(&tx0, &base, b.max_fee_limit);
    let mirror = Mirror::new(&funds).ok_or_else(|| Failure::new("harness-funds", "initial free balance negative for a checked transaction"))?;
    let tracked: Vec<Id> = funds.tracked_assets().into_iter().collect();
    let table_len = b.params.tx_params().max_inputs() as usize * BALANCE_ENTRY;
    let mon = RefCell::new(Mon {
        initial: &b.storage,
        mirror,
        tracked: tracked.clone(),
        table_len,
        tx_id: *b.checked.id(),
        fail: None,
        fail_at: 0,
        n_receipts: 0,
        ctx: ledger::ZERO,
        depth: 0,
        op: None,
        steps: 0,
        max_depth: 0,
        forwards_in_call: 0,
        zero_gas_forward: false,
        calls: 0,
        moved_through_call: BTreeSet::new(),
        movement_then_failed: false,
    });
    // candidate pairs: every world contract (and the missing id) × every asset of the table
    {
        let mut m = mon.borrow_mut();
        for c in &b.cids {
            for a in &b.assets {
                m.load(c, a)?;
            }
        }
    }
    let mut vm = b.new_vm(b.storage.clone());
    let out = run_stepping(
        &mut vm,
        ready,
        b.gas_limit + 16,
        |s| {
            let mut m = mon.borrow_mut();
            if m.fail.is_none() {
                if let Err(f) = m.before(s) {
                    m.fail = Some(f);
                }
            }
        },
        |vm, ended| {
            let mut m = mon.borrow_mut();
            if m.fail.is_none() {
                if let Err(f) = m.after(vm, ended) {
                    m.fail = Some(f);
                    m.fail_at = m.steps;
                }
            }
        },
    );
    let out = out.map_err(|e| Failure::new("harness-step-budget", e))?;
    let mut mon = mon.into_inner();
    if let Some(f) = mon.fail.take() {
        // an instruction that ended the run with a VM error (no receipts, not a completed execution)
        // may have applied part of its effects: its step is not judged
        if out.state.is_err() && mon.fail_at == mon.steps && f.key.starts_with("mirror:") {
            obs.class("vm-error-step-not-judged");
        } else {
            return Err(f);
        }
    }
    crate::props::c32::classify_run(&out, obs);
    if out.state.is_err() {
        // the execution did not complete (VM error): no ledger to state
        return Ok(());
    }
    let (result, gas_used) = script_result(&out.receipts).ok_or_else(|| Failure::new("outcome:no-script-result", "completed execution without a trailing ScriptResult receipt"))?;
    let success = result == ScriptExecutionResult::Success;
    let refund = model_refund(&b, spec, gas_used)? as u128;
    let fee_charged = b.max_fee_limit as u128 - refund;

    // final outputs
    let mut change: BTreeMap<Id, u128> = BTreeMap::new();
    let mut variable: BTreeMap<Id, u128> = BTreeMap::new();
    let mut coin_out: BTreeMap<Id, u128> = BTreeMap::new();
    for o in out.tx.outputs() {
        match o {
            Output::Change { amount, asset_id, .. } => {
                ensure!(change.insert(**asset_id, *amount as u128).is_none(), "harness-two-change-outputs", "two change outputs for one asset");
            }
            Output::Variable { amount, asset_id, .. } => {
                if !success {
                    ensure!(*amount == 0, "failed:variable-output-not-zeroed", "variable output holds {amount} after {result:?}");
                }
                *variable.entry(**asset_id).or_insert(0) += *amount as u128;
            }
            Output::Coin { amount, asset_id, .. } => *coin_out.entry(**asset_id).or_insert(0) += *amount as u128,
            _ => {}
        }
    }
    ensure_eq!(coin_out, funds.coin_outputs, "outputs:coin-output-changed", "coin outputs of the final transaction vs the submitted one");
    if success {
        // TransferOut receipts ↔ variable outputs, per asset (zero-amount variable outputs carry the zero asset)
        let got: BTreeMap<Id, u128> = variable.iter().filter(|(_, v)| **v > 0).map(|(k, v)| (*k, *v)).collect();
        let want: BTreeMap<Id, u128> = mon.mirror.variable_out.iter().filter(|(_, v)| **v > 0).map(|(k, v)| (*k, *v)).collect();
        ensure_eq!(got, want, "receipt:transfer-out-vs-variable-outputs", "Σ variable outputs per asset vs Σ TransferOut receipts");
        mon.check_mirror(&vm, "final")?;
    }

    // (1) the ledger equation, per asset
    let mut assets: BTreeSet<Id> = tracked.iter().copied().collect();
    assets.extend(b.assets.iter().map(|a| **a));
    assets.extend(mon.mirror.contracts.keys().map(|(_, a)| *a));
    assets.extend(change.keys().copied());
    assets.extend(variable.keys().copied());
    let pairs: Vec<(Id, Id)> = mon.mirror.contracts.keys().copied().collect();
    for a in &assets {
        let is_base = *a == *base;
        let mut eq = Equation::default();
        eq.inputs = *funds.spendable.get(a).unwrap_or(&0) + if is_base && success { funds.retryable } else { 0 };
        eq.coin_outputs = *coin_out.get(a).unwrap_or(&0);
        eq.variable_outputs = *variable.get(a).unwrap_or(&0);
        eq.change = *change.get(a).unwrap_or(&0);
        for (c, pa) in &pairs {
            if pa == a {
                let before = stored(&b.storage, c, a)? as u128;
                eq.contracts_before += before;
                // a failed transaction is discarded by the client: the storage that counts is the initial one
                eq.contracts_after += if success { stored(vm.as_ref(), c, a)? as u128 } else { before };
            }
        }
        if success {
            eq.minted = *mon.mirror.minted.get(a).unwrap_or(&0);
            eq.burned = *mon.mirror.burned.get(a).unwrap_or(&0);
        }
        if is_base {
            eq.fee_charged = fee_charged;
            if success {
                eq.messages_out = mon.mirror.message_out;
            }
        }
        if !change.contains_key(a) {
            // nobody claims what is left: the VM's final free balance (success) / the initial one (failure)
            let left = if success { vm.verif_runtime_balance(&AssetId::from(*a)).unwrap_or(0) as u128 } else { funds.initial_free(a, false).unwrap_or(0) };
            eq.unclaimed = left + if is_base { refund } else { 0 };
        }
        if !eq.holds() {
            let key = format!("ledger:not-conserved:{}:{}:{}", if success { "success" } else { "failed" }, if is_base { "base" } else { "non-base" }, if change.contains_key(a) { "change" } else { "no-change" });
            fail!(key, "asset {}: sources {} != sinks {} :: {eq:?} (refund {refund}, gas_used {gas_used})", hex::encode(a), eq.sources(), eq.sinks());
        }
    }

    // classes
    let moved = mon.mirror.moved_assets.len();
    obs.class(&format!("moved-assets:{}", moved.min(3)));
    if mon.calls > 0 && moved >= 2 {
        obs.class("2+assets-moved,1+call");
        let sig: Vec<String> = out.receipts.iter().filter_map(|r| movement_of(r, &base).map(|(m, _)| format!("{m:?}"))).collect();
        obs.nontrivial(&(sig, success));
    }
    if mon.moved_through_call.len() >= 2 {
        obs.class("2+assets-forwarded-by-calls");
    }
    if mon.forwards_in_call > 0 {
        obs.class("coins-forwarded-by-nested-call");
    }
    if mon.zero_gas_forward {
        obs.class("call-forwards-coins-with-zero-gas");
    }
    if mon.max_depth >= 2 {
        obs.class("depth>=2");
    }
    if !mon.mirror.minted.is_empty() && !mon.mirror.burned.is_empty() {
        obs.class("mint+burn");
    }
    if mon.mirror.message_out > 0 {
        obs.class("smo-with-coins");
    }
    if !success && mon.mirror.movements > 0 {
        obs.class("failed-after-movement");
    }
    if success && mon.mirror.movements > 0 {
        obs.class("success-with-movement");
    }
    if funds.retryable > 0 {
        obs.class(if success { "message-data:success" } else { "message-data:failed" });
    }
    if success && assets.iter().any(|a| !change.contains_key(a) && vm.verif_runtime_balance(&AssetId::from(*a)).unwrap_or(0) > 0) {
        obs.class("unclaimed-balance");
    }
    if let Some(Receipt::Panic { reason, .. }) = out.receipts.iter().rev().nth(1) {
        if matches!(reason.reason(), fuel_asm::PanicReason::NotEnoughBalance | fuel_asm::PanicReason::ContractNotInInputs) {
            obs.class(&format!("{:?}@op{:02x}:{}", reason.reason(), mon.op.unwrap_or(0), if mon.ctx == ledger::ZERO { "script" } else { "contract" }));
        }
    }
    obs.note("steps", mon.steps);
    obs.note("movements", mon.mirror.movements);
    Ok(())
}

// ------------------------------------------------------------------ generator

pub const W_ASSET: prog::Weights = prog::Weights([2, 2, 2, 12, 6, 1, 1, 1, 1, 1]);

/// amounts are small against the balances the world hands out, so that programs get deep;
/// zero (TransferZeroCoins), generated words and large immediates stay reachable
fn amount() -> BoxedStrategy<Val> {
    prop_oneof![
        300 => (1u32..13).prop_map(Val::Imm),
        2 => Just(Val::Imm(0)),
        1 => (0u8..8).prop_map(Val::Word),
        1 => (0u32..0x40000).prop_map(Val::Imm),
    ]
    .boxed()
}
/// index into the asset table: 0 base, 1..=2 plain, 3.. minted assets (sub id = key 0), beyond = wrap / one past
fn asset_sel(contract: bool) -> BoxedStrategy<u8> {
    if contract {
        prop_oneof![8 => Just(0u8), 6 => Just(1u8), 6 => Just(2u8), 4 => 3u8..6, 1 => 6u8..11].boxed()
    } else {
        prop_oneof![12 => Just(0u8), 9 => Just(1u8), 9 => Just(2u8), 1 => 3u8..11].boxed()
    }
}

pub fn asset_tpl(contract: bool) -> BoxedStrategy<Tpl> {
    let good = || (prop_oneof![Just(Base::HeapA), Just(Base::HeapB), Just(Base::Stack)], 0i16..16).prop_map(|(base, o)| Ptr { base, off: o * 8 });
    let sub = || prop_oneof![8 => Just(0u8), 1 => Just(1u8), 1 => Just(2u8)];
    let mut v: Vec<(u32, BoxedStrategy<Tpl>)> = vec![
        (6, (0u8..4, amount(), asset_sel(contract)).prop_map(|(cid, amount, asset)| Tpl::Tr { cid, amount, asset }).boxed()),
        (3, (0u8..2, (0u8..4).prop_map(Val::VarOut), amount(), asset_sel(contract)).prop_map(|(addr, out, amount, asset)| Tpl::Tro { addr, out, amount, asset }).boxed()),
        (3, (0u8..2, good(), (0u32..40).prop_map(Val::Imm), amount()).prop_map(|(addr, p, len, coins)| Tpl::Smo { addr, p, len, coins }).boxed()),
        (1, (0x20u8..0x30, asset_sel(contract), 0u8..4).prop_map(|(d, asset, cid)| Tpl::Bal { d, asset, cid }).boxed()),
    ];
    if contract {
        v.push((6, (prop_oneof![120 => (0u32..60).prop_map(Val::Imm), 1 => (0u8..8).prop_map(Val::Word), 1 => Just(Val::Max)], sub()).prop_map(|(amount, sub)| Tpl::Mint { amount, sub }).boxed()));
        v.push((2, (prop_oneof![100 => (0u32..8).prop_map(Val::Imm), 1 => (0u8..8).prop_map(Val::Word)], sub()).prop_map(|(amount, sub)| Tpl::Burn { amount, sub }).boxed()));
    }
    proptest::strategy::Union::new_weighted(v).boxed()
}

pub fn coin_call_tpl(contract: bool) -> BoxedStrategy<Tpl> {
    (
        0u8..4,
        prop_oneof![30 => Just(Val::Imm(0)), 80 => (1u32..13).prop_map(Val::Imm), 1 => (0u8..8).prop_map(Val::Word)],
        asset_sel(contract),
        prop_oneof![12 => Just(Val::Reg(RegId::CGAS.to_u8())), 4 => Just(Val::Max), 1 => Just(Val::Imm(0)), 3 => (500u32..6000).prop_map(Val::Imm), 1 => (1u32..50).prop_map(Val::Imm)],
    )
        .prop_map(|(call, coins, asset, gas)| Tpl::Call { call, coins, asset, gas })
        .boxed()
}

pub fn asset_body(contract: bool, max: usize) -> impl Strategy<Value = Vec<Tpl>> {
    (prop::collection::vec(prop_oneof![6 => asset_tpl(contract), 3 => coin_call_tpl(contract), 3 => prog::tpl(W_ASSET, contract, 2)], 0..=max), prog::end_tpl(false)).prop_map(|(mut b, e)| {
        b.push(e);
        b
    })
}

/// every TRO gets its own variable output (script first, then contracts); TROs beyond the
/// available outputs become TRs (a second TRO into a used output panics with OutputNotFound,
/// which stays reachable through loops and the wild templates)
fn assign_variable_outputs(w: &mut WorldSpec) {
    let n = w.variables.min(4) as u32;
    let mut next = 0u32;
    let mut fix = |body: &mut Vec<Tpl>| {
        for t in body.iter_mut() {
            if let Tpl::Tro { addr, out, amount, asset } = t.clone() {
                if matches!(out, Val::VarOut(_)) {
                    if next < n {
                        *t = Tpl::Tro { addr, out: Val::VarOut(next as u8), amount, asset };
                        next += 1;
                    } else {
                        *t = Tpl::Tr { cid: addr, amount, asset };
                    }
                }
            }
        }
    };
    fix(&mut w.script);
    for c in w.contracts.iter_mut() {
        fix(&mut c.body);
    }
}

fn balance() -> BoxedStrategy<u64> {
    prop_oneof![12 => 150u64..4000, 1 => 0u64..20, 1 => crate::gens::word()].boxed()
}

pub fn asset_world() -> impl Strategy<Value = WorldSpec> {
    (
        world::world(W_ASSET, 4, 3),
        asset_body(false, 20),
        // contract bodies, balances per table asset (base, two plain, three minted), listed
        prop::collection::vec((asset_body(true, 14), prop::collection::vec(prop::option::weighted(0.9, balance()), 6), prop::bool::weighted(0.97)), 3),
        // coin inputs in the two plain non-base assets (each present with probability 0.8, sometimes twice)
        (prop::option::weighted(0.8, balance()), prop::option::weighted(0.8, balance()), prop::option::weighted(0.2, (0u8..2, balance()))),
        // change outputs per asset, variable outputs, gas budget, number of contracts
        (prop::collection::vec(prop::bool::weighted(0.6), 3), prop_oneof![1 => Just(0u8), 1 => 1u8..4, 6 => Just(4u8)], prop_oneof![1 => 0u64..1000, 12 => 2000u64..30_000], prop_oneof![1 => Just(0usize), 6 => Just(1usize), 8 => Just(2usize), 6 => Just(3usize)]),
        // tidy: the script only spends assets it has inputs for, Call structs target existing contracts
        prop::bool::weighted(0.85),
    )
        .prop_map(|(mut w, script, contracts, (c1, c2, c3), (change, variables, gas_limit, n_contracts), tidy)| {
            w.script = script;
            w.contracts = contracts
                .into_iter()
                .take(n_contracts)
                .enumerate()
                .map(|(i, (body, bal, listed))| {
                    let slots = w.contracts.get(i).map(|c| c.slots.clone()).unwrap_or_default();
                    world::ContractSpec { body, balances: bal.into_iter().enumerate().filter_map(|(a, v)| v.map(|v| (a as u8, v))).collect(), slots, listed }
                })
                .collect();
            w.coins = vec![];
            if let Some(v) = c1 {
                w.coins.push((0, v));
            }
            if let Some(v) = c2 {
                w.coins.push((1, v));
            }
            if let Some(c) = c3 {
                w.coins.push(c);
            }
            w.change = change.iter().enumerate().filter(|(_, on)| **on).map(|(i, _)| i as u8).collect();
            w.variables = variables;
            w.gas_limit = gas_limit;
            if w.base_extra < 300 {
                w.base_extra += 300;
            }
            assign_variable_outputs(&mut w);
            if tidy {
                let has = |ai: u8| ai == 0 || w.coins.iter().any(|(c, _)| 1 + (*c % 2) == ai);
                let avail: Vec<u8> = (0u8..3).filter(|a| has(*a)).collect();
                let remap = |a: u8| if a < 3 && !has(a) { avail[(a as usize) % avail.len()] } else { a };
                for t in w.script.iter_mut() {
                    match t {
                        Tpl::Tr { asset, .. } | Tpl::Tro { asset, .. } | Tpl::Call { asset, .. } => *asset = remap(*asset),
                        _ => {}
                    }
                }
                let n = w.contracts.len().max(1) as u8;
                for c in w.calls.iter_mut() {
                    c.0 %= n;
                }
            }
            w
        })
}

pub fn property() -> Property {
    Property {
        id: "C27",
        rule: "asset-heavy G-PROG worlds (script and 0..3 contracts dominated by TR/TRO/SMO/MINT/BURN and CALL forwarding coins with gas in {cgas, max, 0, small}; 0..4 coin inputs over 3 plain assets, minted assets, message-coin and message-data inputs, change present or absent per asset, variable and coin outputs) are single-stepped; a receipt-driven mirror of free and contract balances is compared with storage, RuntimeBalances (hook) and the in-memory balance table after every instruction, and the per-asset conservation equation is evaluated in u128 on the final transaction and storage (initial storage for failed runs). Non-trivial = run with >=1 call moving >=2 distinct assets; distinct by the sequence of movements and the outcome".into(),
        assumptions: vec![
            "single-stepping does not change results (C32)".into(),
            "min_gas is taken from the transaction under test (C18 judges it); the refund is recomputed by model::fee from gas_used of the ScriptResult receipt".into(),
            "contract balances are enumerated over world contracts × (asset table ∪ assets named by receipts); MemoryStorage offers no iterator over balances".into(),
            "read-only hooks verif_runtime_balance / verif_call_stack_ids report the interpreter's fields faithfully".into(),
            "RustCrypto sha2 (minted asset id = sha256(contract ‖ sub id))".into(),
        ],
        parts: vec![gen_part("ledger", "asset-heavy world", (5_000, 150_000), |_c: &Ctx| asset_world().prop_map(|world| Case { world }), check)],
        floors: vec![("ledger", "2+assets-moved,1+call", 0.15), ("ledger", "has-call", 0.30), ("ledger", "result:Success", 0.08)],
    }
}
