//! C11 — Binary Merkle trees behave like fresh trees across reset and reload.
use crate::engine::*;
use crate::gens::{pick, small_bytes};
use crate::model::rfc6962 as rf;
use crate::{ensure, ensure_eq};
use fuel_merkle::binary::{self, in_memory};
use fuel_merkle::common::StorageMap;
use proptest::prelude::*;
use serde::{Deserialize, Serialize};

#[derive(Debug, Clone, Serialize, Deserialize)]
pub enum Op {
    Push(Vec<u8>),
    Reset,
    Prove(u16),
    Reload(u16),
}

fn op() -> impl Strategy<Value = Op> {
    prop_oneof![
        6 => small_bytes().prop_map(Op::Push),
        1 => Just(Op::Reset),
        3 => any::<u16>().prop_map(Op::Prove),
        1 => any::<u16>().prop_map(Op::Reload),
    ]
}

fn history(max: usize) -> impl Strategy<Value = Vec<Op>> {
    prop::collection::vec(op(), 0..max)
}

fn check_state(
    what: &str,
    model: &[Vec<u8>],
    root: [u8; 32],
    count: Option<u64>,
    prove: &dyn Fn(u64) -> Option<([u8; 32], Vec<[u8; 32]>)>,
    probe: &[u64],
) -> Check {
    let want = rf::mth(model);
    ensure_eq!(root, want, format!("{what}:root"), "root differs from fresh tree over {} leaves", model.len());
    if let Some(c) = count {
        ensure_eq!(c, model.len() as u64, format!("{what}:leaves_count"), "leaf count");
    }
    for &i in probe {
        let got = prove(i);
        if (i as usize) < model.len() {
            let Some((r, set)) = got else {
                return Err(Failure::new(format!("{what}:prove-refused"), format!("prove({i}) refused with {} leaves", model.len())));
            };
            ensure_eq!(r, want, format!("{what}:prove-root"), "prove({i}) root");
            let p = rf::audit_path(i as usize, model);
            ensure_eq!(set, p, format!("{what}:prove-path"), "prove({i}) path with {} leaves", model.len());
            ensure!(
                binary::verify(&r, &model[i as usize], &set, i, model.len() as u64),
                format!("{what}:proof-does-not-verify"),
                "proof for {i} of {} does not verify", model.len()
            );
        } else {
            ensure!(got.is_none(), format!("{what}:prove-beyond-count"), "prove({i}) accepted with only {} leaves", model.len());
        }
    }
    Ok(())
}

fn classify(ops: &[Op], obs: &mut Obs) {
    // non-trivial: push after a reset or reload, later followed by a prove
    let mut seen_rr = false;
    let mut push_after = false;
    let mut nt = false;
    let mut sig = Vec::new();
    for o in ops {
        match o {
            Op::Reset => { seen_rr = true; sig.push(0u8); obs.class("has-reset"); }
            Op::Reload(_) => { seen_rr = true; sig.push(1); obs.class("has-reload"); }
            Op::Push(b) => { if seen_rr { push_after = true; } sig.push(2 + (b.len() % 8) as u8); }
            Op::Prove(s) => { if push_after { nt = true; } sig.push(10 + (*s >> 13) as u8); }
        }
    }
    if nt {
        obs.class("push-after-reset/reload-then-prove");
        obs.nontrivial(&sig);
    }
}

fn run_storage(ops: &Vec<Op>, obs: &mut Obs) -> Check {
    classify(ops, obs);
    type T<'a> = binary::MerkleTree<in_memory::NodesTable, &'a mut StorageMap<in_memory::NodesTable>>;
    let mut storage = StorageMap::<in_memory::NodesTable>::new();
    let mut model: Vec<Vec<u8>> = vec![];
    let mut tree: T = binary::MerkleTree::new(&mut storage);
    for (step, o) in ops.iter().enumerate() {
        let mut probe: Vec<u64> = vec![];
        match o {
            Op::Push(b) => {
                tree.push(b).map_err(|e| Failure::new("storage:push-error", format!("{e:?}")))?;
                model.push(b.clone());
            }
            Op::Reset => {
                tree.reset();
                model.clear();
            }
            Op::Prove(s) => probe.push(pick(*s, model.len() + 2) as u64),
            Op::Reload(s) => {
                let k = pick(*s, model.len() + 1);
                drop(tree);
                tree = match binary::MerkleTree::load(&mut storage, k as u64) {
                    Ok(t) => t,
                    Err(e) => return Err(Failure::new("storage:load-error", format!("load at {k} of {} failed: {e:?} (step {step})", model.len()))),
                };
                model.truncate(k);
            }
        }
        probe.push(model.len() as u64);
        if !model.is_empty() {
            probe.push(model.len() as u64 - 1);
            probe.push(0);
        }
        let t = &tree;
        check_state("storage", &model, t.root(), Some(t.leaves_count()), &|i| t.prove(i).ok(), &probe)
            .map_err(|f| Failure::new(f.key, format!("step {step} ({o:?}): {}", f.msg)))?;
    }
    Ok(())
}

fn run_inmem(ops: &Vec<Op>, obs: &mut Obs) -> Check {
    classify(ops, obs);
    let mut tree = in_memory::MerkleTree::new();
    let mut model: Vec<Vec<u8>> = vec![];
    for (step, o) in ops.iter().enumerate() {
        let mut probe: Vec<u64> = vec![];
        match o {
            Op::Push(b) => {
                tree.push(b);
                model.push(b.clone());
            }
            Op::Reset => {
                tree.reset();
                model.clear();
            }
            Op::Prove(s) => probe.push(pick(*s, model.len() + 2) as u64),
            Op::Reload(_) => {
                // the in-memory tree cannot be reloaded; a clone must behave identically
                tree = tree.clone();
            }
        }
        probe.push(model.len() as u64);
        if !model.is_empty() {
            probe.push(model.len() as u64 - 1);
        }
        let t = &tree;
        check_state("inmem", &model, t.root(), None, &|i| t.prove(i), &probe)
            .map_err(|f| Failure::new(f.key, format!("step {step} ({o:?}): {}", f.msg)))?;
    }
    Ok(())
}

pub fn property() -> Property {
    Property {
        id: "C11",
        rule: "histories vec(Op,0..40|120) of Push(bytes)/Reset/Prove(idx incl. >= count)/Reload(k<=count) run on the storage-backed and in-memory binary trees in lock-step with a Vec<leaf> model; after every op root, leaf count, proofs (vs RFC 6962 audit path) and refusal beyond count are compared. Non-trivial = history with a push after a reset or reload followed by a prove; distinct by op-kind/length-class signature".into(),
        assumptions: vec!["sha2 crate is correct".into(), "model::rfc6962 is the RFC 6962 tree hash / audit path".into()],
        parts: vec![
            gen_part("storage-tree", "storage-backed tree, with load(storage,k)", (80_000, 3_000_000), |c: &Ctx| history(c.tier.pick(40, 120)), run_storage),
            gen_part("inmem-tree", "in-memory tree", (80_000, 3_000_000), |c: &Ctx| history(c.tier.pick(40, 120)), run_inmem),
        ],
        floors: vec![("storage-tree", "push-after-reset/reload-then-prove", 0.15)],
    }
}
