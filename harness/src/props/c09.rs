//! C09 — Binary Merkle roots equal the RFC 6962 tree hash.
//!
//! Oracle: `model::rfc6962::mth` (recursive definition, split at the largest power of two < n).
//! Implementations compared (each with its own failure key):
//!   MerkleRootCalculator push…root (and the root after *every* push for small n),
//!   MerkleRootCalculator::root_from_iterator, new_from_existing_leaves(leaf hashes),
//!   new_with_stack(stack()), binary::in_memory::MerkleTree, binary::MerkleTree over a StorageMap,
//!   fuel_vm::crypto::ephemeral_merkle_root, ReceiptsCtx (push / From<Vec> / lock+mutate / clear),
//!   Interpreter::compute_receipts_root, and the `receipts_root` a real script execution leaves
//!   in the transaction.
use crate::engine::*;
use crate::gens::{bytes_lc, pick};
use crate::model::rfc6962 as rf;
use crate::{ensure, ensure_eq};
use fuel_merkle::binary::root_calculator::MerkleRootCalculator;
use fuel_merkle::binary::{self, in_memory};
use fuel_merkle::common::StorageMap;
use fuel_vm::fuel_asm::{op, PanicInstruction, PanicReason, RegId};
use fuel_vm::fuel_tx::field::ReceiptsRoot;
use fuel_vm::fuel_tx::{Receipt, ScriptExecutionResult, TransactionBuilder};
use fuel_vm::fuel_types::canonical::Serialize as _;
use fuel_vm::checked_transaction::builder::TransactionBuilderExt;
use fuel_vm::fuel_types::{Address, AssetId, Bytes32, ContractId, Nonce, SubAssetId};
use fuel_vm::interpreter::ReceiptsCtx;
use fuel_vm::prelude::{Interpreter, MemoryClient, Script};
use proptest::prelude::*;
use serde::{Deserialize, Serialize};

// ---------------------------------------------------------------- deterministic content

fn splitmix(x: &mut u64) -> u64 {
    *x = x.wrapping_add(0x9E37_79B9_7F4A_7C15);
    let mut z = *x;
    z = (z ^ (z >> 30)).wrapping_mul(0xBF58_476D_1CE4_E5B9);
    z = (z ^ (z >> 27)).wrapping_mul(0x94D0_49BB_1331_11EB);
    z ^ (z >> 31)
}

pub(crate) fn fill(seed: u64, len: usize) -> Vec<u8> {
    let mut s = seed;
    let mut v = Vec::with_capacity(len + 8);
    while v.len() < len {
        v.extend_from_slice(&splitmix(&mut s).to_le_bytes());
    }
    v.truncate(len);
    v
}

#[derive(Debug, Clone, Copy, PartialEq, Eq, Hash, Serialize, Deserialize)]
pub enum Kind {
    /// every leaf is the empty string
    Empty,
    /// one byte per leaf
    One,
    B31,
    B32,
    B33,
    /// 1 KiB per leaf
    Kib,
    /// all leaves identical (length from the seed, 0..70)
    Equal,
    /// leaf j = j as 8 big-endian bytes (all distinct: order errors are visible)
    Index,
    /// pseudo-random lengths 0..=63 (every size class mod 64), pseudo-random bytes
    Mixed,
}

const KINDS: [Kind; 9] =
    [Kind::Empty, Kind::One, Kind::B31, Kind::B32, Kind::B33, Kind::Kib, Kind::Equal, Kind::Index, Kind::Mixed];

fn kind_name(k: Kind) -> &'static str {
    match k {
        Kind::Empty => "leaves:empty",
        Kind::One => "leaves:1B",
        Kind::B31 => "leaves:31B",
        Kind::B32 => "leaves:32B",
        Kind::B33 => "leaves:33B",
        Kind::Kib => "leaves:1KiB",
        Kind::Equal => "leaves:all-equal",
        Kind::Index => "leaves:index",
        Kind::Mixed => "leaves:mixed-0..63B",
    }
}

fn leaf(kind: Kind, seed: u64, j: u64) -> Vec<u8> {
    let js = seed ^ j.wrapping_mul(0xD6E8_FEB8_6659_FD93);
    match kind {
        Kind::Empty => vec![],
        Kind::One => fill(js, 1),
        Kind::B31 => fill(js, 31),
        Kind::B32 => fill(js, 32),
        Kind::B33 => fill(js, 33),
        Kind::Kib => fill(js, 1024),
        Kind::Equal => fill(seed, (seed % 70) as usize),
        Kind::Index => j.to_be_bytes().to_vec(),
        Kind::Mixed => {
            let mut s = js;
            let len = (splitmix(&mut s) % 64) as usize;
            fill(s, len)
        }
    }
}

#[derive(Debug, Clone, Serialize, Deserialize)]
pub struct CountCase {
    pub n: u32,
    pub kind: Kind,
    pub seed: u64,
}

// ---------------------------------------------------------------- the comparison

type StorageTree = binary::MerkleTree<in_memory::NodesTable, StorageMap<in_memory::NodesTable>>;

fn nontrivial_n(n: usize) -> bool {
    n >= 3 && !n.is_power_of_two()
}

/// Compare every implementation with the reference on one leaf sequence.
/// `prefixes`: also compare the root after every single push (quadratic; small n only).
fn check_all(leaves: &[Vec<u8>], prefixes: bool, obs: &mut Obs) -> Check {
    let n = leaves.len();
    let hashes: Vec<rf::H> = leaves.iter().map(|l| rf::leaf_hash(l)).collect();
    let want = rf::mth_hashed(&hashes);
    if n == 0 {
        ensure_eq!(want, rf::empty(), "harness-model-empty", "model self-check");
        ensure_eq!(*StorageTree::empty_root(), want, "storage:empty_root", "MerkleTree::empty_root()");
    }

    // leaf hash helper (domain separation 0x00)
    for j in [0usize, n / 2, n.saturating_sub(1)] {
        if j < n {
            ensure_eq!(binary::leaf_sum(&leaves[j]), hashes[j], "hash:leaf_sum", "leaf_sum of leaf {j} ({} bytes)", leaves[j].len());
        }
    }

    // 1. streaming calculator, push … root
    let mut calc = MerkleRootCalculator::new();
    let mut inmem = in_memory::MerkleTree::new();
    let mut st: StorageTree = binary::MerkleTree::new(StorageMap::new());
    if prefixes {
        ensure_eq!(calc.clone().root(), rf::empty(), "calc-push:prefix-root", "root of 0 leaves");
    }
    for (j, l) in leaves.iter().enumerate() {
        calc.push(l);
        inmem.push(l);
        st.push(l).map_err(|e| Failure::new("storage:push-error", format!("push #{j}: {e:?}")))?;
        if prefixes {
            let w = rf::mth_hashed(&hashes[..=j]);
            ensure_eq!(calc.clone().root(), w, "calc-push:prefix-root", "calculator root after {} of {n} pushes", j + 1);
            ensure_eq!(inmem.root(), w, "inmem:prefix-root", "in-memory root after {} of {n} pushes", j + 1);
            ensure_eq!(st.root(), w, "storage:prefix-root", "storage tree root after {} of {n} pushes", j + 1);
        }
    }
    ensure_eq!(calc.clone().root(), want, "calc-push:root", "MerkleRootCalculator push×{n} root");
    // a cleared calculator / reset tree is a fresh one: re-use after n leaves for a shorter sequence
    if n >= 1 {
        let m = (n * 2 / 3).max(1).min(n);
        let wm = rf::mth_hashed(&hashes[..m]);
        let mut c2 = calc.clone();
        c2.clear();
        let mut i2 = inmem.clone();
        i2.reset();
        for l in &leaves[..m] {
            c2.push(l);
            i2.push(l);
        }
        ensure_eq!(c2.root(), wm, "calc-clear:reuse-root", "calculator: {n} pushes, clear(), {m} pushes");
        ensure_eq!(i2.root(), wm, "inmem-reset:reuse-root", "in-memory tree: {n} pushes, reset(), {m} pushes");
    }
    // the peaks alone determine the root
    ensure_eq!(
        MerkleRootCalculator::new_with_stack(calc.stack().clone()).root(),
        want,
        "calc-stack:root",
        "new_with_stack(stack()) root, n={n}"
    );
    ensure_eq!(calc.stack().len() as u32, (n as u64).count_ones(), "calc-push:peaks", "number of peaks for n={n}");

    // 2. root_from_iterator
    ensure_eq!(
        MerkleRootCalculator::new().root_from_iterator(leaves.iter()),
        want,
        "calc-iter:root",
        "root_from_iterator n={n}"
    );
    // 3. rebuilt from leaf hashes (hashes from the harness model)
    ensure_eq!(
        MerkleRootCalculator::new_from_existing_leaves(hashes.iter().copied()).root(),
        want,
        "calc-hashes:root",
        "new_from_existing_leaves n={n}"
    );
    // 4. in-memory tree
    ensure_eq!(inmem.root(), want, "inmem:root", "in_memory::MerkleTree root n={n}");
    // 5. storage-backed tree
    ensure_eq!(st.root(), want, "storage:root", "binary::MerkleTree root n={n}");
    ensure_eq!(st.leaves_count(), n as u64, "storage:leaves_count", "leaves_count n={n}");
    // 6. VM helper
    let e: Bytes32 = fuel_vm::crypto::ephemeral_merkle_root(leaves.iter());
    ensure_eq!(*e, want, "vm-ephemeral:root", "ephemeral_merkle_root n={n}");

    obs.class(if n == 0 {
        "n=0"
    } else if n.is_power_of_two() {
        "n=2^k"
    } else if (n + 1).is_power_of_two() {
        "n=2^k-1"
    } else if (n - 1).is_power_of_two() {
        "n=2^k+1"
    } else {
        "n=other"
    });
    Ok(())
}

fn run_count(c: &CountCase, obs: &mut Obs) -> Check {
    let n = c.n as usize;
    let leaves: Vec<Vec<u8>> = (0..n as u64).map(|j| leaf(c.kind, c.seed, j)).collect();
    obs.class(kind_name(c.kind));
    if nontrivial_n(n) {
        obs.nontrivial(&(c.n, c.kind));
    }
    check_all(&leaves, n <= 48, obs)
}

fn run_explicit(leaves: &Vec<Vec<u8>>, obs: &mut Obs) -> Check {
    let n = leaves.len();
    if leaves.iter().any(|l| l.is_empty()) {
        obs.class("has-empty-leaf");
    }
    if n >= 2 && leaves.windows(2).any(|w| w[0] == w[1]) {
        obs.class("has-adjacent-equal-leaves");
    }
    if nontrivial_n(n) {
        obs.class("n>=3-not-2^k");
        let sig: Vec<u64> = leaves.iter().map(|l| hash64(l)).collect();
        obs.nontrivial(&sig);
    }
    check_all(leaves, true, obs)
}

/// dense 0..=dense, then 2^k-1, 2^k, 2^k+1 for dense < 2^k <= 2^pow
pub(crate) fn count_lattice(dense: u32, pow: u32) -> Vec<u32> {
    let mut v: Vec<u32> = (0..=dense).collect();
    for k in 1..=pow {
        for d in [-1i64, 0, 1] {
            let c = ((1i64 << k) + d) as u32;
            if c > dense {
                v.push(c);
            }
        }
    }
    v.sort();
    v.dedup();
    v
}

fn enumerate_counts(ctx: &Ctx, shard: usize, nshards: usize, sink: &mut dyn FnMut(CountCase) -> bool) {
    let (dense, pow, kib_max) = ctx.tier.pick((1024u32, 13u32, 300u32), (6000, 17, 1500));
    let mut idx = 0usize;
    for n in count_lattice(dense, pow) {
        for (ki, kind) in KINDS.iter().enumerate() {
            if *kind == Kind::Kib && n > kib_max && n > 2 {
                // 1 KiB leaves only up to kib_max and at the 2^k±1 points <= 2^12
                if !(n <= 4097 && (n.is_power_of_two() || (n + 1).is_power_of_two() || (n - 1).is_power_of_two())) {
                    continue;
                }
            }
            idx += 1;
            if idx % nshards != shard {
                continue;
            }
            let mut s = ctx.seed ^ ((n as u64) << 8) ^ ki as u64;
            let seed = splitmix(&mut s);
            if !sink(CountCase { n, kind: *kind, seed }) {
                return;
            }
        }
    }
}

// ---------------------------------------------------------------- receipts

#[derive(Debug, Clone, Serialize, Deserialize)]
pub struct RSpec {
    pub kind: u8,
    pub seed: u64,
    pub data: Vec<u8>,
}

fn b32(s: &mut u64) -> [u8; 32] {
    let mut a = [0u8; 32];
    for c in a.chunks_mut(8) {
        c.copy_from_slice(&splitmix(s).to_le_bytes());
    }
    a
}

fn w(s: &mut u64) -> u64 {
    match splitmix(s) % 6 {
        0 => 0,
        1 => u64::MAX,
        2 => splitmix(s) % 1000,
        _ => splitmix(s),
    }
}

pub(crate) fn receipt(r: &RSpec) -> Receipt {
    let mut s = r.seed;
    let s = &mut s;
    let id = ContractId::new(b32(s));
    match r.kind % 13 {
        0 => Receipt::call(id, ContractId::new(b32(s)), w(s), AssetId::new(b32(s)), w(s), w(s), w(s), w(s), w(s)),
        1 => Receipt::ret(id, w(s), w(s), w(s)),
        2 => Receipt::return_data(id, w(s), w(s), w(s), r.data.clone()),
        3 => {
            let p = Receipt::panic(id, PanicInstruction::error(PanicReason::from((splitmix(s) % 64) as u8), splitmix(s) as u32), w(s), w(s));
            if splitmix(s) & 1 == 1 { p.with_panic_contract_id(Some(ContractId::new(b32(s)))) } else { p }
        }
        4 => Receipt::revert(id, w(s), w(s), w(s)),
        5 => Receipt::log(id, w(s), w(s), w(s), w(s), w(s), w(s)),
        6 => Receipt::log_data(id, w(s), w(s), w(s), w(s), w(s), r.data.clone()),
        7 => Receipt::transfer(id, ContractId::new(b32(s)), w(s), AssetId::new(b32(s)), w(s), w(s)),
        8 => Receipt::transfer_out(id, Address::new(b32(s)), w(s), AssetId::new(b32(s)), w(s), w(s)),
        9 => {
            let res = match splitmix(s) % 4 {
                0 => ScriptExecutionResult::Success,
                1 => ScriptExecutionResult::Revert,
                2 => ScriptExecutionResult::Panic,
                _ => ScriptExecutionResult::GenericFailure(4 + splitmix(s) % 1000),
            };
            Receipt::script_result(res, w(s))
        }
        10 => Receipt::message_out_with_len(
            Address::new(b32(s)),
            Address::new(b32(s)),
            w(s),
            Nonce::new(b32(s)),
            r.data.len() as u64,
            Bytes32::new(b32(s)),
            Some(r.data.clone()),
        ),
        11 => Receipt::mint(SubAssetId::new(b32(s)), id, w(s), w(s), w(s)),
        _ => Receipt::burn(SubAssetId::new(b32(s)), id, w(s), w(s), w(s)),
    }
}

#[derive(Debug, Clone, Serialize, Deserialize)]
pub struct ReceiptsCase {
    /// pattern, cycled to `count` receipts
    pub specs: Vec<RSpec>,
    pub count: u32,
    /// where the externally mutated list is truncated (selector into 0..=count)
    pub cut: u16,
}

fn rspec() -> impl Strategy<Value = RSpec> {
    (0u8..13, any::<u64>(), bytes_lc()).prop_map(|(kind, seed, data)| RSpec { kind, seed, data })
}

fn receipts_case(max_dense: u32, pow: u32) -> impl Strategy<Value = ReceiptsCase> {
    let lattice = count_lattice(0, pow);
    (
        prop::collection::vec(rspec(), 1..=13),
        prop_oneof![
            6 => 0u32..=max_dense,
            2 => prop::sample::select(lattice),
        ],
        any::<u16>(),
    )
        .prop_map(|(specs, count, cut)| ReceiptsCase { specs, count, cut })
}

fn run_receipts(c: &ReceiptsCase, obs: &mut Obs) -> Check {
    let n = c.count as usize;
    ensure!(!c.specs.is_empty(), "harness-empty-pattern", "empty receipt pattern");
    let pattern: Vec<Receipt> = c.specs.iter().map(receipt).collect();
    let receipts: Vec<Receipt> = (0..n).map(|j| pattern[j % pattern.len()].clone()).collect();
    let leaves: Vec<Vec<u8>> = receipts.iter().map(|r| r.to_bytes()).collect();
    let hashes: Vec<rf::H> = leaves.iter().map(|l| rf::leaf_hash(l)).collect();
    let want = rf::mth_hashed(&hashes);
    let mut kinds = 0u16;
    for s in &c.specs {
        kinds |= 1 << (s.kind % 13);
    }
    obs.class(&format!("receipt-kinds-in-pattern={:02}", kinds.count_ones()));
    if nontrivial_n(n) {
        obs.class("n>=3-not-2^k");
        obs.nontrivial(&(c.count, kinds, pattern.len()));
    }

    let mut ctx = ReceiptsCtx::default();
    ensure_eq!(*ctx.root(), rf::empty(), "receipts-ctx:empty-root", "fresh ReceiptsCtx root");
    for (j, r) in receipts.iter().enumerate() {
        ctx.push(r.clone()).map_err(|e| Failure::new("receipts-ctx:push-refused", format!("push #{j} of {n}: {e:?}")))?;
        if n <= 40 {
            ensure_eq!(*ctx.root(), rf::mth_hashed(&hashes[..=j]), "receipts-ctx:prefix-root", "root after {} of {n} receipts", j + 1);
        }
    }
    ensure_eq!(ctx.len(), n, "receipts-ctx:len", "len");
    ensure_eq!(*ctx.root(), want, "receipts-ctx:root", "ReceiptsCtx root over {n} receipts");

    let from_vec = ReceiptsCtx::from(receipts.clone());
    ensure_eq!(*from_vec.root(), want, "receipts-ctx:from-vec", "ReceiptsCtx::from(Vec) root over {n} receipts");

    // interpreter accessor
    let mut vm = Interpreter::<_, _, Script>::with_memory_storage();
    ensure_eq!(*vm.compute_receipts_root(), rf::empty(), "interpreter:compute_receipts_root", "fresh interpreter");
    for r in &receipts {
        vm.receipts_mut().push(r.clone()).map_err(|e| Failure::new("receipts-ctx:push-refused", format!("{e:?}")))?;
    }
    ensure_eq!(*vm.compute_receipts_root(), want, "interpreter:compute_receipts_root", "compute_receipts_root over {n} receipts");

    // external mutation through the lock: truncate to k, root must be the root of the prefix;
    // then continue pushing the removed receipts: back at the full root
    let k = pick(c.cut, n + 1);
    {
        let mut l = ctx.lock();
        l.receipts_mut().truncate(k);
    }
    ensure_eq!(*ctx.root(), rf::mth_hashed(&hashes[..k]), "receipts-ctx:after-lock", "root after truncating {n} receipts to {k} through lock()");
    for r in &receipts[k..] {
        ctx.push(r.clone()).map_err(|e| Failure::new("receipts-ctx:push-refused", format!("{e:?}")))?;
    }
    ensure_eq!(*ctx.root(), want, "receipts-ctx:after-lock-push", "root after truncating to {k} and re-pushing up to {n}");
    // in-place replacement of one receipt through the lock (what a VM state rollback does): the
    // root must be the tree hash of the edited list; an append through the lock likewise
    if n >= 2 {
        let i = pick(c.cut, n);
        let j = (i + 1) % n;
        let mut edited = receipts.clone();
        edited[i] = receipts[j].clone();
        {
            let mut l = ctx.lock();
            l.receipts_mut()[i] = receipts[j].clone();
        }
        let eh: Vec<[u8; 32]> = edited.iter().map(|r| rf::leaf_hash(&r.to_bytes())).collect();
        ensure_eq!(*ctx.root(), rf::mth_hashed(&eh), "receipts-ctx:after-lock-edit", "root after replacing receipt {i} of {n} in place through lock()");
        {
            let mut l = ctx.lock();
            l.receipts_mut().push(receipts[0].clone());
        }
        let mut eh2 = eh.clone();
        eh2.push(hashes[0]);
        ensure_eq!(*ctx.root(), rf::mth_hashed(&eh2), "receipts-ctx:after-lock-append", "root after appending through lock()");
        obs.class("lock-edit-in-place");
    }
    ctx.clear();
    ensure_eq!(*ctx.root(), rf::empty(), "receipts-ctx:after-clear", "root after clear()");
    if let Some(r) = receipts.first() {
        ctx.push(r.clone()).map_err(|e| Failure::new("receipts-ctx:push-refused", format!("{e:?}")))?;
        ensure_eq!(*ctx.root(), hashes[0], "receipts-ctx:after-clear", "root of one receipt pushed after clear()");
    }
    Ok(())
}

// ---------------------------------------------------------------- a real script run

#[derive(Debug, Clone, Serialize, Deserialize)]
pub struct ScriptCase {
    /// number of LOG/LOGD receipts emitted by the loop
    pub logs: u32,
    /// use LOGD with j bytes of data for the j-th receipt instead of LOG
    pub logd: bool,
    pub script_data: Vec<u8>,
}

fn script_case(max_dense: u32, pow: u32) -> impl Strategy<Value = ScriptCase> {
    let lattice = count_lattice(0, pow);
    (
        prop_oneof![3 => 0u32..=max_dense, 1 => prop::sample::select(lattice)],
        any::<bool>(),
        prop::collection::vec(any::<u8>(), 0..40),
    )
        .prop_map(|(logs, logd, script_data)| ScriptCase { logs, logd, script_data })
}

fn run_script(c: &ScriptCase, obs: &mut Obs) -> Check {
    ensure!(c.logs < (1 << 18), "harness-too-many-logs", "logs must fit an imm18");
    let body = if c.logd {
        // data = memory[0 .. j]
        op::logd(0x11, 0x10, RegId::ZERO, 0x11)
    } else {
        op::log(0x11, 0x10, RegId::ZERO, RegId::ONE)
    };
    let script: Vec<u8> = vec![
        op::movi(0x10, c.logs),
        op::movi(0x11, 0),
        op::jnei(0x10, 0x11, 4),
        op::ret(RegId::ONE),
        body,
        op::addi(0x11, 0x11, 1),
        op::ji(2),
    ]
    .into_iter()
    .collect();
    let tx = TransactionBuilder::script(script, c.script_data.clone())
        .script_gas_limit(20_000_000)
        .add_fee_input()
        .finalize_checked_basic(Default::default());
    let mut client = MemoryClient::default();
    let receipts: Vec<Receipt> = client.transact(tx).to_vec();
    let n = receipts.len();
    ensure_eq!(n, c.logs as usize + 2, "harness-script-receipts", "expected logs + RETURN + SCRIPT_RESULT, got {:?}", receipts.last());
    ensure!(
        matches!(receipts.last(), Some(Receipt::ScriptResult { result: ScriptExecutionResult::Success, .. })),
        "harness-script-failed",
        "script did not succeed: {:?}",
        receipts.last()
    );
    let leaves: Vec<Vec<u8>> = receipts.iter().map(|r| r.to_bytes()).collect();
    let want = rf::mth(&leaves);
    let st = client.state_transition().ok_or_else(|| Failure::new("harness-no-state-transition", "no state transition"))?;
    ensure_eq!(**st.tx().receipts_root(), want, "script:receipts_root", "receipts_root of the executed script over {n} receipts");
    obs.class(if c.logd { "LOGD" } else { "LOG" });
    if nontrivial_n(n) {
        obs.class("n>=3-not-2^k");
        obs.nontrivial(&(c.logs, c.logd));
    }
    Ok(())
}

pub fn property() -> Property {
    Property {
        id: "C09",
        rule: "leaf sequences: (a) count lattice (dense 0..=1024|6000 plus 2^k-1,2^k,2^k+1 up to 2^13|2^17) x 9 content kinds (empty, 1 B, 31/32/33 B, 1 KiB, all-equal, index, mixed 0..63 B) with content derived from the seed; (b) explicit proptest-generated leaf vectors of 0..=48 leaves with the root compared after every push; (c) receipt lists (pattern of 1..=13 generated receipts of all 13 kinds cycled to a lattice count) through ReceiptsCtx/Interpreter; (d) a script that emits n LOG/LOGD receipts, comparing the receipts_root left in the transaction. Every implementation's root is compared with the recursive RFC 6962 MTH. Non-trivial = leaf count >= 3 and not a power of two; distinct by (count, content kind) / leaf contents".into(),
        assumptions: vec![
            "sha2 crate is correct".into(),
            "model::rfc6962 is the RFC 6962 tree hash".into(),
            "receipt leaves are the library's canonical Receipt::to_bytes() (C01 covers the encoding)".into(),
        ],
        parts: vec![
            enum_part("count-lattice", "every count of the lattice x every content kind (1 KiB leaves only for small counts and 2^k±1 <= 4097); root after every push for n <= 48", false, enumerate_counts, run_count),
            gen_part("explicit-leaves", "vec(bytes, 0..=48) with length classes 0..1025 B, root after every push", (60_000, 1_500_000), |_c: &Ctx| prop::collection::vec(bytes_lc(), 0..=48), run_explicit),
            gen_part("receipts-ctx", "ReceiptsCtx push/from/lock/clear and Interpreter::compute_receipts_root over generated receipts", (12_000, 300_000), |c: &Ctx| receipts_case(c.tier.pick(80, 300), c.tier.pick(10, 13)), run_receipts),
            gen_part("script-receipts-root", "real script emitting n LOG/LOGD receipts; tx.receipts_root vs MTH(receipt bytes)", (2_000, 60_000), |c: &Ctx| script_case(c.tier.pick(160, 600), c.tier.pick(10, 13)), run_script),
        ],
        floors: vec![
            ("explicit-leaves", "n>=3-not-2^k", 0.5),
            ("receipts-ctx", "n>=3-not-2^k", 0.5),
            ("script-receipts-root", "n>=3-not-2^k", 0.5),
        ],
    }
}
