//! C34 — Calls and returns preserve the caller's frame.
//!
//! Call-tree worlds are single-stepped; the monitor keeps its own stack of call records. At every
//! successful CALL the callee's entry state (registers, call frame bytes, copied code) is compared
//! with what the specification derives from the caller's pre-state; at the matching RET / RETD the
//! caller's registers, its stack bytes `[0, $sp)`, the call depth and the callee's heap are checked.
use crate::engine::*;
use crate::vm::prog::{self, JumpKind, Tpl, Val};
use crate::vm::world::{self, run_stepping, Built, Vm, WorldSpec};
use crate::{ensure, ensure_eq};
use fuel_asm::{Instruction, Opcode, RegId};
use fuel_tx::field::Outputs;
use fuel_tx::{Output, Receipt};
use fuel_types::canonical::{Deserialize as _, Serialize as _};
use fuel_vm::call::CallFrame;
use proptest::prelude::*;
use serde::{Deserialize, Serialize};
use std::cell::RefCell;

#[derive(Debug, Clone, Serialize, Deserialize)]
pub struct Case {
    pub world: WorldSpec,
}

// call frame layout of the specification: to (32), asset id (32), 64 registers, code size, a, b
const F_TO: usize = 0;
const F_ASSET: usize = 32;
const F_REGS: usize = 64;
const F_CODE_SIZE: usize = 64 + 8 * 64;
const F_A: usize = F_CODE_SIZE + 8;
const F_B: usize = F_A + 8;
const F_LEN: usize = F_B + 8;
const BAL_OFF: usize = 64;
const BAL_ENTRY: usize = 40;
const HEAP_SNAP_CAP: u64 = 1 << 20;
const HEAP_SNAP_WIN: u64 = 1 << 16;

fn word(b: &[u8]) -> u64 {
    u64::from_be_bytes(b[..8].try_into().expect("8 bytes"))
}

struct CallPre {
    to: [u8; 32],
    a: u64,
    b: u64,
    asset: [u8; 32],
    coins: u64,
    gas_req: u64,
}

struct Pre {
    regs: [u64; 64],
    pc: u64,
    instr: Option<Instruction>,
    depth: usize,
    call: Option<CallPre>,
    /// caller stack bytes `[base.len(), $sp)` taken before a CALL executes
    pending: Vec<u8>,
    /// (start, bytes) windows of the callee heap taken before RET / RETD executes inside a call
    heap: Vec<(u64, Vec<u8>)>,
}

struct Rec {
    depth_before: usize,
    call_pc: u64,
    regs: [u64; 64],
    old_sp: u64,
    caller_hp: u64,
    frame_cgas: u64,
    to: [u8; 32],
}

struct Mon<'b> {
    b: &'b Built,
    /// expected bytes of `[0, old $sp of the innermost active call)`
    base: Vec<u8>,
    recs: Vec<Rec>,
    pre: Option<Pre>,
    fail: Option<Failure>,
    var_outputs: Vec<(usize, usize)>,
    bal_table: (usize, usize),
    steps: u64,
    calls: u64,
    returns: u64,
    max_depth: usize,
    max_returned_from: usize,
    nontrivial_returns: u64,
    classes: std::collections::BTreeSet<String>,
}

fn heap_windows(lo: u64, hi: u64) -> Vec<(u64, u64)> {
    if hi - lo <= HEAP_SNAP_CAP { vec![(lo, hi - lo)] } else { vec![(lo, HEAP_SNAP_WIN), (hi - HEAP_SNAP_WIN, HEAP_SNAP_WIN)] }
}

impl<'b> Mon<'b> {
    fn class(&mut self, s: &str) {
        if !self.classes.contains(s) {
            self.classes.insert(s.to_string());
        }
    }

    fn before<S>(&mut self, vm: &Vm<S>, pc: u64, raw: Option<u32>) {
        if self.fail.is_some() {
            return;
        }
        if let Err(f) = self.before_inner(vm, pc, raw) {
            self.fail = Some(f);
        }
    }

    fn before_inner<S>(&mut self, vm: &Vm<S>, pc: u64, raw: Option<u32>) -> Check {
        let regs: [u64; 64] = vm.registers().try_into().expect("64 registers");
        let depth = vm.verif_call_depth();
        ensure_eq!(depth, self.recs.len(), "depth:frames-vs-monitor", "step {} pc={}: call depth reported by the VM vs calls minus returns seen by the monitor", self.steps, pc);
        let instr = raw.and_then(|w| Instruction::try_from(w).ok());
        let mem = vm.memory();
        let rv = |x: RegId| regs[x.to_u8() as usize];
        let mut call = None;
        let mut pending = vec![];
        let mut heap = vec![];
        match &instr {
            Some(Instruction::CALL(x)) => {
                let (ra, rb, rc, rd) = x.unpack();
                if let (Ok(cs), Ok(asset)) = (mem.read_bytes::<_, 48>(rv(ra)), mem.read_bytes::<_, 32>(rv(rc))) {
                    call = Some(CallPre { to: cs[..32].try_into().expect("32"), a: word(&cs[32..40]), b: word(&cs[40..48]), asset, coins: rv(rb), gas_req: rv(rd) });
                }
                let sp = regs[RegId::SP] as usize;
                let st = mem.stack_raw();
                ensure!(sp <= st.len() && self.base.len() <= sp, "harness:stack-extent", "step {} pc={}: $sp {} vs stack extent {} / recorded {}", self.steps, pc, sp, st.len(), self.base.len());
                pending = st[self.base.len()..sp].to_vec();
            }
            Some(Instruction::RET(_) | Instruction::RETD(_)) if depth > 0 => {
                let rec = self.recs.last().expect("depth > 0");
                let hp = regs[RegId::HP];
                if hp < rec.caller_hp {
                    for (a, n) in heap_windows(hp, rec.caller_hp) {
                        let bytes = mem.read(a, n).map_err(|e| Failure::new("harness:callee-heap", format!("{e:?}")))?.to_vec();
                        heap.push((a, bytes));
                    }
                }
            }
            _ => {}
        }
        self.pre = Some(Pre { regs, pc, instr, depth, call, pending, heap });
        Ok(())
    }

    fn after<S>(&mut self, vm: &Vm<S>, ended: bool) {
        if self.fail.is_some() {
            return;
        }
        let Some(pre) = self.pre.take() else { return };
        self.steps += 1;
        if let Err(f) = self.after_inner(vm, ended, pre) {
            self.fail = Some(f);
        }
    }

    fn after_inner<S>(&mut self, vm: &Vm<S>, ended: bool, pre: Pre) -> Check {
        let depth = vm.verif_call_depth();
        let is_call = matches!(&pre.instr, Some(Instruction::CALL(_)));
        let is_ret = matches!(&pre.instr, Some(Instruction::RET(_) | Instruction::RETD(_)));
        if depth == pre.depth + 1 {
            ensure!(is_call, "depth:increase-without-call", "step {} pc={} {:?}: call depth {} -> {}", self.steps, pre.pc, pre.instr, pre.depth, depth);
            self.entry(vm, pre)
        } else if depth + 1 == pre.depth {
            ensure!(is_ret, "depth:decrease-without-return", "step {} pc={} {:?}: call depth {} -> {}", self.steps, pre.pc, pre.instr, pre.depth, depth);
            self.ret(vm, pre)
        } else if depth == pre.depth {
            if !ended {
                ensure!(!is_call, "call:no-frame-pushed", "step {} pc={}: CALL completed but the call depth stayed {}", self.steps, pre.pc, depth);
                ensure!(!(is_ret && pre.depth > 0), "return:frame-not-popped", "step {} pc={} {:?}: return inside a call completed but the call depth stayed {}", self.steps, pre.pc, pre.instr, depth);
            }
            Ok(())
        } else {
            Err(Failure::new("depth:jump", format!("step {} pc={} {:?}: call depth {} -> {}", self.steps, pre.pc, pre.instr, pre.depth, depth)))
        }
    }

    /// checks at callee entry (the step was a successful CALL)
    fn entry<S>(&mut self, vm: &Vm<S>, pre: Pre) -> Check {
        let regs = vm.registers();
        let mem = vm.memory();
        let at = format!("step {} call pc={} depth {}", self.steps, pre.pc, pre.depth);
        let Some(c) = &pre.call else {
            return Err(Failure::new("call:succeeded-with-unreadable-arguments", format!("{at}: Call struct / asset id were not readable before the CALL")));
        };
        let k = self.b.cids.iter().position(|id| **id == c.to).filter(|k| *k < self.b.contract_words.len());
        let Some(k) = k else {
            return Err(Failure::new("call:succeeded-for-unknown-contract", format!("{at}: callee {} is not a deployed contract of the world", hex::encode(c.to))));
        };
        let code = prog::to_bytes(&self.b.contract_words[k]);
        let padded = (code.len() + 7) / 8 * 8;
        let old_sp = pre.regs[RegId::SP];
        let fp = regs[RegId::FP];
        ensure_eq!(fp, old_sp, "entry:fp", "{at}: $fp vs caller $sp");
        let code_start = fp + F_LEN as u64;
        let top = code_start + padded as u64;
        ensure_eq!(regs[RegId::SSP], top, "entry:ssp", "{at}: $ssp vs $fp + frame + padded code");
        ensure_eq!(regs[RegId::SP], top, "entry:sp", "{at}: $sp vs $fp + frame + padded code");
        ensure_eq!(regs[RegId::IS], code_start, "entry:is", "{at}: $is vs $fp + frame size");
        ensure_eq!(regs[RegId::PC], code_start, "entry:pc", "{at}: $pc vs $fp + frame size");
        ensure_eq!(regs[RegId::BAL], c.coins, "entry:bal", "{at}: $bal vs forwarded coins");
        ensure_eq!(regs[RegId::FLAG], 0, "entry:flag", "{at}: $flag");
        ensure_eq!(regs[RegId::HP], pre.regs[RegId::HP], "entry:hp", "{at}: $hp changed by CALL");
        // gas registers: the same amount is charged to both, the callee gets min(available, requested)
        let charge = pre.regs[RegId::GGAS].checked_sub(regs[RegId::GGAS]).ok_or_else(|| Failure::new("entry:ggas-increased", at.clone()))?;
        let avail = pre.regs[RegId::CGAS].checked_sub(charge).ok_or_else(|| Failure::new("entry:cgas-charge-exceeds-context-gas", format!("{at}: charged {charge} of {}", pre.regs[RegId::CGAS])))?;
        ensure_eq!(regs[RegId::CGAS], avail.min(c.gas_req), "entry:cgas", "{at}: callee $cgas vs min(available {avail}, requested {})", c.gas_req);

        // ---- frame bytes by the layout of the specification
        let frame = mem.read(fp, F_LEN).map_err(|e| Failure::new("entry:frame-unreadable", format!("{at}: {e:?}")))?.to_vec();
        ensure!(frame[F_TO..F_TO + 32] == c.to, "frame:to", "{at}: frame.to {} vs called id {}", hex::encode(&frame[F_TO..F_TO + 32]), hex::encode(c.to));
        ensure!(frame[F_ASSET..F_ASSET + 32] == c.asset, "frame:asset", "{at}: frame.asset_id {} vs forwarded asset {}", hex::encode(&frame[F_ASSET..F_ASSET + 32]), hex::encode(c.asset));
        for i in 0..64usize {
            let saved = word(&frame[F_REGS + 8 * i..]);
            if i == RegId::CGAS.to_u8() as usize {
                ensure_eq!(saved, avail - regs[RegId::CGAS], "frame:saved-cgas", "{at}: saved $cgas vs available minus forwarded");
            } else if i == RegId::GGAS.to_u8() as usize {
                ensure_eq!(saved, regs[RegId::GGAS], "frame:saved-ggas", "{at}: saved $ggas vs $ggas at entry");
            } else {
                ensure_eq!(saved, pre.regs[i], format!("frame:saved-register:{}", reg_name(i)), "{at}: saved register {i:#x} vs caller register before the CALL");
            }
        }
        ensure_eq!(word(&frame[F_CODE_SIZE..]), padded as u64, "frame:code-size", "{at}: code size word vs padded contract length");
        ensure_eq!(word(&frame[F_A..]), c.a, "frame:a", "{at}: frame.a vs Call.a");
        ensure_eq!(word(&frame[F_B..]), c.b, "frame:b", "{at}: frame.b vs Call.b");
        // ---- the library's own decoder must see the same frame
        ensure_eq!(CallFrame::serialized_size(), F_LEN, "frame:serialized-size", "CallFrame::serialized_size vs specification layout");
        let dec = CallFrame::decode(&mut &frame[..]).map_err(|e| Failure::new("frame:decode", format!("{at}: {e:?}")))?;
        ensure!(**dec.to() == c.to && **dec.asset_id() == c.asset && dec.a() == c.a && dec.b() == c.b && dec.code_size_padded() == padded, "frame:decoded-fields", "{at}: decoded frame {dec:?}");
        ensure!(dec.registers().iter().enumerate().all(|(i, r)| *r == word(&frame[F_REGS + 8 * i..])), "frame:decoded-registers", "{at}: decoded registers differ from the raw words");
        ensure!(dec.to_bytes() == frame, "frame:reencode", "{at}: decoded frame does not re-encode to the bytes in memory");
        // ---- code
        let got = mem.read(code_start, padded).map_err(|e| Failure::new("entry:code-unreadable", format!("{at}: {e:?}")))?;
        ensure!(got[..code.len()] == code[..], "entry:code-bytes", "{at}: copied code differs from the contract code");
        ensure!(got[code.len()..].iter().all(|b| *b == 0), "entry:code-padding", "{at}: code padding not zero: {:?}", &got[code.len()..]);

        // ---- the CALL itself left the caller's stack alone (external context: balance words may change)
        let old_sp_u = old_sp as usize;
        let st = mem.stack_raw();
        ensure!(st.len() >= old_sp_u, "entry:stack-extent", "{at}");
        let split = self.base.len();
        self.base.extend_from_slice(&pre.pending);
        debug_assert_eq!(self.base.len(), old_sp_u);
        if pre.depth == 0 {
            let (lo, hi) = self.bal_table;
            let mut i = lo;
            while i + BAL_ENTRY <= hi.min(old_sp_u) {
                // value word of each entry is the VM's to update
                self.base[i + 32..i + 40].copy_from_slice(&st[i + 32..i + 40]);
                i += BAL_ENTRY;
            }
        }
        let _ = split;
        for (lo, hi) in &self.var_outputs {
            if *hi <= old_sp_u {
                // TRO rewrites variable outputs inside the transaction bytes from any context
                self.base[*lo..*hi].copy_from_slice(&st[*lo..*hi]);
            }
        }
        if let Some(p) = first_diff(&self.base, &st[..old_sp_u]) {
            return Err(Failure::new("entry:caller-stack-changed-by-call", format!("{at}: byte {p} of the caller's stack changed ({} -> {})", self.base[p], st[p])));
        }

        if self.recs.iter().any(|r| r.to == c.to) {
            self.class("recursive-call");
        }
        if c.coins > 0 {
            self.class("call-forwards-coins");
        }
        if regs[RegId::CGAS] < avail {
            self.class("call-forwards-part-of-gas");
        }
        self.recs.push(Rec { depth_before: pre.depth, call_pc: pre.pc, regs: pre.regs, old_sp, caller_hp: pre.regs[RegId::HP], frame_cgas: avail - regs[RegId::CGAS], to: c.to });
        self.calls += 1;
        self.max_depth = self.max_depth.max(self.recs.len());
        Ok(())
    }

    /// checks at the return matching the innermost record
    fn ret<S>(&mut self, vm: &Vm<S>, pre: Pre) -> Check {
        let regs = vm.registers();
        let mem = vm.memory();
        let rec = self.recs.pop().expect("monitor depth equals VM depth");
        let at = format!("step {} return pc={} from depth {} (call pc={})", self.steps, pre.pc, pre.depth, rec.call_pc);
        let depth = vm.verif_call_depth();
        ensure_eq!(depth, rec.depth_before, "return:depth", "{at}: call depth after the return vs before the call");
        // operands naming a gas register are read after the instruction's own gas was charged
        let charged = pre.regs[RegId::GGAS].saturating_sub(regs[RegId::GGAS]);
        let rv = |x: RegId| {
            let v = pre.regs[x.to_u8() as usize];
            if x == RegId::CGAS || x == RegId::GGAS { v.saturating_sub(charged) } else { v }
        };
        let (want_ret, want_retl, kind) = match &pre.instr {
            Some(Instruction::RET(x)) => (rv(x.unpack()), 0, "RET"),
            Some(Instruction::RETD(x)) => {
                let (a, b) = x.unpack();
                (rv(a), rv(b), "RETD")
            }
            _ => unreachable!("checked by the caller"),
        };
        let exempt = [RegId::CGAS, RegId::GGAS, RegId::RET, RegId::RETL, RegId::HP, RegId::PC].map(|r| r.to_u8() as usize);
        for i in 0..64usize {
            if !exempt.contains(&i) {
                ensure_eq!(regs[i], rec.regs[i], format!("return:{kind}:register-not-restored:{}", reg_name(i)), "{at}: register {i:#x} after the return vs before the call");
            }
        }
        ensure_eq!(regs[RegId::PC], rec.call_pc + 4, format!("return:{kind}:pc"), "{at}: $pc vs call pc + 4");
        ensure_eq!(regs[RegId::RET], want_ret, format!("return:{kind}:ret"), "{at}: $ret");
        ensure_eq!(regs[RegId::RETL], want_retl, format!("return:{kind}:retl"), "{at}: $retl");
        ensure_eq!(regs[RegId::HP], pre.regs[RegId::HP], format!("return:{kind}:hp"), "{at}: $hp vs the callee's final $hp");
        ensure!(regs[RegId::HP] <= rec.caller_hp, "return:hp-above-callers", "{at}: $hp {} above the caller's {} at the call", regs[RegId::HP], rec.caller_hp);
        // gas: what the return charged is taken from both registers, the caller's reserve comes back
        let charged_g = pre.regs[RegId::GGAS].checked_sub(regs[RegId::GGAS]);
        let charged_c = (pre.regs[RegId::CGAS] as u128 + rec.frame_cgas as u128).checked_sub(regs[RegId::CGAS] as u128);
        ensure!(charged_g.map(|x| x as u128) == charged_c && charged_g.is_some(), format!("return:{kind}:gas"), "{at}: $ggas {} -> {}, $cgas {} + reserve {} -> {}", pre.regs[RegId::GGAS], regs[RegId::GGAS], pre.regs[RegId::CGAS], rec.frame_cgas, regs[RegId::CGAS]);
        ensure!(regs[RegId::CGAS] <= rec.regs[RegId::CGAS] && regs[RegId::GGAS] <= rec.regs[RegId::GGAS], format!("return:{kind}:gas-grew"), "{at}: gas after the return exceeds gas before the call");

        // ---- caller stack
        let old_sp = rec.old_sp as usize;
        let st = mem.stack_raw();
        ensure!(st.len() >= old_sp && self.base.len() == old_sp, "return:stack-extent", "{at}: stack extent {} / recorded {} vs caller $sp {}", st.len(), self.base.len(), old_sp);
        for (lo, hi) in &self.var_outputs {
            if *hi <= old_sp {
                // TRO rewrites variable outputs inside the transaction bytes from any context
                self.base[*lo..*hi].copy_from_slice(&st[*lo..*hi]);
            }
        }
        if let Some(p) = first_diff(&self.base, &st[..old_sp]) {
            return Err(Failure::new(format!("return:{kind}:caller-stack-changed"), format!("{at}: byte {p} below the caller's $sp {} changed during the call ({} -> {})", old_sp, self.base[p], st[p])));
        }
        // ---- callee heap stays readable and intact
        let hp = regs[RegId::HP];
        for (a, want) in &pre.heap {
            let got = mem.read(*a, want.len()).map_err(|e| Failure::new(format!("return:{kind}:callee-heap-unreadable"), format!("{at}: [{a}, +{}) {e:?}", want.len())))?;
            ensure!(got == &want[..], format!("return:{kind}:callee-heap-changed"), "{at}: callee heap at {a} changed by the return");
        }
        if hp < rec.caller_hp {
            self.class("callee-allocated-heap");
            if rec.caller_hp - hp > 768 {
                self.class("callee-allocated-beyond-prelude");
            }
        }
        // records and expected bytes of the frame we returned into
        let keep = self.recs.last().map(|r| r.old_sp as usize).unwrap_or(0);
        self.base.truncate(keep);
        self.returns += 1;
        self.max_returned_from = self.max_returned_from.max(pre.depth);
        if pre.depth >= 2 && hp < rec.caller_hp {
            self.nontrivial_returns += 1;
        }
        match (kind, want_retl) {
            ("RET", _) => self.class("return:RET"),
            (_, 0) => self.class("return:RETD:len0"),
            (_, 1..=64) => self.class("return:RETD:len1-64"),
            _ => self.class("return:RETD:len65+"),
        }
        Ok(())
    }
}

fn first_diff(a: &[u8], b: &[u8]) -> Option<usize> {
    if a == b {
        return None;
    }
    a.iter().zip(b.iter()).position(|(x, y)| x != y).or(Some(a.len().min(b.len())))
}

fn reg_name(i: usize) -> String {
    const N: [&str; 16] = ["zero", "one", "of", "pc", "ssp", "sp", "fp", "hp", "err", "ggas", "cgas", "bal", "is", "ret", "retl", "flag"];
    if i < 16 { N[i].to_string() } else { "general".to_string() }
}

fn check(case: &Case, obs: &mut Obs) -> Check {
    let b = match case.world.build() {
        Ok(b) => b,
        Err(_) => {
            obs.class("world-invalid");
            return Ok(());
        }
    };
    let ready = match b.ready() {
        Ok(r) => r,
        Err(_) => {
            obs.class("world-not-ready");
            return Ok(());
        }
    };
    let mut vm = b.new_vm(b.storage.clone());
    let tx_off = vm.tx_offset();
    let var_outputs: Vec<(usize, usize)> = {
        let tx = b.checked.transaction();
        tx.outputs()
            .iter()
            .enumerate()
            .filter(|(_, o)| matches!(o, Output::Variable { .. }))
            .filter_map(|(i, o)| tx.outputs_offset_at(i).map(|off| (tx_off + off, tx_off + off + o.size())))
            .collect()
    };
    let n_in = b.params.tx_params().max_inputs() as usize;
    let mon = RefCell::new(Mon {
        b: &b,
        base: vec![],
        recs: vec![],
        pre: None,
        fail: None,
        var_outputs,
        bal_table: (BAL_OFF, BAL_OFF + n_in * BAL_ENTRY),
        steps: 0,
        calls: 0,
        returns: 0,
        max_depth: 0,
        max_returned_from: 0,
        nontrivial_returns: 0,
        classes: Default::default(),
    });
    let out = run_stepping(&mut vm, ready, b.gas_limit + 16, |s| mon.borrow_mut().before(s.vm, s.pc, s.raw), |vm, ended| mon.borrow_mut().after(vm, ended));
    let mon = mon.into_inner();
    if let Some(f) = mon.fail {
        return Err(f);
    }
    let out = out.map_err(|e| Failure::new("harness-step-budget", e))?;
    // the Call receipts are the VM's own count of successful calls
    let n_call_receipts = out.receipts.iter().filter(|r| matches!(r, Receipt::Call { .. })).count() as u64;
    ensure_eq!(n_call_receipts, mon.calls, "calls-vs-receipts", "Call receipts vs frames the monitor saw pushed");
    for c in &mon.classes {
        obs.class(c);
    }
    obs.class(match mon.max_depth {
        0 => "max-depth:0",
        1 => "max-depth:1",
        2 => "max-depth:2",
        3..=4 => "max-depth:3-4",
        5..=9 => "max-depth:5-9",
        _ => "max-depth:10+",
    });
    if mon.max_depth >= 2 {
        obs.class("depth>=2");
    }
    if mon.max_depth >= 10 {
        obs.class("depth>=10");
    }
    if mon.max_depth >= 20 {
        obs.class("depth>=20");
    }
    if mon.returns > 0 {
        obs.class("has-return");
    }
    if mon.max_returned_from >= 2 {
        obs.class("returned-from-depth>=2");
    }
    if mon.max_returned_from >= 5 {
        obs.class("returned-from-depth>=5");
    }
    if mon.max_returned_from >= 10 {
        obs.class("returned-from-depth>=10");
    }
    obs.note("steps", mon.steps);
    obs.note("calls", mon.calls);
    obs.note("returns", mon.returns);
    if mon.nontrivial_returns > 0 {
        obs.class("return-at-depth>=2-with-callee-heap");
        obs.nontrivial(&(mon.max_depth, mon.calls, mon.returns, mon.steps));
    }
    Ok(())
}

// ------------------------------------------------------------------ generator

const W_SCRIPT_CALLS: prog::Weights = prog::Weights([3, 3, 2, 2, 12, 1, 1, 2, 1, 1]);
const W_CONTRACT_CALLS: prog::Weights = prog::Weights([3, 3, 2, 2, 8, 1, 1, 2, 1, 1]);

// registers the templates rarely touch: call depth, depth limit, comparison result
const R_DEPTH: u8 = 0x3c;
const R_LIM: u8 = 0x3d;
const R_CMP: u8 = 0x3e;

/// `depth += 1; if !(depth < n) return` — registers travel into the callee and are restored on
/// return, so `R_DEPTH` counts the call depth and recursion is bounded by `n`
fn guard(n: u32, retd: Option<(prog::Ptr, u32)>) -> Vec<Tpl> {
    let mut v = vec![
        Tpl::OpI { op: Opcode::ADDI as u8, d: R_DEPTH, a: R_DEPTH, imm: 1 },
        Tpl::Movi { d: R_LIM, imm: n },
        Tpl::Op3 { op: Opcode::LT as u8, d: R_CMP, a: R_DEPTH, b: R_LIM },
    ];
    match retd {
        None => {
            v.push(Tpl::Jump { kind: JumpKind::Jnzf, delta: 1, a: R_CMP, b: 0, guarded: false });
            v.push(Tpl::Ret { v: Val::Reg(R_DEPTH) });
        }
        Some((p, len)) => {
            // pointer (1) + length (1) + RETD (1)
            v.push(Tpl::Jump { kind: JumpKind::Jnzf, delta: 3, a: R_CMP, b: 0, guarded: false });
            v.push(Tpl::Retd { p, len: Val::Imm(len) });
        }
    }
    v
}

fn own_call() -> impl Strategy<Value = Tpl> {
    (
        0u8..4,
        prop_oneof![7 => Just(0u32), 3 => 1u32..6],
        prop_oneof![6 => Just(Val::Reg(RegId::CGAS.to_u8())), 3 => Just(Val::Max), 1 => (100_000u32..260_000).prop_map(Val::Imm)],
    )
        .prop_map(|(call, coins, gas)| Tpl::Call { call, coins: Val::Imm(coins), asset: 0, gas })
}

fn retd_any() -> impl Strategy<Value = Tpl> {
    (prog::good_ptr(), prop_oneof![Just(0u32), 1u32..64, 64u32..128, 128u32..384]).prop_map(|(p, len)| Tpl::Retd { p, len: Val::Imm(len) })
}

#[derive(Debug, Clone)]
struct BodyPlan {
    limit: u32,
    retd: Option<(prog::Ptr, u32)>,
    body: Vec<Tpl>,
    call: Tpl,
    call_at: u16,
    aloc: Option<u32>,
    end: Option<Tpl>,
}

fn body_plan() -> impl Strategy<Value = BodyPlan> {
    (
        prop_oneof![8 => 1u32..5, 4 => 5u32..10, 7 => 10u32..15, 1 => 15u32..40],
        prop::option::weighted(0.4, (prog::good_ptr(), prop_oneof![Just(0u32), 1u32..64, 64u32..120])),
        prog::body(W_CONTRACT_CALLS, true, 12),
        own_call(),
        any::<u16>(),
        prop::option::weighted(0.5, prop_oneof![0u32..64, 64u32..4000]),
        prop::option::weighted(0.5, retd_any()),
    )
        .prop_map(|(limit, retd, body, call, call_at, aloc, end)| BodyPlan { limit, retd, body, call, call_at, aloc, end })
}

fn build_body(p: BodyPlan) -> Vec<Tpl> {
    let mut body = p.body;
    // deep chains: one call per level, otherwise the call tree is exponential
    let allowed = if p.limit >= 5 { 0 } else { 2 };
    let mut seen = 0;
    for t in body.iter_mut() {
        if matches!(t, Tpl::Call { .. }) {
            seen += 1;
            if seen > allowed {
                *t = Tpl::Move { d: 0x20, a: 0x20 };
            }
        }
    }
    let n = body.len().saturating_sub(1).min(4);
    body.insert(crate::gens::pick(p.call_at, n + 1), p.call);
    if let Some(a) = p.aloc {
        body.insert(0, Tpl::Aloc { len: Val::Imm(a) });
    }
    if let Some(e) = p.end {
        // RETD of any length instead of the generated end
        let last = body.len() - 1;
        body[last] = e;
    }
    let mut v = guard(p.limit, p.retd);
    v.extend(body);
    v
}

pub fn case() -> impl Strategy<Value = Case> {
    (
        world::world(W_SCRIPT_CALLS, 20, 3),
        prop::collection::vec(body_plan(), 3),
        prop::bool::weighted(0.55),
        prop::option::weighted(0.8, (any::<u16>(), own_call())),
    )
        .prop_map(|(mut world, plans, cyclic, early)| {
            for (c, p) in world.contracts.iter_mut().zip(plans) {
                c.body = build_body(p);
            }
            world.dag = !cyclic;
            if let Some((sel, call)) = early {
                let n = world.script.len().saturating_sub(1).min(4);
                world.script.insert(crate::gens::pick(sel, n + 1), call);
            }
            world.gas_limit = world.gas_limit.min(30_000);
            Case { world }
        })
}

pub fn property() -> Property {
    Property {
        id: "C34",
        rule: "G-PROG call-tree worlds: script and 0..3 contracts with call-heavy bodies; every contract body starts with a depth guard (a register counts the depth, the body returns with RET or RETD once a generated limit 1..39 is reached (mostly <= 14)), cyclic call graphs in ~55% of the worlds so that recursion reaches depth >= 10, calls forwarding coins / all, part or more than the available gas, callee ALOC (every callee allocates in its prelude, half of them more), RETD of 0..383 bytes. Single-stepped; at each successful CALL the callee entry state and the frame/code bytes are checked, at the matching RET/RETD the caller's registers, stack bytes [0,$sp), depth and the callee heap. Non-trivial = a return from depth >= 2 whose callee allocated heap; distinct by (max depth, calls, returns, steps)".into(),
        assumptions: vec![
            "single-stepping does not change execution results (C32)".into(),
            "fuel_asm::Instruction::try_from decodes instruction words correctly (C08)".into(),
            "the repository's verification hook verif_call_depth() reports the number of active call frames".into(),
            "Interpreter::tx_offset / Script::outputs_offset_at locate the variable outputs in VM memory (C04); those bytes are exempt from the caller-stack comparison because TRO rewrites them from any context".into(),
            "callee heaps larger than 1 MiB are compared through their lowest and highest 64 KiB only".into(),
        ],
        parts: vec![gen_part("call-tree", "call-tree world, single-stepped", (3_000, 300_000), |_c: &Ctx| case(), check)],
        floors: vec![("call-tree", "has-return", 0.30), ("call-tree", "return-at-depth>=2-with-callee-heap", 0.15), ("call-tree", "returned-from-depth>=10", 0.03)],
    }
}
