//! C14 — Sparse Merkle proofs prove membership and non-membership exactly.
//!
//! Tree = result of a C12 history (so built by deletes too). For generated query keys:
//!  * `generate_proof` succeeds, is `Inclusion` iff the key is in the model map, and equals the
//!    reference proof (`model::smt::RefTree::prove`);
//!  * inclusion verifies with the stored value and with no other candidate value; exclusion verifies;
//!  * cross-use: every proof is verified for every other query key (and candidate value); the
//!    library verdict must equal the reference verifier's and an accept must be true of the map;
//!  * structured mutations of proof / key / value / leaf: library verdict == reference verdict,
//!    and an accept against the genuine root must be true of the map.
use super::c12::{apply_lib, flip_bit, hist, key_spec, mk, resolve, unfold, Hist, KeySpec, MemStore, MemTree, H};
use super::c13::to_ref;
use crate::engine::*;
use crate::gens::{pick, small_bytes};
use crate::model::smt as m;
use crate::{ensure, ensure_eq};
use fuel_merkle::sparse::proof::{ExclusionLeaf, ExclusionLeafData, ExclusionProof, InclusionProof, Proof};
use proptest::prelude::*;
use serde::{Deserialize, Serialize};
use std::collections::BTreeSet;

#[derive(Debug, Clone, Serialize, Deserialize)]
pub enum Query {
    /// the selected key of the final map
    Present(u16),
    /// the selected present key with one bit flipped (absent neighbour sharing `pos` bits, usually)
    Near(u16, u8),
    Spec(KeySpec),
}

#[derive(Debug, Clone, Serialize, Deserialize)]
pub enum Fill {
    Zero,
    /// copy of the element next to the insertion point
    Neighbour,
    Bytes([u8; 32]),
}

/// one structured mutation of (proof, key, value); selectors are scaled onto the proof set
#[derive(Debug, Clone, Serialize, Deserialize)]
pub enum Mutation {
    Drop(u16),
    Insert(u16, Fill),
    Swap(u16),
    FlipSideBit(u16, u8),
    /// pad the proof set to 257 elements, at the leaf end (true) or at the root end
    PadTo257(bool, Fill),
    Truncate,
    /// keep the proof, verify for the key with bit `pos` flipped
    KeyFlip(u8),
    /// present the proof as an exclusion proof whose leaf carries the queried key itself
    /// (leaf value = hash of the stored / a candidate value)
    ExclusionLeafIsQuery,
    /// exclusion-leaf proofs: flip one bit of the leaf's value hash
    ExclusionValueBit(u8),
    /// exclusion-leaf proofs: flip one bit of the leaf's key
    ExclusionLeafKeyBit(u8),
    /// replace the exclusion leaf by a placeholder / the placeholder by the leaf of another query
    TogglePlaceholder(u16),
    /// use an exclusion-leaf proof as an inclusion proof for the leaf's own key
    ExclusionAsInclusionOfLeaf,
    /// use an inclusion proof of k1 as an exclusion proof (leaf = k1's leaf) for another query key
    InclusionAsExclusionFor(u16),
}

#[derive(Debug, Clone, Serialize, Deserialize)]
pub struct Case {
    pub hist: Hist,
    pub queries: Vec<Query>,
    pub values: Vec<Vec<u8>>,
    /// (proof selector, mutation)
    pub muts: Vec<(u16, Mutation)>,
}

fn query() -> impl Strategy<Value = Query> {
    let pos = prop_oneof![
        3 => prop::sample::select(vec![255u8, 254, 253, 250, 240, 200, 129, 128, 64, 17, 16, 15, 8, 1, 0]),
        1 => any::<u8>(),
    ];
    prop_oneof![
        3 => any::<u16>().prop_map(Query::Present),
        4 => (any::<u16>(), pos).prop_map(|(s, p)| Query::Near(s, p)),
        3 => key_spec().prop_map(Query::Spec),
    ]
}

fn fill() -> impl Strategy<Value = Fill> {
    prop_oneof![Just(Fill::Zero), Just(Fill::Neighbour), any::<[u8; 32]>().prop_map(Fill::Bytes)]
}

fn mutation() -> impl Strategy<Value = Mutation> {
    prop_oneof![
        2 => any::<u16>().prop_map(Mutation::Drop),
        2 => (any::<u16>(), fill()).prop_map(|(s, f)| Mutation::Insert(s, f)),
        1 => any::<u16>().prop_map(Mutation::Swap),
        2 => (any::<u16>(), any::<u8>()).prop_map(|(s, b)| Mutation::FlipSideBit(s, b)),
        1 => (any::<bool>(), fill()).prop_map(|(e, f)| Mutation::PadTo257(e, f)),
        1 => Just(Mutation::Truncate),
        2 => prop_oneof![prop::sample::select(vec![255u8, 254, 128, 8, 1, 0]), any::<u8>()].prop_map(Mutation::KeyFlip),
        3 => Just(Mutation::ExclusionLeafIsQuery),
        1 => any::<u8>().prop_map(Mutation::ExclusionValueBit),
        2 => prop_oneof![Just(255u8), any::<u8>()].prop_map(Mutation::ExclusionLeafKeyBit),
        2 => any::<u16>().prop_map(Mutation::TogglePlaceholder),
        2 => Just(Mutation::ExclusionAsInclusionOfLeaf),
        2 => any::<u16>().prop_map(Mutation::InclusionAsExclusionFor),
    ]
}

fn case(max_ops: usize) -> impl Strategy<Value = Case> {
    (
        hist(max_ops),
        prop::collection::vec(query(), 1..=6),
        prop::collection::vec(small_bytes(), 0..=2),
        prop::collection::vec((any::<u16>(), mutation()), 0..=10),
    )
        .prop_map(|(hist, queries, values, muts)| Case { hist, queries, values, muts })
}

/// a (possibly forged) proof with what it is presented for
#[derive(Debug, Clone)]
struct Tuple {
    key: H,
    side: Vec<H>,
    claim: m::Claim,
}

fn lib_verify(root: &H, t: &Tuple) -> bool {
    match &t.claim {
        m::Claim::Inclusion { value } => InclusionProof { proof_set: t.side.clone() }.verify(root, &mk(&t.key), value),
        m::Claim::ExclusionEmpty => ExclusionProof { proof_set: t.side.clone(), leaf: ExclusionLeaf::Placeholder }.verify(root, &mk(&t.key)),
        m::Claim::ExclusionLeaf { leaf_key, leaf_value_hash } => ExclusionProof {
            proof_set: t.side.clone(),
            leaf: ExclusionLeaf::Leaf(ExclusionLeafData { leaf_key: *leaf_key, leaf_value: *leaf_value_hash }),
        }
        .verify(root, &mk(&t.key)),
    }
}

fn claim_kind(c: &m::Claim) -> &'static str {
    match c {
        m::Claim::Inclusion { .. } => "inclusion",
        m::Claim::ExclusionEmpty => "exclusion-placeholder",
        m::Claim::ExclusionLeaf { .. } => "exclusion-leaf",
    }
}

/// differential + soundness check of one tuple; returns the verdict
fn judge(root: &H, map: &m::Map, t: &Tuple, what: &str) -> Result<bool, Failure> {
    let lib = lib_verify(root, t);
    let reference = m::verify(root, &t.key, &t.side, &t.claim);
    let kind = claim_kind(&t.claim);
    ensure_eq!(
        lib, reference, format!("{what}:{kind}:verdict-differs-from-reference:lib-{}", if lib { "accepts" } else { "rejects" }),
        "key {} proof-set-len {} claim {:?}", hex::encode(t.key), t.side.len(), t.claim
    );
    if lib {
        ensure!(
            m::claim_true(map, &t.key, &t.claim), format!("{what}:{kind}:accepted-but-false"),
            "verifier accepted a claim the map contradicts: key {} claim {:?} (present: {})", hex::encode(t.key), t.claim, map.contains_key(&t.key)
        );
    }
    Ok(lib)
}

fn fill_value(f: &Fill, side: &[H], at: usize) -> H {
    match f {
        Fill::Zero => m::ZERO,
        Fill::Bytes(b) => *b,
        Fill::Neighbour => {
            if side.is_empty() {
                m::ZERO
            } else {
                side[at.min(side.len() - 1)]
            }
        }
    }
}

fn run(case: &Case, obs: &mut Obs) -> Check {
    let h = &case.hist;
    let (cops, maps) = unfold(h);
    let map = maps.last().unwrap();
    let mut tree = MemTree::new(MemStore::default());
    for (i, c) in cops.iter().enumerate() {
        apply_lib(&mut tree, c).map_err(|e| Failure::new("build:op-error", format!("step {i} {c:?}: {e}")))?;
    }
    let rt = m::RefTree::build(map);
    let root = tree.root();
    ensure_eq!(root, rt.root, "build:root-mismatch", "root after the history");

    let mut labels: BTreeSet<&'static str> = BTreeSet::new();
    let mut nt_sig: Vec<(u16, u16, u8)> = vec![];

    // query keys
    let mut keys: Vec<H> = vec![];
    for q in &case.queries {
        let k = match q {
            Query::Present(s) => {
                if map.is_empty() { resolve(&h.bases, &KeySpec::Base(0)) } else { *map.keys().nth(pick(*s, map.len())).unwrap() }
            }
            Query::Near(s, pos) => {
                let mut k = if map.is_empty() { resolve(&h.bases, &KeySpec::Base(0)) } else { *map.keys().nth(pick(*s, map.len())).unwrap() };
                flip_bit(&mut k, *pos as usize);
                k
            }
            Query::Spec(ks) => resolve(&h.bases, ks),
        };
        keys.push(k);
    }

    // candidate values: generated ones, the empty value, every stored value of a queried key, and near misses
    let mut cands: Vec<Vec<u8>> = case.values.clone();
    cands.push(vec![]);
    for k in &keys {
        if let Some(v) = map.get(k) {
            cands.push(v.clone());
            let mut w = v.clone();
            w.push(0);
            cands.push(w);
            if !v.is_empty() {
                cands.push(v[..v.len() - 1].to_vec());
            }
        }
    }
    cands.sort();
    cands.dedup();

    // 1. generated proofs
    let mut proofs: Vec<(H, m::RefProof)> = vec![];
    for k in &keys {
        let p: Proof = tree.generate_proof(&mk(k)).map_err(|e| Failure::new("generate:error", format!("generate_proof({}) failed: {e:?}", hex::encode(k))))?;
        let present = map.contains_key(k);
        ensure_eq!(
            p.is_inclusion(), present, if present { "generate:exclusion-for-present-key" } else { "generate:inclusion-for-absent-key" },
            "key {}", hex::encode(k)
        );
        let rp = to_ref(&p);
        let want = rt.prove(k);
        ensure_eq!(rp, want, "generate:proof-differs-from-reference", "key {}", hex::encode(k));
        if proofs.is_empty() {
            // the two reference provers (re-hashing walk / materialised tree) are written separately
            ensure_eq!(want, m::prove(map, k), "harness-reference-provers-disagree", "key {}", hex::encode(k));
        }
        match &p {
            Proof::Inclusion(ip) => {
                labels.insert("inclusion");
                ensure!(ip.verify(&root, &mk(k), &map[k]), "inclusion:does-not-verify-with-stored-value", "key {}", hex::encode(k));
                for v in &cands {
                    if *v != map[k] {
                        ensure!(!ip.verify(&root, &mk(k), v), "inclusion:verifies-with-other-value", "key {} stored {:?} other {:?}", hex::encode(k), map[k], v);
                    }
                }
                if map[k].is_empty() {
                    labels.insert("inclusion-of-empty-value");
                }
            }
            Proof::Exclusion(ep) => {
                ensure!(ep.verify(&root, &mk(k)), "exclusion:does-not-verify-for-absent-key", "key {} leaf {:?}", hex::encode(k), ep.leaf);
                match &ep.leaf {
                    ExclusionLeaf::Placeholder => {
                        labels.insert(if map.is_empty() { "exclusion-empty-tree" } else { "exclusion-placeholder" });
                    }
                    ExclusionLeaf::Leaf(d) => {
                        labels.insert("exclusion-leaf");
                        let cp = m::common_prefix(&d.leaf_key, k);
                        if cp >= 16 {
                            labels.insert("exclusion-leaf-shared>=16");
                            nt_sig.push((cp as u16, rp.side.len() as u16, rp.side.iter().filter(|s| **s == m::ZERO).count().min(255) as u8));
                        }
                        if cp >= 200 {
                            labels.insert("exclusion-leaf-shared>=200");
                        }
                        if cp == 255 {
                            labels.insert("exclusion-leaf-differs-in-last-bit");
                        }
                    }
                }
            }
        }
        proofs.push((*k, rp));
    }

    let claims_of = |rp: &m::RefProof| -> Vec<m::Claim> {
        match &rp.terminal {
            m::Terminal::Included => cands.iter().map(|v| m::Claim::Inclusion { value: v.clone() }).collect(),
            m::Terminal::Empty => vec![m::Claim::ExclusionEmpty],
            m::Terminal::Other { key, value_hash } => vec![m::Claim::ExclusionLeaf { leaf_key: *key, leaf_value_hash: *value_hash }],
        }
    };

    // 2. cross-use: every proof for every query key
    let mut accepted_cross = 0u64;
    for (i, (k1, rp)) in proofs.iter().enumerate() {
        for (j, k2) in keys.iter().enumerate() {
            if i == j {
                continue;
            }
            for claim in claims_of(rp) {
                let t = Tuple { key: *k2, side: rp.side.clone(), claim };
                if judge(&root, map, &t, "cross-use")? && k1 != k2 {
                    accepted_cross += 1;
                }
            }
        }
    }
    if accepted_cross > 0 {
        labels.insert("cross-use-accepted-for-another-key");
    }
    obs.note("cross-use-accepts", accepted_cross);

    // 3. structured mutations
    let mut accepted_mut = 0u64;
    for (sel, mu) in &case.muts {
        if proofs.is_empty() {
            break;
        }
        let (k, rp) = &proofs[pick(*sel, proofs.len())];
        let mut side = rp.side.clone();
        let n = side.len();
        let mut key = *k;
        let mut claims = claims_of(rp);
        // for inclusion proofs keep the stored value first so that set-level mutations are judged with it
        if let m::Terminal::Included = rp.terminal {
            claims = vec![m::Claim::Inclusion { value: map[k].clone() }];
        }
        let name: &'static str;
        match mu {
            Mutation::Drop(s) => {
                name = "mutation:drop";
                if n == 0 {
                    continue;
                }
                side.remove(pick(*s, n));
            }
            Mutation::Insert(s, f) => {
                name = "mutation:insert";
                let at = pick(*s, n + 1);
                let v = fill_value(f, &side, at);
                side.insert(at, v);
            }
            Mutation::Swap(s) => {
                name = "mutation:swap";
                if n < 2 {
                    continue;
                }
                let at = pick(*s, n - 1);
                if side[at] == side[at + 1] {
                    labels.insert("mutation-swap-of-equal-elements");
                }
                side.swap(at, at + 1);
            }
            Mutation::FlipSideBit(s, b) => {
                name = "mutation:flip-side-bit";
                if n == 0 {
                    continue;
                }
                flip_bit(&mut side[pick(*s, n)], *b as usize);
            }
            Mutation::PadTo257(leaf_end, f) => {
                name = "mutation:pad-to-257";
                while side.len() < 257 {
                    let at = if *leaf_end { 0 } else { side.len() };
                    let v = fill_value(f, &side, at);
                    side.insert(at, v);
                }
            }
            Mutation::Truncate => {
                name = "mutation:truncate";
                side.clear();
            }
            Mutation::KeyFlip(pos) => {
                name = "mutation:key-flip";
                flip_bit(&mut key, *pos as usize);
                if let m::Terminal::Included = rp.terminal {
                    claims = cands.iter().map(|v| m::Claim::Inclusion { value: v.clone() }).collect();
                }
            }
            Mutation::ExclusionLeafIsQuery => {
                name = "mutation:exclusion-leaf-is-query";
                claims = match &rp.terminal {
                    m::Terminal::Included => vec![m::Claim::ExclusionLeaf { leaf_key: *k, leaf_value_hash: m::value_hash(&map[k]) }],
                    m::Terminal::Other { value_hash, .. } => vec![m::Claim::ExclusionLeaf { leaf_key: *k, leaf_value_hash: *value_hash }],
                    m::Terminal::Empty => cands.iter().map(|v| m::Claim::ExclusionLeaf { leaf_key: *k, leaf_value_hash: m::value_hash(v) }).collect(),
                };
            }
            Mutation::ExclusionValueBit(b) => {
                name = "mutation:exclusion-value-bit";
                let m::Terminal::Other { key: lk, value_hash } = &rp.terminal else { continue };
                let mut vh = *value_hash;
                flip_bit(&mut vh, *b as usize);
                claims = vec![m::Claim::ExclusionLeaf { leaf_key: *lk, leaf_value_hash: vh }];
            }
            Mutation::ExclusionLeafKeyBit(b) => {
                name = "mutation:exclusion-leaf-key-bit";
                let m::Terminal::Other { key: lk, value_hash } = &rp.terminal else { continue };
                let mut lk = *lk;
                flip_bit(&mut lk, *b as usize);
                claims = vec![m::Claim::ExclusionLeaf { leaf_key: lk, leaf_value_hash: *value_hash }];
            }
            Mutation::TogglePlaceholder(s) => {
                name = "mutation:toggle-placeholder";
                claims = match &rp.terminal {
                    m::Terminal::Other { .. } => vec![m::Claim::ExclusionEmpty],
                    m::Terminal::Included => vec![m::Claim::ExclusionEmpty],
                    m::Terminal::Empty => {
                        if map.is_empty() {
                            continue;
                        }
                        let lk = *map.keys().nth(pick(*s, map.len())).unwrap();
                        vec![m::Claim::ExclusionLeaf { leaf_key: lk, leaf_value_hash: m::value_hash(&map[&lk]) }]
                    }
                };
            }
            Mutation::ExclusionAsInclusionOfLeaf => {
                name = "mutation:exclusion-as-inclusion-of-leaf";
                let m::Terminal::Other { key: lk, .. } = &rp.terminal else { continue };
                key = *lk;
                let mut cs: Vec<m::Claim> = cands.iter().map(|v| m::Claim::Inclusion { value: v.clone() }).collect();
                cs.push(m::Claim::Inclusion { value: map[lk].clone() });
                claims = cs;
            }
            Mutation::InclusionAsExclusionFor(s) => {
                name = "mutation:inclusion-as-exclusion-for-other-key";
                let m::Terminal::Included = &rp.terminal else { continue };
                key = keys[pick(*s, keys.len())];
                claims = vec![m::Claim::ExclusionLeaf { leaf_key: *k, leaf_value_hash: m::value_hash(&map[k]) }];
            }
        }
        labels.insert(name);
        for claim in claims {
            let t = Tuple { key, side: side.clone(), claim };
            if judge(&root, map, &t, name)? {
                accepted_mut += 1;
                labels.insert("mutation-accepted(legitimately)");
            }
        }
    }
    obs.note("mutated-tuples-accepted", accepted_mut);

    for l in &labels {
        obs.class(l);
    }
    if !nt_sig.is_empty() {
        obs.class("NONTRIVIAL");
        nt_sig.sort();
        obs.nontrivial(&(nt_sig, m::leaf_depths(map)));
    }
    Ok(())
}

pub fn property() -> Property {
    Property {
        id: "C14",
        rule: "tree = result of a C12 history (vec(Op,0..=60|100) over clustered keys, built by inserts, overwrites and deletes); 1-6 query keys (present key; present key with one bit flipped at {255,254,253,250,240,200,129,128,64,17,16,15,8,1,0} or anywhere; clustered key spec incl. all-zero/all-one/raw); candidate values = generated + empty + stored values of queried keys with one byte appended/removed. Checked: generate_proof is Ok, Inclusion iff key in the model map, and equal to the reference proof; inclusion verifies with the stored value and no other candidate; exclusion verifies; cross-use of every proof with every other query key/candidate value and 0-10 structured mutations (drop/insert/swap/flip side node, pad to 257, truncate, key bit flip, exclusion leaf carrying the queried key, altered leaf value hash / leaf key, placeholder<->leaf, exclusion used as inclusion of its leaf, inclusion used as exclusion for another key): library verdict == model::smt::verify and accept => the claim is true of the map. Non-trivial = an exclusion proof whose closest leaf shares >=16 bits with the query; distinct by (shared bits, proof length, placeholder count) of those proofs + leaf depths of the trie".into(),
        assumptions: vec![
            "sha2 crate is correct (collision resistance is what makes an accepted forged proof impossible)".into(),
            "model::smt root/prove/verify follow the compact sparse Merkle tree definition of the statement".into(),
            "all verifications are against the genuine root of the tree; forged roots are out of scope".into(),
        ],
        parts: vec![gen_part(
            "proofs",
            "generated proofs, cross-use and structured mutations vs reference prover/verifier",
            (80_000, 1_000_000),
            |c: &Ctx| case(c.tier.pick(60, 100)),
            run,
        )],
        floors: vec![
            ("proofs", "exclusion-leaf-shared>=16", 0.3),
            ("proofs", "exclusion-placeholder", 0.2),
            ("proofs", "inclusion", 0.3),
            ("proofs", "mutation:exclusion-leaf-is-query", 0.1),
        ],
    }
}
