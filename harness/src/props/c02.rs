//! C02 — Decoding arbitrary bytes never panics and reaches a fixed point.
//!
//! Domain: (a) structure-aware mutants of valid encodings. The valid encoding comes from the
//! harness' own annotated statement of the wire format (`gens::tx_extra::Layout`), so every
//! mutation is aimed at a known word: discriminants, byte-vector length prefixes, element counts,
//! policy bits, padding bytes; plus truncations, splices, appended junk, byte flips.
//! (b) raw byte strings decoded as every type.  (c) a systematic part: every length prefix /
//! count / discriminant / policy-bits word of a lattice of bases x the whole value catalogue,
//! and truncation at every length.
//!
//! Oracle: under `catch_panic`, `decode` returns `Err` or `Ok(v)`; for `Ok(v)` with
//! `consumed = len_before - remaining`: `v.size() == consumed`, `v.to_bytes().len() == consumed`,
//! `decode(v.to_bytes()) == Ok(v)` consuming everything, and re-encoding that is byte-identical.
//! No equality with the *input* bytes is demanded (padding / `Empty<_>` fields are normalised).
//!
//! Resource rule (DESIGN.md O1): `Vec<T>::decode_static` reserves capacity for attacker-chosen
//! counts up to 100 Mi elements. That reservation is NOT a violation here; the check measures
//! VmPeak / VmHWM from /proc/self/status and reports `vmpeak_minus_baseline_kb` (and the resident peak `vmhwm_resident_peak_kb`) as notes.
use crate::engine::*;
use crate::gens::tx::*;
use crate::gens::tx_extra::*;
use crate::gens::{pick, word};
use crate::ensure;
use fuel_tx::policies::Policies;
use fuel_tx::{Input, Output, Receipt, Transaction};
use fuel_types::canonical::{Deserialize as CDe, Error as CErr, Serialize as CSer};
use proptest::prelude::*;
use serde::{Deserialize, Serialize};
use sha2::{Digest, Sha256};
use std::sync::atomic::{AtomicU64, Ordering};

// ------------------------------------------------------------------ memory observation (O1)

static VM_BASE_KB: AtomicU64 = AtomicU64::new(0);
static VM_PEAK_SEEN_KB: AtomicU64 = AtomicU64::new(0);
static VM_HWM_SEEN_KB: AtomicU64 = AtomicU64::new(0);

fn proc_status_kb(field: &str) -> u64 {
    std::fs::read_to_string("/proc/self/status")
        .ok()
        .and_then(|s| s.lines().find(|l| l.starts_with(field)).and_then(|l| l.split_whitespace().nth(1).and_then(|x| x.parse().ok())))
        .unwrap_or(0)
}

/// adds the *increase* of the process-wide peak since the last observation to the note, so that the
/// engine's summing of notes over shards yields the maximum
fn observe_vm(obs: &mut Obs) {
    let peak = proc_status_kb("VmPeak:");
    let base = VM_BASE_KB.load(Ordering::Relaxed);
    let over = peak.saturating_sub(base);
    let prev = VM_PEAK_SEEN_KB.fetch_max(over, Ordering::Relaxed);
    if over > prev {
        obs.note("vmpeak_minus_baseline_kb", over - prev);
    }
    let hwm = proc_status_kb("VmHWM:");
    let prev = VM_HWM_SEEN_KB.fetch_max(hwm, Ordering::Relaxed);
    if hwm > prev {
        obs.note("vmhwm_resident_peak_kb", hwm - prev);
    }
}

thread_local! {
    static TICK: std::cell::Cell<u32> = const { std::cell::Cell::new(0) };
}

fn observe_vm_sometimes(obs: &mut Obs, force: bool) {
    let t = TICK.with(|t| {
        let v = t.get().wrapping_add(1);
        t.set(v);
        v
    });
    if force || t % 512 == 1 {
        observe_vm(obs);
    }
}

// ------------------------------------------------------------------ case description

#[derive(Debug, Clone, Serialize, Deserialize)]
pub enum Base {
    Tx(AnyTx),
    In(InSpec),
    Out(OutSpec),
    Receipt(ReceiptSpec),
    Pol(PolSpec),
}

impl Base {
    fn ty(&self) -> u8 {
        match self {
            Base::Tx(_) => 0,
            Base::In(_) => 1,
            Base::Out(_) => 2,
            Base::Receipt(_) => 3,
            Base::Pol(_) => 4,
        }
    }
    fn layout(&self) -> Layout {
        match self {
            Base::Tx(t) => Layout::of_any_tx(t),
            Base::In(i) => Layout::of_input(i),
            Base::Out(o) => Layout::of_output(o),
            Base::Receipt(r) => Layout::of_receipt(r, &|b| Sha256::digest(b).into()),
            Base::Pol(p) => Layout::of_policies(p),
        }
    }
}

const TYPES: [&str; 5] = ["Transaction", "Input", "Output", "Receipt", "Policies"];

#[derive(Debug, Clone, Copy, PartialEq, Eq, Hash, Serialize, Deserialize)]
pub enum ValOp {
    Zero,
    Plus1,
    Minus1,
    Times2,
    /// 2^31
    P31,
    /// VEC_DECODE_LIMIT = 100 Mi
    Lim,
    LimPlus1,
    Max,
    Raw(u64),
}

pub const CATALOGUE: [ValOp; 8] = [ValOp::Zero, ValOp::Plus1, ValOp::Minus1, ValOp::Times2, ValOp::P31, ValOp::Lim, ValOp::LimPlus1, ValOp::Max];

impl ValOp {
    fn apply(self, old: u64) -> u64 {
        match self {
            ValOp::Zero => 0,
            ValOp::Plus1 => old.wrapping_add(1),
            ValOp::Minus1 => old.wrapping_sub(1),
            ValOp::Times2 => old.wrapping_mul(2),
            ValOp::P31 => 1 << 31,
            ValOp::Lim => 100 << 20,
            ValOp::LimPlus1 => (100 << 20) + 1,
            ValOp::Max => u64::MAX,
            ValOp::Raw(x) => x,
        }
    }
    fn label(self) -> &'static str {
        match self {
            ValOp::Zero => "zero",
            ValOp::Plus1 => "+1",
            ValOp::Minus1 => "-1",
            ValOp::Times2 => "x2",
            ValOp::P31 => "2^31",
            ValOp::Lim => "100Mi",
            ValOp::LimPlus1 => "100Mi+1",
            ValOp::Max => "u64max",
            ValOp::Raw(_) => "raw",
        }
    }
}

#[derive(Debug, Clone, Serialize, Deserialize)]
pub enum Mut {
    /// rewrite the `pick(sel)`-th word of the given role
    Mark { kind: MarkKind, sel: u16, op: ValOp },
    /// same, addressed by index (systematic part)
    MarkIdx { kind: MarkKind, idx: u16, op: ValOp },
    /// rewrite any 8-byte word
    AnyWord { sel: u16, op: ValOp },
    /// make one padding byte non-zero (vector tail padding or the high bytes of a u8/u16/u32 word)
    PadByte { sel: u16, byte: u8 },
    /// cut at the `pick(sel)`-th word boundary plus `delta` bytes (-7..=7)
    Truncate { sel: u16, delta: i8 },
    /// cut to exactly this many bytes (systematic part)
    TruncateAt { len: u32 },
    /// first words of this encoding followed by the tail of another valid encoding
    Splice { other: Box<Base>, at: u16, from: u16 },
    FlipByte { sel: u16, xor: u8 },
    Append(HexBytes),
}

impl Mut {
    fn label(&self) -> String {
        match self {
            Mut::Mark { kind, op, .. } | Mut::MarkIdx { kind, op, .. } => format!("{kind:?}:{}", op.label()),
            Mut::AnyWord { op, .. } => format!("any-word:{}", op.label()),
            Mut::PadByte { .. } => "padding-nonzero".into(),
            Mut::Truncate { .. } | Mut::TruncateAt { .. } => "truncate".into(),
            Mut::Splice { .. } => "splice".into(),
            Mut::FlipByte { .. } => "flip-byte".into(),
            Mut::Append(_) => "append".into(),
        }
    }
}

#[derive(Debug, Clone, Serialize, Deserialize)]
pub enum Src {
    Spec(Base),
    Raw(HexBytes),
}

#[derive(Debug, Clone, Serialize, Deserialize)]
pub struct Case {
    pub src: Src,
    pub muts: Vec<Mut>,
    /// decode as this type (0..5) instead of the base's own type
    pub cross: Option<u8>,
}

// ------------------------------------------------------------------ oracle

#[derive(Debug, Clone, PartialEq, Eq, Hash)]
pub enum Outcome {
    /// decoded, consumed this many bytes
    Ok(usize),
    /// error kind, bytes consumed before the failing read
    Err(&'static str, usize),
}

fn err_kind(e: &CErr) -> &'static str {
    match e {
        CErr::BufferIsTooShort => "BufferIsTooShort",
        CErr::UnknownDiscriminant => "UnknownDiscriminant",
        CErr::InvalidPrefix => "InvalidPrefix",
        CErr::AllocationLimit => "AllocationLimit",
        CErr::Unknown(_) => "Unknown",
        _ => "other",
    }
}

/// panic location relative to the repository root, whatever the checkout's absolute path is
fn rel_loc(loc: &str) -> String {
    match loc.find("/fuel-") {
        Some(i) => loc[i + 1..].to_string(),
        None => loc.to_string(),
    }
}

fn dbg_short<T: std::fmt::Debug>(v: &T) -> String {
    let mut s = format!("{v:?}");
    if s.len() > 400 {
        let mut cut = 400;
        while !s.is_char_boundary(cut) {
            cut -= 1;
        }
        s.truncate(cut);
        s.push_str("...");
    }
    s
}

/// the C02 oracle for one type on one byte string
pub fn fixed_point<T>(ty: &str, bytes: &[u8]) -> Result<Outcome, Failure>
where
    T: CSer + CDe + PartialEq + std::fmt::Debug,
{
    let r = catch_panic(|| {
        let mut s = bytes;
        let r = T::decode(&mut s);
        (r, s.len())
    });
    let (v, rem) = match r {
        Err((loc, msg)) => {
            let loc = rel_loc(&loc);
            return Err(Failure::new(format!("c02:{ty}:decode-panic@{loc}"), format!("decode panicked at {loc}: {msg}")));
        }
        Ok((Err(e), rem)) => return Ok(Outcome::Err(err_kind(&e), bytes.len().saturating_sub(rem))),
        Ok((Ok(v), rem)) => (v, rem),
    };
    ensure!(rem <= bytes.len(), format!("c02:{ty}:remaining-grew"), "remaining {rem} > input length {}", bytes.len());
    let consumed = bytes.len() - rem;
    let r = catch_panic(|| -> Check {
        ensure!(v.size() == consumed, format!("c02:{ty}:size-differs-from-consumed"), "decoder consumed {consumed} bytes, value reports size {}: {}", v.size(), dbg_short(&v));
        let b2 = v.to_bytes();
        ensure!(b2.len() == consumed, format!("c02:{ty}:encoding-length-differs-from-consumed"), "decoder consumed {consumed} bytes, value encodes to {}", b2.len());
        let mut s2 = &b2[..];
        let v2 = match T::decode(&mut s2) {
            Ok(v2) => v2,
            Err(e) => return Err(Failure::new(format!("c02:{ty}:reencoded-value-rejected"), format!("decode(to_bytes(v)) failed with {e:?} for v = {}", dbg_short(&v)))),
        };
        ensure!(s2.is_empty(), format!("c02:{ty}:reencoded-value-not-fully-consumed"), "decode(to_bytes(v)) left {} bytes", s2.len());
        ensure!(v2 == v, format!("c02:{ty}:fixed-point-value-differs"), "decode(to_bytes(v)) = {} != v = {}", dbg_short(&v2), dbg_short(&v));
        let b3 = v2.to_bytes();
        ensure!(b3 == b2, format!("c02:{ty}:fixed-point-bytes-differ"), "second encoding differs from the first");
        Ok(())
    });
    match r {
        Err((loc, msg)) => {
            let loc = rel_loc(&loc);
            Err(Failure::new(format!("c02:{ty}:reencode-panic@{loc}"), format!("size/to_bytes/decode of a decoded value panicked at {loc}: {msg}")))
        }
        Ok(Err(f)) => Err(f),
        Ok(Ok(())) => Ok(Outcome::Ok(consumed)),
    }
}

pub fn fixed_point_as(ty: u8, bytes: &[u8]) -> Result<Outcome, Failure> {
    match ty {
        0 => fixed_point::<Transaction>(TYPES[0], bytes),
        1 => fixed_point::<Input>(TYPES[1], bytes),
        2 => fixed_point::<Output>(TYPES[2], bytes),
        3 => fixed_point::<Receipt>(TYPES[3], bytes),
        _ => fixed_point::<Policies>(TYPES[4], bytes),
    }
}

fn rd(b: &[u8], off: usize) -> u64 {
    u64::from_be_bytes(b[off..off + 8].try_into().unwrap())
}

fn set_word(b: &mut [u8], off: usize, op: ValOp) -> u64 {
    let new = op.apply(rd(b, off));
    b[off..off + 8].copy_from_slice(&new.to_be_bytes());
    new
}

/// applies the mutations; returns whether a "huge" prefix (>= 2^20) was planted
fn mutate(l: &Layout, muts: &[Mut], obs: &mut Obs) -> (Vec<u8>, bool) {
    let mut b = l.bytes.clone();
    let mut huge = false;
    for m in muts {
        obs.class(&format!("mut:{}", m.label()));
        match m {
            Mut::Mark { kind, sel, op } => {
                let ms = l.marks_of(*kind);
                if !ms.is_empty() {
                    let mk = ms[pick(*sel, ms.len())];
                    if mk.off + 8 <= b.len() {
                        huge |= set_word(&mut b, mk.off, *op) >= 1 << 20;
                    }
                } else if b.len() >= 8 {
                    // this base has no word of that role: aim at any word instead
                    obs.note("mutation-retargeted-to-any-word", 1);
                    let off = pick(*sel, b.len() / 8) * 8;
                    set_word(&mut b, off, *op);
                }
            }
            Mut::MarkIdx { kind, idx, op } => {
                let ms = l.marks_of(*kind);
                if let Some(mk) = ms.get(*idx as usize) {
                    if mk.off + 8 <= b.len() {
                        huge |= set_word(&mut b, mk.off, *op) >= 1 << 20;
                    }
                } else {
                    obs.note("mutation-without-target", 1);
                }
            }
            Mut::AnyWord { sel, op } => {
                let n = b.len() / 8;
                if n > 0 {
                    set_word(&mut b, pick(*sel, n) * 8, *op);
                }
            }
            Mut::PadByte { sel, byte } => {
                // candidate padding bytes: vector tail padding and the unused high bytes of small ints
                let mut cand: Vec<usize> = vec![];
                for mk in &l.marks {
                    match mk.kind {
                        MarkKind::Pad => cand.extend(mk.off..mk.off + mk.len),
                        MarkKind::Small => cand.extend(mk.off..mk.off + 8 - mk.width as usize),
                        // discriminants and policy bits are u64 / u32: only the u32's high half is padding
                        MarkKind::PolBits => cand.extend(mk.off..mk.off + 4),
                        _ => {}
                    }
                }
                cand.retain(|&o| o < b.len());
                if !cand.is_empty() {
                    let o = cand[pick(*sel, cand.len())];
                    b[o] = if *byte == 0 { 0xff } else { *byte };
                } else {
                    obs.note("mutation-without-target", 1);
                }
            }
            Mut::Truncate { sel, delta } => {
                let n = b.len() / 8;
                let at = (pick(*sel, n + 1) * 8) as i64 + (*delta as i64).clamp(-7, 7);
                let at = at.clamp(0, b.len() as i64) as usize;
                b.truncate(at);
            }
            Mut::TruncateAt { len } => b.truncate(*len as usize),
            Mut::Splice { other, at, from } => {
                let o = other.layout().bytes;
                let at = pick(*at, b.len() / 8 + 1) * 8;
                let from = pick(*from, o.len() / 8 + 1) * 8;
                b.truncate(at);
                b.extend_from_slice(&o[from..]);
            }
            Mut::FlipByte { sel, xor } => {
                if !b.is_empty() {
                    let o = pick(*sel, b.len());
                    b[o] ^= if *xor == 0 { 1 } else { *xor };
                }
            }
            Mut::Append(x) => b.extend_from_slice(&x.0),
        }
    }
    (b, huge)
}

fn check(case: &Case, obs: &mut Obs) -> Check {
    match &case.src {
        Src::Raw(raw) => {
            obs.class("src:raw");
            let mut sig: Vec<(u8, Outcome)> = vec![];
            let mut any_ok = false;
            for ty in 0u8..5 {
                let o = fixed_point_as(ty, &raw.0)?;
                match &o {
                    Outcome::Ok(_) => {
                        any_ok = true;
                        obs.class(&format!("raw-decodes-as:{}", TYPES[ty as usize]));
                    }
                    Outcome::Err(..) => {}
                }
                sig.push((ty, match o {
                    Outcome::Ok(n) => Outcome::Ok(n / 64),
                    Outcome::Err(k, n) => Outcome::Err(k, n / 64),
                }));
            }
            if any_ok || sig.iter().any(|(_, o)| matches!(o, Outcome::Err(_, n) if *n >= 1)) {
                obs.class("nontrivial");
                obs.nontrivial(&sig);
            }
            observe_vm_sometimes(obs, false);
            Ok(())
        }
        Src::Spec(base) => {
            let l = base.layout();
            let own = base.ty();
            obs.class(&format!("base:{}", TYPES[own as usize]));
            // the unmutated base is a byte string too: full oracle; it must decode (else the
            // harness' statement of the format is off: harness problem, not a violation)
            match fixed_point_as(own, &l.bytes)? {
                Outcome::Ok(n) if n == l.bytes.len() => {}
                o => return Err(Failure::new("harness-base-encoding-not-accepted", format!("reference encoding of the base is not decoded completely: {o:?} of {} bytes", l.bytes.len()))),
            }
            let (bytes, huge) = mutate(&l, &case.muts, obs);
            let ty = case.cross.map(|t| t % 5).unwrap_or(own);
            if ty != own {
                obs.class("cross-type-decode");
            }
            if huge {
                obs.class("huge-prefix-planted");
            }
            let o = fixed_point_as(ty, &bytes);
            observe_vm_sometimes(obs, huge);
            let o = o?;
            let labels: Vec<String> = case.muts.iter().map(|m| m.label()).collect();
            match &o {
                Outcome::Ok(n) => {
                    obs.class("outcome:ok");
                    if *n != bytes.len() {
                        obs.class("outcome:ok-with-unconsumed-tail");
                    }
                    if bytes != l.bytes {
                        obs.class("outcome:ok-on-changed-bytes");
                    }
                    obs.class("nontrivial");
                    obs.nontrivial(&(ty, &labels, "ok", n / 64));
                }
                Outcome::Err(k, n) => {
                    obs.class(&format!("outcome:err:{k}"));
                    if *n >= l.static_len && ty == own {
                        obs.class("outcome:err-after-static-part");
                        obs.class("nontrivial");
                        obs.nontrivial(&(ty, &labels, *k, n / 64));
                    }
                }
            }
            Ok(())
        }
    }
}

// ------------------------------------------------------------------ strategies

fn base() -> impl Strategy<Value = Base> {
    prop_oneof![
        8 => any_tx().prop_map(Base::Tx),
        4 => in_spec().prop_map(Base::In),
        1 => out_spec().prop_map(Base::Out),
        2 => receipt_spec().prop_map(Base::Receipt),
        1 => pol_spec_wide().prop_map(Base::Pol),
    ]
}

fn val_op() -> impl Strategy<Value = ValOp> {
    prop_oneof![
        8 => prop::sample::select(CATALOGUE.to_vec()),
        1 => word().prop_map(ValOp::Raw),
        1 => (0u64..70).prop_map(ValOp::Raw),
        1 => any::<u32>().prop_map(|x| ValOp::Raw(x as u64)),
    ]
}

fn mark_kind() -> impl Strategy<Value = MarkKind> {
    prop_oneof![
        3 => Just(MarkKind::Disc),
        6 => Just(MarkKind::Len),
        5 => Just(MarkKind::Count),
        3 => Just(MarkKind::PolBits),
        1 => Just(MarkKind::Small),
        1 => Just(MarkKind::Word),
    ]
}

fn mutation() -> impl Strategy<Value = Mut> {
    prop_oneof![
        10 => (mark_kind(), any::<u16>(), val_op()).prop_map(|(kind, sel, op)| Mut::Mark { kind, sel, op }),
        2 => (any::<u16>(), val_op()).prop_map(|(sel, op)| Mut::AnyWord { sel, op }),
        3 => (any::<u16>(), any::<u8>()).prop_map(|(sel, byte)| Mut::PadByte { sel, byte }),
        3 => (any::<u16>(), -7i8..=7).prop_map(|(sel, delta)| Mut::Truncate { sel, delta }),
        2 => (base(), any::<u16>(), any::<u16>()).prop_map(|(o, at, from)| Mut::Splice { other: Box::new(o), at, from }),
        2 => (any::<u16>(), any::<u8>()).prop_map(|(sel, xor)| Mut::FlipByte { sel, xor }),
        1 => crate::gens::small_bytes().prop_map(|b| Mut::Append(HexBytes(b))),
    ]
}

fn mutant_case() -> impl Strategy<Value = Case> {
    (base(), prop::collection::vec(mutation(), 1..=3), prop_oneof![9 => Just(None), 1 => (0u8..5).prop_map(Some)]).prop_map(|(b, muts, cross)| Case { src: Src::Spec(b), muts, cross })
}

fn raw_case() -> impl Strategy<Value = Case> {
    // raw strings; half of them made of small big-endian words so that decoders get past the
    // first discriminant
    let wordy = prop::collection::vec(prop_oneof![6 => 0u64..8, 2 => 0u64..70, 1 => word()], 0..64).prop_map(|ws| ws.into_iter().flat_map(|w| w.to_be_bytes()).collect::<Vec<u8>>());
    let tail = prop::collection::vec(any::<u8>(), 0..8);
    prop_oneof![
        1 => prop::collection::vec(any::<u8>(), 0..=512),
        2 => (wordy, tail).prop_map(|(mut a, t)| { a.extend(t); a }),
    ]
    .prop_map(|b| Case { src: Src::Raw(HexBytes(b)), muts: vec![], cross: None })
}

/// systematic part: bases from the lattices; every Disc / Len / Count / PolBits word x the whole
/// catalogue; truncation at every length of the encoding; every padding byte non-zero
fn systematic(tier: Tier, shard: usize, nshards: usize, sink: &mut dyn FnMut(Case) -> bool) {
    let mut bases: Vec<Base> = vec![];
    let step = tier.pick(5usize, 1);
    let mut k = 0usize;
    lattice_txs(|t| {
        k += 1;
        if k % (8 * step) == 3 || matches!(t, AnyTx::Mint(_)) && k % 4 == 0 {
            bases.push(Base::Tx(t));
        }
        true
    });
    let mut k = 0usize;
    lattice_inputs(|i| {
        k += 1;
        if k % (7 * step) == 1 {
            bases.push(Base::In(i));
        }
        true
    });
    let mut k = 0usize;
    lattice_outputs(|o| {
        k += 1;
        if k % 6 == 1 {
            bases.push(Base::Out(o));
        }
        true
    });
    let mut k = 0usize;
    lattice_receipts(|r| {
        k += 1;
        if k % 12 == 1 {
            bases.push(Base::Receipt(r));
        }
        true
    });
    for mask in (0u8..64).step_by(step) {
        bases.push(Base::Pol(lpol(mask, mask as usize)));
    }
    let mut n = 0usize;
    for b in bases {
        let l = b.layout();
        let mut muts: Vec<Mut> = vec![];
        for kind in [MarkKind::Disc, MarkKind::Len, MarkKind::Count, MarkKind::PolBits] {
            for idx in 0..l.marks_of(kind).len() {
                for op in CATALOGUE {
                    muts.push(Mut::MarkIdx { kind, idx: idx as u16, op });
                }
                if kind == MarkKind::PolBits {
                    for bits in [63u64, 64, 127, 1 << 31, u32::MAX as u64, 1 << 32] {
                        muts.push(Mut::MarkIdx { kind, idx: idx as u16, op: ValOp::Raw(bits) });
                    }
                }
                if kind == MarkKind::Disc {
                    for d in 0u64..14 {
                        muts.push(Mut::MarkIdx { kind, idx: idx as u16, op: ValOp::Raw(d) });
                    }
                }
            }
        }
        for len in 0..l.bytes.len() {
            muts.push(Mut::TruncateAt { len: len as u32 });
        }
        for m in muts {
            let i = n;
            n += 1;
            if i % nshards == shard && !sink(Case { src: Src::Spec(b.clone()), muts: vec![m], cross: None }) {
                return;
            }
        }
    }
}

pub fn property() -> Property {
    // baseline for the O1 observation: taken before any shard thread exists
    VM_BASE_KB.store(proc_status_kb("VmPeak:"), Ordering::Relaxed);
    Property {
        id: "C02",
        rule: "byte strings = (a) 1..3 aimed mutations of a valid encoding (Transaction of 6 kinds / Input / Output / Receipt / Policies from G-TX, encoded by the harness' annotated reference layout): discriminant, length-prefix, count, policy-bits words -> {0, +-1, x2, 2^31, 100Mi, 100Mi+1, u64::MAX, raw}, padding byte non-zero, truncation at word boundary +-7, splice with another encoding, byte flip, appended bytes, optional decode as another type; (b) raw strings <= 512 B and small-word strings decoded as all five types; (c) systematically every Disc/Len/Count/PolBits word x the whole catalogue and truncation at every length for a lattice of bases. Non-trivial = decode succeeds, or fails after the static part was read; distinct by (type, mutation kinds, error kind, consumed/64)".into(),
        assumptions: vec![
            "gens::tx_extra::Layout states the wire format correctly (verified per case: the unmutated base must decode completely, else exit 2)".into(),
            "address-space reservation by Vec::with_capacity on attacker-chosen counts (observation O1) is measured (notes vmpeak_minus_baseline_kb, vmhwm_resident_peak_kb) but not judged".into(),
            "Eq of the decoded types is used for the fixed-point comparison; Receipt's Eq ignores payload/contract-id, which decode leaves at their defaults".into(),
        ],
        parts: vec![
            enum_part("systematic", "every Disc/Len/Count/PolBits word x catalogue, truncation at every length, lattice bases", true, |c: &Ctx, shard, nshards, sink: &mut dyn FnMut(Case) -> bool| systematic(c.tier, shard, nshards, sink), check),
            gen_part("mutants", "1..3 aimed mutations of a G-TX encoding", (200_000, 6_000_000), |_c: &Ctx| mutant_case(), check),
            gen_part("raw-bytes", "raw / small-word byte strings decoded as all five types", (200_000, 4_000_000), |_c: &Ctx| raw_case(), check),
        ],
        floors: vec![("mutants", "nontrivial", 0.15), ("mutants", "outcome:ok-on-changed-bytes", 0.03), ("mutants", "huge-prefix-planted", 0.05)],
    }
}
