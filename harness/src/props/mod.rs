use crate::engine::Property;

pub mod c01;
pub mod c02;
pub mod c03;
pub mod c04;
pub mod c06;
pub mod c07;
pub mod c08;
pub mod c09;
pub mod c10;
pub mod c15;
pub mod c11;
pub mod c16;
pub mod c17;
pub mod c21;
pub mod c12;
pub mod c13;
pub mod c14;
pub mod c18;
pub mod c19;
pub mod c23;
pub mod c24;
pub mod c30;
pub mod c33;
pub mod c34;
pub mod c05;
pub mod c20;
pub mod c29;
pub mod c31;
pub mod c35;
pub mod c36;
pub mod c22;
pub mod c25;
pub mod c26;
pub mod c27;
pub mod c28;
pub mod c32;

pub fn registry() -> Vec<(&'static str, fn() -> Property)> {
    vec![
        ("C35", c35::property),
        ("C31", c31::property),
        ("C29", c29::property),
        ("C20", c20::property),
        ("C05", c05::property),
        ("C34", c34::property),
        ("C33", c33::property),
        ("C30", c30::property),
        ("C24", c24::property),
        ("C28", c28::property),
        ("C27", c27::property),
        ("C26", c26::property),
        ("C25", c25::property),
        ("C22", c22::property),
        ("C06", c06::property),
        ("C02", c02::property),
        ("C01", c01::property),
        ("C36", c36::property),
        ("C23", c23::property),
        ("C19", c19::property),
        ("C18", c18::property),
        ("C14", c14::property),
        ("C13", c13::property),
        ("C12", c12::property),
        ("C15", c15::property),
        ("C10", c10::property),
        ("C09", c09::property),
        ("C17", c17::property),
        ("C16", c16::property),
        ("C07", c07::property),
        ("C04", c04::property),
        ("C03", c03::property),
        ("C21", c21::property),
        ("C08", c08::property),
        ("C11", c11::property),
        ("C32", c32::property),
    ]
}
