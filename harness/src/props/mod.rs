use crate::engine::Property;

pub mod c11;

pub fn registry() -> Vec<(&'static str, fn() -> Property)> {
    vec![
        ("C11", c11::property),
    ]
}
