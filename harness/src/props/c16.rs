//! C16 — The two secp256k1 backends agree on every signature.
//!
//! Differential oracle through hook H1 (`fuel_crypto::verif_k1::{k256, secp256k1}`): every
//! case is ONE operation on ONE input, executed by both backends; they must give the same
//! key / the same bytes / both fail. The failure key is `<op>:<input class>:<outcome>` where
//! the input class is computed from the signature bytes themselves (not from the part that
//! generated it), e.g. `recover:high-s:secp256k1-ok-k256-err`.
use crate::engine::*;
use crate::gens::crypto::*;
use crate::{ensure, fail};
use fuel_crypto::verif_k1::{k256 as bk, secp256k1 as bs};
use fuel_crypto::{Message, SecretKey};
use fuel_types::Bytes32;
use k256::elliptic_curve::ops::Reduce;
use k256::elliptic_curve::point::{AffineCoordinates, DecompressPoint};
use k256::elliptic_curve::sec1::ToEncodedPoint;
use k256::elliptic_curve::subtle::Choice;
use k256::elliptic_curve::PrimeField;
use k256::{AffinePoint, ProjectivePoint, Scalar, U256};
use proptest::prelude::*;
use serde::{Deserialize, Serialize};

/// One differential comparison.
#[derive(Debug, Clone, Serialize, Deserialize)]
pub enum K1Op {
    PublicKey { sk: Hx<32> },
    Sign { sk: Hx<32>, msg: Hx<32> },
    /// `expect`: the key the signature was *constructed* for (only where the harness knows it
    /// from its own arithmetic); a backend that returns a key must return this one
    Recover { sig: Hx<64>, msg: Hx<32>, expect: Option<Hx<64>> },
    Verify { sig: Hx<64>, pk: Hx<64>, msg: Hx<32> },
}

// ------------------------------------------------------------------ input classification

fn split(sig: &[u8; 64]) -> ([u8; 32], [u8; 32], bool) {
    let r: [u8; 32] = sig[..32].try_into().unwrap();
    let mut s: [u8; 32] = sig[32..].try_into().unwrap();
    let odd = s[0] & 0x80 != 0;
    s[0] &= 0x7f;
    (r, s, odd)
}

fn is_x_coordinate(r: &[u8; 32]) -> bool {
    bool::from(AffinePoint::decompress(&(*r).into(), Choice::from(0)).is_some())
}

/// class of a compact signature, from its bytes. `high-s` means: r is in [1,n) and is an
/// x-coordinate, and n/2 < s < 2^255 (the only high s the format can carry).
pub fn sig_class(sig: &[u8; 64]) -> &'static str {
    let (r, s, _) = split(sig);
    if r == ZERO32 {
        "r-zero"
    } else if r >= K1_N {
        "r-ge-n"
    } else if s == ZERO32 {
        "s-zero"
    } else if !is_x_coordinate(&r) {
        "r-not-x"
    } else if s > K1_HALF_N {
        "high-s"
    } else {
        "canonical"
    }
}

fn msg_class(m: &[u8; 32]) -> &'static str {
    if *m == ZERO32 {
        "msg-zero"
    } else if *m >= K1_N {
        "msg-ge-n"
    } else {
        "msg-lt-n"
    }
}

fn outcome<T: PartialEq, E>(s: &Result<T, E>, k: &Result<T, E>) -> Option<&'static str> {
    match (s, k) {
        (Ok(a), Ok(b)) => (a != b).then_some("both-ok-different-result"),
        (Ok(_), Err(_)) => Some("secp256k1-ok-k256-err"),
        (Err(_), Ok(_)) => Some("secp256k1-err-k256-ok"),
        (Err(_), Err(_)) => None,
    }
}

fn secret(sk: &Hx<32>) -> Option<SecretKey> {
    SecretKey::try_from(Bytes32::from(sk.0)).ok()
}

// ------------------------------------------------------------------ the oracle

pub fn check(op: &K1Op, obs: &mut Obs) -> Check {
    match op {
        K1Op::PublicKey { sk } => {
            let Some(sk) = secret(sk) else {
                obs.class("invalid-secret(outside the type)");
                return Ok(());
            };
            let a = bs::public_key(&sk);
            let b = bk::public_key(&sk);
            obs.class("public_key");
            obs.nontrivial(&(0u8, *sk));
            ensure!(a == b, "public_key:differs", "secp256k1 {a:?} k256 {b:?}");
            Ok(())
        }
        K1Op::Sign { sk, msg } => {
            let Some(sk) = secret(sk) else {
                obs.class("invalid-secret(outside the type)");
                return Ok(());
            };
            let m = Message::from_bytes(msg.0);
            let a = bs::sign(&sk, &m);
            let b = bk::sign(&sk, &m);
            let mc = msg_class(&msg.0);
            obs.class(&format!("sign:{mc}"));
            obs.nontrivial(&(1u8, *sk, msg.0));
            if a != b {
                // informative only: are both at least signatures of this key?
                let pk = bs::public_key(&sk);
                let va = matches!(bs::recover(a, &m), Ok(p) if p == pk);
                let vb = matches!(bs::recover(b, &m), Ok(p) if p == pk);
                fail!(format!("sign:{mc}:differs"), "sk {:?} msg {msg:?}: secp256k1 signs {} (recovers signer: {va}), k256 signs {} (recovers signer: {vb})", hex::encode(*sk), hex::encode(a), hex::encode(b));
            }
            Ok(())
        }
        K1Op::Recover { sig, msg, expect } => {
            let m = Message::from_bytes(msg.0);
            let cls = sig_class(&sig.0);
            let a = bs::recover(sig.0, &m);
            let b = bk::recover(sig.0, &m);
            let shape = match (&a, &b) {
                (Ok(_), Ok(_)) => "both-ok",
                (Err(_), Err(_)) => "both-err",
                _ => "split",
            };
            obs.class(&format!("recover:{cls}:{shape}"));
            obs.class(cls);
            if a.is_ok() || b.is_ok() || cls != "canonical" {
                obs.nontrivial(&(2u8, sig.0, msg.0));
            }
            if let Some(e) = expect {
                obs.class("recover:constructed-key-known");
                if let Ok(p) = &a {
                    ensure!(**p == e.0, format!("recover:{cls}:secp256k1-not-the-constructed-key"), "sig {sig:?} msg {msg:?}: got {p:?} constructed for {e:?}");
                }
                if let Ok(p) = &b {
                    ensure!(**p == e.0, format!("recover:{cls}:k256-not-the-constructed-key"), "sig {sig:?} msg {msg:?}: got {p:?} constructed for {e:?}");
                }
            }
            if let Some(o) = outcome(&a, &b) {
                fail!(format!("recover:{cls}:{o}"), "sig {sig:?} msg {msg:?}: secp256k1 {a:?} k256 {b:?}");
            }
            // both agree; if they produced a key, both must also agree on verifying with it
            if let Ok(p) = a {
                let va = bs::verify(sig.0, *p, &m);
                let vb = bk::verify(sig.0, *p, &m);
                obs.class(&format!("verify-recovered:{cls}:{}", if va.is_ok() { "ok" } else { "err" }));
                if let Some(o) = outcome(&va, &vb) {
                    fail!(format!("verify-recovered:{cls}:{o}"), "sig {sig:?} msg {msg:?} key {p:?}: secp256k1 {va:?} k256 {vb:?}");
                }
            }
            Ok(())
        }
        K1Op::Verify { sig, pk, msg } => {
            let m = Message::from_bytes(msg.0);
            let cls = sig_class(&sig.0);
            let a = bs::verify(sig.0, pk.0, &m);
            let b = bk::verify(sig.0, pk.0, &m);
            let shape = match (&a, &b) {
                (Ok(_), Ok(_)) => "both-ok",
                (Err(_), Err(_)) => "both-err",
                _ => "split",
            };
            obs.class(&format!("verify:{cls}:{shape}"));
            obs.class(cls);
            if a.is_ok() || b.is_ok() || cls != "canonical" {
                obs.nontrivial(&(3u8, sig.0, pk.0, msg.0));
            }
            if let (Err(x), Err(y)) = (&a, &b) {
                if format!("{x:?}") != format!("{y:?}") {
                    // order of the checks differs between the backends; not part of the statement
                    obs.note("verify:error-kind-differs(allowed)", 1);
                }
            }
            if let Some(o) = outcome(&a, &b) {
                fail!(format!("verify:{cls}:{o}"), "sig {sig:?} pk {pk:?} msg {msg:?}: secp256k1 {a:?} k256 {b:?}");
            }
            Ok(())
        }
    }
}

// ------------------------------------------------------------------ input construction
// (k256 scalar / point arithmetic is used only here, to build inputs)

fn scalar_reduced(b: &[u8; 32]) -> Scalar {
    <Scalar as Reduce<U256>>::reduce_bytes(&(*b).into())
}

fn point_bytes(p: &AffinePoint) -> Option<[u8; 64]> {
    let e = p.to_encoded_point(false);
    let mut out = [0u8; 64];
    out[..32].copy_from_slice(e.x()?);
    out[32..].copy_from_slice(e.y()?);
    Some(out)
}

/// A signature (r, s) with the *given* s that is valid for message z under the key dG,
/// d = (s·k − z)·r⁻¹, with R = kG. Returns (compact signature with the correct parity bit, dG).
pub fn construct_for_s(k: &[u8; 32], s: &[u8; 32], z: &[u8; 32]) -> Option<([u8; 64], [u8; 64])> {
    let mut k = scalar_reduced(k);
    if bool::from(k.is_zero()) {
        k = Scalar::ONE;
    }
    let s_sc: Scalar = Option::from(Scalar::from_repr((*s).into()))?;
    let big_r = (ProjectivePoint::GENERATOR * k).to_affine();
    let rx = big_r.x();
    let r = <Scalar as Reduce<U256>>::reduce_bytes(&rx);
    let r_inv: Scalar = Option::from(r.invert())?;
    let d = (s_sc * k - scalar_reduced(z)) * r_inv;
    if bool::from(d.is_zero()) {
        return None;
    }
    let q = (ProjectivePoint::GENERATOR * d).to_affine();
    let mut sig = [0u8; 64];
    sig[..32].copy_from_slice(&r.to_repr());
    sig[32..].copy_from_slice(s);
    if sig[32] & 0x80 != 0 {
        return None; // not encodable
    }
    if bool::from(big_r.y_is_odd()) {
        sig[32] |= 0x80;
    }
    Some((sig, point_bytes(&q)?))
}

/// s in (n/2, 2^255): the top 16 bytes are 7F FF..FF, the low 16 bytes are > the low half
/// of floor(n/2)
fn high_s() -> impl Strategy<Value = [u8; 32]> {
    let lo = u128::from_be_bytes(K1_HALF_N[16..].try_into().unwrap());
    let mk = |low: u128| {
        let mut s = [0xffu8; 32];
        s[0] = 0x7f;
        s[16..].copy_from_slice(&low.to_be_bytes());
        s
    };
    prop_oneof![
        3 => any::<u128>().prop_map(move |t| mk(lo + 1 + (t >> 1))),      // from the bottom of the range
        3 => any::<u128>().prop_map(move |t| mk(u128::MAX - (t >> 1))),   // from the top of the range
        2 => (0u64..4096).prop_map(move |d| mk(lo + 1 + d as u128)),
        2 => (0u64..4096).prop_map(move |d| mk(u128::MAX - d as u128)),
    ]
}

/// mode 0: recover (expected key known), 1: recover with the other parity bit, 2: verify
/// under the constructed key
fn high_s_case(mode: u8) -> impl Strategy<Value = K1Op> {
    (any::<[u8; 32]>(), high_s(), msg32()).prop_map(move |(k, s, z)| {
        let what = mode;
        let Some((sig, q)) = construct_for_s(&k, &s, &z.0) else {
            // degenerate construction (probability ~2^-128): fall back to a plain comparison
            let mut sig = [0u8; 64];
            sig[..32].copy_from_slice(&K1_GX);
            sig[32..].copy_from_slice(&s);
            return K1Op::Recover { sig: Hx(sig), msg: z, expect: None };
        };
        match what {
            0 => K1Op::Recover { sig: Hx(sig), msg: z, expect: Some(Hx(q)) },
            1 => {
                // other parity bit: recovers some other key in a backend that accepts high s
                let mut sig = sig;
                sig[32] ^= 0x80;
                K1Op::Recover { sig: Hx(sig), msg: z, expect: None }
            }
            _ => K1Op::Verify { sig: Hx(sig), pk: Hx(q), msg: z },
        }
    })
}

fn lib_signed() -> impl Strategy<Value = (Hx<32>, Hx<32>, [u8; 64], [u8; 64])> {
    (k1_secret(), msg32()).prop_map(|(sk, msg)| {
        let s = secret(&sk).expect("generator yields valid secrets");
        let m = Message::from_bytes(msg.0);
        let sig = *fuel_crypto::Signature::sign(&s, &m);
        let pk = *s.public_key();
        (sk, msg, sig, pk)
    })
}

fn pk_variant(pk: [u8; 64], sel: u8, other: [u8; 64], bit: u16) -> [u8; 64] {
    match sel {
        0..=3 => pk,
        4 => {
            let mut p = pk;
            flip_bit(&mut p, crate::gens::pick(bit, 512));
            p
        }
        5 => other,
        6 => {
            let mut p = pk;
            p[..32].copy_from_slice(&K1_P); // x = p: not a field element
            p
        }
        7 => [0u8; 64],
        _ => {
            // (x, -y): the other point with this x (p - y)
            let mut p = pk;
            let mut borrow = 0i16;
            for i in (0..32).rev() {
                let v = K1_P[i] as i16 - pk[32 + i] as i16 - borrow;
                if v < 0 {
                    p[32 + i] = (v + 256) as u8;
                    borrow = 1;
                } else {
                    p[32 + i] = v as u8;
                    borrow = 0;
                }
            }
            p
        }
    }
}

/// messages below n (the sign class without reduction)
fn msg_lt_n() -> impl Strategy<Value = Hx<32>> {
    msg32().prop_map(|mut m| {
        if m.0 >= K1_N {
            m.0[0] &= 0x7f;
        }
        m
    })
}

/// messages in [n, 2^256)
fn msg_ge_n() -> impl Strategy<Value = Hx<32>> {
    prop_oneof![
        2 => (0u64..64).prop_map(|d| Hx(be_add(K1_N, d))),
        2 => (0u64..64).prop_map(|d| Hx(be_sub(MAX32, d))),
        1 => Just(Hx(K1_P)),
        4 => any::<[u8; 16]>().prop_map(|lo| { let mut m = MAX32; m[16..].copy_from_slice(&lo); Hx(m) }),
    ]
}

fn key_sign_case(ge_n: bool) -> impl Strategy<Value = K1Op> {
    let msg = if ge_n { msg_ge_n().boxed() } else { msg_lt_n().boxed() };
    (k1_secret(), msg, 0u8..4).prop_map(move |(sk, msg, what)| if what == 0 && !ge_n { K1Op::PublicKey { sk } } else { K1Op::Sign { sk, msg } })
}

fn signed_case() -> impl Strategy<Value = K1Op> {
    (lib_signed(), 3u8..8, msg32(), 0u8..9, any::<[u8; 64]>(), any::<u16>()).prop_map(|((_sk, msg, sig, pk), what, m2, pksel, other, bit)| match what {
        3 => K1Op::Recover { sig: Hx(sig), msg, expect: None },
        4 => {
            let mut s = sig;
            s[32] ^= 0x80;
            K1Op::Recover { sig: Hx(s), msg, expect: None }
        }
        5 => K1Op::Recover { sig: Hx(sig), msg: m2, expect: None },
        6 => K1Op::Verify { sig: Hx(sig), pk: Hx(pk_variant(pk, pksel, other, bit)), msg },
        _ => K1Op::Verify { sig: Hx(sig), pk: Hx(pk), msg: m2 },
    })
}

fn bitflip_case() -> impl Strategy<Value = K1Op> {
    (lib_signed(), prop::collection::vec(any::<u16>(), 1..=3), any::<bool>()).prop_map(|((_sk, msg, sig, pk), bits, rec)| {
        let mut s = sig;
        for b in bits {
            flip_bit(&mut s, crate::gens::pick(b, 512));
        }
        if rec {
            K1Op::Recover { sig: Hx(s), msg, expect: None }
        } else {
            K1Op::Verify { sig: Hx(s), pk: Hx(pk), msg }
        }
    })
}

/// r uniform or special, s uniform low or special: about half of all r are not x-coordinates
fn random_rs_case() -> impl Strategy<Value = K1Op> {
    let r = prop_oneof![
        6 => any::<[u8; 32]>(),
        1 => (0u64..64).prop_map(|d| be_sub(K1_N, d)),
        1 => (0u64..64).prop_map(|d| be_add(K1_N, d)),
        1 => (0u64..64).prop_map(be_from_u64),
        1 => (0u64..64).prop_map(|d| be_sub(K1_P, d)),
        1 => (0u64..64).prop_map(|d| be_sub(MAX32, d)),
    ];
    let s = prop_oneof![
        6 => any::<[u8; 32]>().prop_map(|mut s| { s[0] &= 0x7f; if s > K1_HALF_N { s[0] &= 0x3f; } s }),
        1 => (0u64..64).prop_map(be_from_u64),
        1 => (0u64..64).prop_map(|d| be_sub(K1_HALF_N, d)),
    ];
    (r, s, any::<bool>(), msg32(), any::<bool>(), k1_secret()).prop_map(|(r, s, odd, msg, rec, sk)| {
        let mut sig = [0u8; 64];
        sig[..32].copy_from_slice(&r);
        sig[32..].copy_from_slice(&s);
        if odd {
            sig[32] |= 0x80;
        }
        if rec {
            K1Op::Recover { sig: Hx(sig), msg, expect: None }
        } else {
            let pk = *secret(&sk).expect("valid").public_key();
            K1Op::Verify { sig: Hx(sig), pk: Hx(pk), msg }
        }
    })
}

fn random_bytes_case() -> impl Strategy<Value = K1Op> {
    (any::<[u8; 64]>(), any::<[u8; 32]>(), any::<[u8; 64]>(), 0u8..3, k1_secret()).prop_map(|(sig, msg, pkraw, what, sk)| match what {
        0 => K1Op::Recover { sig: Hx(sig), msg: Hx(msg), expect: None },
        1 => K1Op::Verify { sig: Hx(sig), pk: Hx(pkraw), msg: Hx(msg) },
        _ => K1Op::Verify { sig: Hx(sig), pk: Hx(*secret(&sk).expect("valid").public_key()), msg: Hx(msg) },
    })
}

// ------------------------------------------------------------------ boundary lattice

fn is_high_s_recover(op: &K1Op) -> bool {
    matches!(op, K1Op::Recover { sig, .. } if sig_class(&sig.0) == "high-s")
}

fn lattice_part(name: &str, rule: &str, high_s_recover: bool) -> Box<dyn PartDyn> {
    enum_part(name, rule, true,
        move |_c: &Ctx, shard, n, sink: &mut dyn FnMut(K1Op) -> bool| {
            let sel = boundary_lattice().into_iter().filter(|op| is_high_s_recover(op) == high_s_recover);
            for (i, op) in sel.enumerate() {
                if i % n == shard && !sink(op) {
                    return;
                }
            }
        },
        check)
}

fn boundary_lattice() -> Vec<K1Op> {
    // a fixed valid signature supplies a known-good r, s and key
    let sk = SecretKey::try_from(Bytes32::from(be_from_u64(0xC16))).expect("valid");
    let m0 = hx32("4b688df40bcedbe641ddb16ff0a1842d9c67ea1c3bf63f3e0471baa664531d1a");
    let sig0 = *fuel_crypto::Signature::sign(&sk, &Message::from_bytes(m0));
    let pk0 = *sk.public_key();
    let (r0, s0, _) = split(&sig0);
    let two255 = be_pow2(255);
    let rs = [
        ZERO32, be_from_u64(1), be_from_u64(2), be_from_u64(3), be_sub(K1_N, 1), K1_N, be_add(K1_N, 1), be_sub(K1_P, 1), K1_P,
        MAX32, two255, r0, K1_GX, K1_HALF_N,
    ];
    let ss = [
        ZERO32, be_from_u64(1), be_from_u64(2), be_sub(K1_HALF_N, 1), K1_HALF_N, be_add(K1_HALF_N, 1), be_add(K1_HALF_N, 2),
        be_sub(two255, 1), be_sub(two255, 2), s0,
    ];
    let ms = [ZERO32, be_from_u64(1), be_sub(K1_N, 1), K1_N, be_add(K1_N, 1), MAX32, m0];
    let mut v = vec![];
    for r in rs {
        for s in ss {
            for odd in [false, true] {
                for m in ms {
                    let mut sig = [0u8; 64];
                    sig[..32].copy_from_slice(&r);
                    sig[32..].copy_from_slice(&s);
                    if odd {
                        sig[32] |= 0x80;
                    }
                    v.push(K1Op::Recover { sig: Hx(sig), msg: Hx(m), expect: None });
                    v.push(K1Op::Verify { sig: Hx(sig), pk: Hx(pk0), msg: Hx(m) });
                }
            }
        }
    }
    v
}

// ------------------------------------------------------------------ default API vs the VM

#[derive(Debug, Clone, Serialize, Deserialize)]
pub struct VmCase {
    sig: Hx<64>,
    msg: Hx<32>,
}

fn vm_case() -> impl Strategy<Value = VmCase> {
    let from = |op: K1Op| match op {
        K1Op::Recover { sig, msg, .. } | K1Op::Verify { sig, msg, .. } => VmCase { sig, msg },
        K1Op::PublicKey { .. } | K1Op::Sign { .. } => VmCase { sig: Hx([0u8; 64]), msg: Hx(ZERO32) },
    };
    prop_oneof![
        3 => lib_signed().prop_map(|(_, msg, sig, _)| VmCase { sig: Hx(sig), msg }),
        1 => high_s_case(0).prop_map(from),
        1 => high_s_case(1).prop_map(from),
        2 => bitflip_case().prop_map(from),
        2 => random_rs_case().prop_map(from),
        1 => random_bytes_case().prop_map(from),
    ]
}

fn check_vm(c: &VmCase, obs: &mut Obs) -> Check {
    let m = Message::from_bytes(c.msg.0);
    let lib = fuel_crypto::Signature::from_bytes(c.sig.0).recover(&m);
    let vm = vm_crypto(&c.sig.0, &c.msg.0, &c.sig.0, &c.msg.0, &[0u8; 32], &[0u8; 64], &[0u8; 32], 32)
        .map_err(|e| Failure::new("harness-vm-script", e))?;
    let cls = sig_class(&c.sig.0);
    obs.class(&format!("eck1:{cls}:{}", if lib.is_ok() { "ok" } else { "err" }));
    if lib.is_ok() || cls != "canonical" {
        obs.nontrivial(&(c.sig.0, c.msg.0));
    }
    match lib {
        Ok(pk) => {
            ensure!(vm.eck1.0 == 0, format!("eck1:{cls}:library-ok-vm-err"), "sig {:?} msg {:?}: library recovers {pk:?}, ECK1 sets $err", c.sig, c.msg);
            ensure!(vm.eck1.1 == *pk, format!("eck1:{cls}:different-key"), "sig {:?} msg {:?}: library {pk:?} ECK1 wrote {}", c.sig, c.msg, hex::encode(vm.eck1.1));
        }
        Err(_) => {
            ensure!(vm.eck1.0 == 1, format!("eck1:{cls}:library-err-vm-ok"), "sig {:?} msg {:?}: library fails, ECK1 $err = {}", c.sig, c.msg, vm.eck1.0);
            ensure!(vm.eck1.1 == [0u8; 64], format!("eck1:{cls}:error-output-not-zeroed"), "ECK1 wrote {}", hex::encode(vm.eck1.1));
        }
    }
    Ok(())
}

// ------------------------------------------------------------------ property

pub fn property() -> Property {
    Property {
        id: "C16",
        rule: "every case is one operation (public_key | sign | recover | verify) on one input, run on the libsecp256k1 and on the k256 backend through hook H1; same key / same bytes / both errors required (after an agreed recover=Ok also verify under the recovered key). Each input class has its own part: public_key/sign for messages < n; sign for messages in [n,2^256); library-signed signatures (other parity bit, other message, 9 public-key mutations); 1-3 bit flips of valid signatures; CONSTRUCTED high-s signatures (nonce k, R=kG, chosen s in (n/2,2^255), key d=(s*k-z)/r, so the expected key d*G is known) for recover / recover with the other parity bit / verify; the exhaustive lattice r in {0,1,2,3,n-1,n,n+1,p-1,p,2^256-1,2^255,valid r,Gx,n/2} x s in {0,1,2,n/2-1,n/2,n/2+1,n/2+2,2^255-1,2^255-2,valid s} x both parity bits x 7 messages x {recover,verify} (recover on its high-s points is a part of its own); random and near-boundary (r,s) with about half the r not x-coordinates; random 64 bytes; ECK1 vs Signature::recover. Failure key = op:class:outcome with the class computed from the signature bytes (r-zero, r-ge-n, s-zero, r-not-x, high-s, canonical) or the message (msg-zero, msg-lt-n, msg-ge-n). Non-trivial = at least one backend succeeds, or the signature is not canonical; distinct by (op, signature, message, key) bytes".into(),
        assumptions: vec![
            "k256 scalar/point arithmetic is used to construct inputs and the expected key of constructed signatures (not as an oracle for ordinary signatures)".into(),
            "hook H1 re-exports the two backend modules unchanged".into(),
            "error kinds are not compared (the statement speaks of 'failure'); the VM only observes $err".into(),
        ],
        parts: vec![
            gen_part("keys-sign", "public_key(sk) and sign(sk, m) for m < n; secrets biased to 1.. and ..n-1", (40_000, 1_000_000), |_c: &Ctx| key_sign_case(false), check),
            gen_part("sign-msg-ge-n", "sign(sk, m) for n <= m < 2^256 (the digest is reduced mod n by ECDSA)", (20_000, 500_000), |_c: &Ctx| key_sign_case(true), check),
            gen_part("signed", "library-signed: recover (as is / other parity bit / other message), verify (same key, mutated key, other message)", (80_000, 2_000_000), |_c: &Ctx| signed_case(), check),
            gen_part("bitflip", "1-3 bit flips of a library-signed signature: recover and verify under the signer's key", (80_000, 2_000_000), |_c: &Ctx| bitflip_case(), check),
            gen_part("high-s-recover", "constructed valid signatures with n/2 < s < 2^255 (nonce k, R=kG, d=(s*k-z)/r): recover; a backend that returns a key must return d*G", (30_000, 800_000), |_c: &Ctx| high_s_case(0), check),
            gen_part("high-s-recover-other-parity", "the same signatures with the other parity bit: recover", (15_000, 400_000), |_c: &Ctx| high_s_case(1), check),
            gen_part("high-s-verify", "the same signatures: verify under the constructed key d*G", (30_000, 800_000), |_c: &Ctx| high_s_case(2), check),
            lattice_part("boundary-lattice", "r x s x parity x message lattice, recover and verify, except recover on lattice points of class high-s", false),
            lattice_part("boundary-lattice-high-s-recover", "recover on the lattice points of class high-s (r a valid x-coordinate, s in {n/2+1, n/2+2, 2^255-2, 2^255-1})", true),
            gen_part("random-rs", "random / near-boundary r with random low s, both parity bits: recover, verify under a valid key", (80_000, 2_000_000), |_c: &Ctx| random_rs_case(), check),
            gen_part("random-bytes", "random 64-byte signatures, messages, and (for verify) random 64-byte or valid public keys", (60_000, 1_500_000), |_c: &Ctx| random_bytes_case(), check),
            gen_part("vm-eck1", "default build: Signature::recover vs the ECK1 instruction ($err and the 64 output bytes) on signed, high-s, bit-flipped and random signatures", (6_000, 150_000), |_c: &Ctx| vm_case(), check_vm),
        ],
        floors: vec![
            ("high-s-recover", "high-s", 0.95),
            ("high-s-recover-other-parity", "high-s", 0.95),
            ("high-s-verify", "high-s", 0.95),
            ("sign-msg-ge-n", "sign:msg-ge-n", 0.95),
            ("random-rs", "r-not-x", 0.25),
            ("random-rs", "canonical", 0.25),
            ("bitflip", "canonical", 0.20),
        ],
    }
}
