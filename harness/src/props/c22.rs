//! C22 — Wide-integer instructions follow the specification.
//!
//! One of WDCM … WQMM is executed with `Interpreter::instruction` on a fresh script VM (a clone
//! of a never-executed `vmfix::default_vm()`), after a heap buffer was allocated with ALOC, the
//! stack frame extended with CFEI, the owned memory filled with an address-dependent pattern,
//! the operand values written big-endian at the places the case names, and the registers
//! planted. The reference result comes from `model::big` (own 512-bit limb arithmetic), the
//! reference memory behaviour from the access predicate of the specification:
//! a range is readable iff `end ≤ MEM_SIZE` (else MemoryOverflow) and (`end ≤ $sp` or
//! `start ≥ $hp`) (else UninitalizedMemoryAccess); it is writable iff readable and owned
//! (`$ssp ≤ start ∧ end ≤ $sp`, or `start ≥ $hp` in a script that allocated) (else MemoryOwnership).
//! The model reads the operands from a snapshot of the memory taken right before the
//! instruction, at the addresses the registers hold, so aliasing and overlapping operands need no
//! special treatment.
//!
//! Verdict: the set of applicable panic reasons (immediate, operand reads, arithmetic per
//! `$flag`, destination) is computed; empty ⇒ the instruction must succeed with exactly the
//! specified register / memory effect and nothing else changed; non-empty ⇒ it must panic with a
//! member of the set and leave memory unchanged. Don't-care: an indirect rhs that the operation
//! discards (NOT, LZC) and that points at unreadable memory — success and that read's panic are
//! both accepted and counted.
use crate::engine::*;
use crate::gens;
use crate::model::big::{self, Family, U512};
use crate::model::isa::{self, Fields, Shape};
use crate::vmfix::{self, is_gas_reg, RegFile, ScriptVm, StepError, NREGS};
use crate::{ensure, ensure_eq, fail};
use fuel_asm::PanicReason;
use fuel_vm::state::ExecuteState;
use proptest::prelude::*;
use serde::{Deserialize, Serialize};
use std::cell::RefCell;

/// VM_MAX_RAM of the specification: 64 MiB
const MEM: u64 = 1 << 26;
const R_OF: usize = 0x02;
const R_PC: usize = 0x03;
const R_SSP: usize = 0x04;
const R_SP: usize = 0x05;
const R_HP: usize = 0x07;
const R_ERR: usize = 0x08;
const R_FLAG: usize = 0x0F;
const WRITABLE: u8 = 0x10;

/// (mnemonic, opcode byte per the specification, family, width in bits)
const OPS: [(&str, u8, Family, u32); 14] = [
    ("WDCM", 0xA0, Family::Cmp, 128),
    ("WQCM", 0xA1, Family::Cmp, 256),
    ("WDOP", 0xA2, Family::Op, 128),
    ("WQOP", 0xA3, Family::Op, 256),
    ("WDML", 0xA4, Family::Mul, 128),
    ("WQML", 0xA5, Family::Mul, 256),
    ("WDDV", 0xA6, Family::Div, 128),
    ("WQDV", 0xA7, Family::Div, 256),
    ("WDMD", 0xA8, Family::MulDiv, 128),
    ("WQMD", 0xA9, Family::MulDiv, 256),
    ("WDAM", 0xAA, Family::AddMod, 128),
    ("WQAM", 0xAB, Family::AddMod, 256),
    ("WDMM", 0xAC, Family::MulMod, 128),
    ("WQMM", 0xAD, Family::MulMod, 256),
];

/// where an operand register points (resolved after the VM was set up)
#[derive(Debug, Clone, Copy, PartialEq, Eq, Hash, Serialize, Deserialize)]
pub enum Place {
    /// `$hp + k` (allocated heap when k + size ≤ heap length)
    Heap(u16),
    /// `$ssp + k` (own stack frame when k + size ≤ stack length)
    Stack(u16),
    /// absolute low address k: transaction bytes, readable but never owned
    Low(u16),
    /// `$ssp − k`: readable, not owned (straddles the ownership boundary when k < size)
    BelowSsp(u16),
    /// `$sp + k`: k < 0 straddles the end of the stack, k ≥ 0 lies in the unallocated gap
    Sp(i16),
    /// `$hp − k`: k > 0 lies in the gap or straddles the start of the heap
    BelowHp(u16),
    /// `MEM_SIZE − k`: k = size is the last valid range, smaller k overflows
    Top(i16),
    Abs(u64),
    /// the address of the destination + k (operand aliasing / overlapping the destination)
    Dst(i8),
}

#[derive(Debug, Clone, Serialize, Deserialize, PartialEq, Eq)]
pub struct WideCase {
    /// opcode byte 0xA0..=0xAD
    pub op: u8,
    /// 6-bit immediate of WxCM/WxOP/WxML/WxDV (ignored by the four-register forms)
    pub imm: u8,
    /// register ids rA, rB, rC, rD (rD only in the four-register forms)
    pub regs: [u8; 4],
    /// where rA (destination), rB, rC, rD point; a register < 0x10 is not planted and keeps its value
    pub places: [Place; 4],
    /// values of the operands behind rB, rC, rD: four 64-bit limbs, most significant first
    /// (128-bit forms use the last two); a direct operand is the last limb
    pub vals: [[u64; 4]; 3],
    pub flag: u8,
    pub of: u64,
    pub err: u64,
    /// bytes allocated on the heap (ALOC) and on the stack (CFEI) before the instruction
    pub heap: u16,
    pub stack: u16,
}

fn op_of(byte: u8) -> Option<&'static (&'static str, u8, Family, u32)> {
    OPS.iter().find(|o| o.1 == byte)
}

thread_local! {
    static PRISTINE: RefCell<Option<ScriptVm>> = const { RefCell::new(None) };
}

/// a fresh VM: clone of this thread's never-executed fixture VM
fn fresh_vm() -> Result<ScriptVm, String> {
    PRISTINE.with(|p| {
        let mut p = p.borrow_mut();
        if p.is_none() {
            *p = Some(vmfix::default_vm()?);
        }
        Ok(p.as_ref().expect("just set").clone())
    })
}

fn word_for(name: &str, fields: &[u32]) -> u32 {
    let snap = isa::snapshot();
    let o = snap.iter().find(|o| o.name == name).expect("mnemonic in the ISA snapshot");
    o.shape.pack(o.byte, &Fields::of(fields))
}

/// address-dependent fill pattern (never 0, so a zeroed or shifted range is visible)
fn pattern(addr: u64) -> u8 {
    let x = addr.wrapping_mul(0x9E37_79B9_7F4A_7C15) >> 56;
    (x as u8) | 0x01
}

/// the memory as the specification sees it: bytes of [0, sp) and [hp, MEM)
struct MemView {
    low: Vec<u8>,
    high: Vec<u8>,
    ssp: u64,
    sp: u64,
    hp: u64,
}

impl MemView {
    fn snapshot(vm: &ScriptVm, ssp: u64, sp: u64, hp: u64) -> Result<MemView, String> {
        let low = vm.memory().read(0u64, sp).map_err(|e| format!("snapshot [0,$sp): {e:?}"))?.to_vec();
        let high = vm.memory().read(hp, MEM - hp).map_err(|e| format!("snapshot [$hp,MEM): {e:?}"))?.to_vec();
        Ok(MemView { low, high, ssp, sp, hp })
    }
    fn readable(&self, a: u64, n: u64) -> Option<PanicReason> {
        let end = a as u128 + n as u128;
        if end > MEM as u128 {
            Some(PanicReason::MemoryOverflow)
        } else if end <= self.sp as u128 || a >= self.hp {
            None
        } else {
            Some(PanicReason::UninitalizedMemoryAccess)
        }
    }
    fn read(&self, a: u64, n: u64) -> Result<&[u8], PanicReason> {
        if let Some(r) = self.readable(a, n) {
            return Err(r);
        }
        if a + n <= self.sp {
            Ok(&self.low[a as usize..(a + n) as usize])
        } else {
            Ok(&self.high[(a - self.hp) as usize..(a + n - self.hp) as usize])
        }
    }
    fn writable(&self, a: u64, n: u64) -> Option<PanicReason> {
        if let Some(r) = self.readable(a, n) {
            return Some(r);
        }
        let end = a + n;
        let stack = self.ssp <= a && a < self.sp && end <= self.sp;
        // script context: everything the script allocated, [$hp, MEM_SIZE)
        let heap = a >= self.hp && self.hp != MEM && end <= MEM;
        if stack || heap {
            None
        } else {
            Some(PanicReason::MemoryOwnership)
        }
    }
    fn put(&mut self, a: u64, bytes: &[u8]) {
        let n = bytes.len() as u64;
        if a + n <= self.sp {
            self.low[a as usize..(a + n) as usize].copy_from_slice(bytes);
        } else {
            self.high[(a - self.hp) as usize..(a + n - self.hp) as usize].copy_from_slice(bytes);
        }
    }
    /// first address at which two views of the same shape differ
    fn first_diff(&self, o: &MemView) -> Option<u64> {
        if let Some(i) = self.low.iter().zip(o.low.iter()).position(|(x, y)| x != y) {
            return Some(i as u64);
        }
        self.high.iter().zip(o.high.iter()).position(|(x, y)| x != y).map(|i| self.hp + i as u64)
    }
    fn region(&self, a: u64, n: u64) -> &'static str {
        let end = a as u128 + n as u128;
        if end > MEM as u128 {
            if a >= MEM { "beyond-memory" } else { "straddles-memory-end" }
        } else if a >= self.hp {
            "heap"
        } else if end > self.hp as u128 {
            "straddles-hp"
        } else if a >= self.sp {
            "gap"
        } else if end > self.sp as u128 {
            "straddles-sp"
        } else if a >= self.ssp {
            "stack-frame"
        } else if end > self.ssp as u128 {
            "straddles-ssp"
        } else {
            "below-ssp"
        }
    }
}

fn value_of(limbs: &[u64; 4], w: u32) -> U512 {
    U512([limbs[3], limbs[2], limbs[1], limbs[0], 0, 0, 0, 0]).low_bits(w)
}

fn limbs_of(x: &U512) -> [u64; 4] {
    [x.0[3], x.0[2], x.0[1], x.0[0]]
}

fn resolve(p: Place, ssp: u64, sp: u64, hp: u64, dst: u64) -> u64 {
    match p {
        Place::Heap(k) => hp.wrapping_add(k as u64),
        Place::Stack(k) => ssp.wrapping_add(k as u64),
        Place::Low(k) => k as u64,
        Place::BelowSsp(k) => ssp.wrapping_sub(k as u64),
        Place::Sp(k) => sp.wrapping_add(k as i64 as u64),
        Place::BelowHp(k) => hp.wrapping_sub(k as u64),
        Place::Top(k) => MEM.wrapping_sub(k as i64 as u64),
        Place::Abs(a) => a,
        Place::Dst(k) => dst.wrapping_add(k as i64 as u64),
    }
}

fn check_wide(c: &WideCase, obs: &mut Obs) -> Check {
    let Some(&(name, byte, fam, w)) = op_of(c.op) else { fail!("harness-wide-case", "opcode byte {:#04x} is not a wide-integer instruction", c.op) };
    ensure!(c.regs.iter().all(|r| *r < 64) && c.imm < 64 && c.flag < 4 && c.heap <= 4096 && c.stack <= 4096, "harness-wide-case", "field out of range");
    let n = (w / 8) as u64;
    let [ra, rb, rc, rd] = c.regs;
    let word = if fam.has_imm() {
        Shape::RRRI6.pack(byte, &Fields::of(&[ra as u32, rb as u32, rc as u32, c.imm as u32]))
    } else {
        Shape::RRRR.pack(byte, &Fields::of(&[ra as u32, rb as u32, rc as u32, rd as u32]))
    };
    let h = |what: &str, e: String| Failure::new("harness-vm-fixture", format!("{what}: {e}"));

    // ---- set up the VM: heap buffer, stack frame
    let mut vm = fresh_vm().map_err(|e| h("fixture", e))?;
    if c.heap > 0 {
        vm.registers_mut()[0x10] = c.heap as u64;
        let r = vmfix::step(&mut vm, word_for("ALOC", &[0x10]));
        ensure!(matches!(r, Ok(ExecuteState::Proceed)), "harness-vm-fixture", "ALOC {}: {r:?}", c.heap);
    }
    if c.stack > 0 {
        let r = vmfix::step(&mut vm, word_for("CFEI", &[c.stack as u32]));
        ensure!(matches!(r, Ok(ExecuteState::Proceed)), "harness-vm-fixture", "CFEI {}: {r:?}", c.stack);
    }
    let base = vmfix::regfile(&vm);
    let (ssp, sp, hp) = (base[R_SSP], base[R_SP], base[R_HP]);
    ensure!(sp == ssp + c.stack as u64 && hp == MEM - c.heap as u64 && sp < hp, "harness-vm-fixture", "unexpected layout ssp={ssp} sp={sp} hp={hp}");

    // ---- registers
    let mut regs: RegFile = base;
    regs[R_FLAG] = c.flag as u64;
    regs[R_OF] = c.of;
    regs[R_ERR] = c.err;
    let direct = |i: usize| c.vals[i][3];
    let bit4 = c.imm & 0x10 != 0;
    let bit5 = c.imm & 0x20 != 0;
    // is the operand behind rB / rC / rD a pointer (by the immediate's bits, valid or not)?
    let ptr_b = fam != Family::Mul || bit4;
    let ptr_c = !fam.has_imm() || bit5;
    let dst_addr = resolve(match c.places[0] { Place::Dst(_) => Place::Heap(0), p => p }, ssp, sp, hp, 0);
    let planted: [(u8, u64, bool); 4] = [
        (ra, if fam.reg_dst() { 0xDEAD_BEEF_0BAD_F00D } else { dst_addr }, true),
        (rb, if ptr_b { resolve(c.places[1], ssp, sp, hp, dst_addr) } else { direct(0) }, true),
        (rc, if ptr_c { resolve(c.places[2], ssp, sp, hp, dst_addr) } else { direct(1) }, true),
        (rd, resolve(c.places[3], ssp, sp, hp, dst_addr), !fam.has_imm()),
    ];
    for (r, v, used) in planted {
        if used && r >= WRITABLE {
            regs[r as usize] = v;
        }
    }
    vmfix::plant(&mut vm, &regs);

    // ---- memory: pattern over everything owned, then the operand values (later wins)
    {
        let m = vm.memory_mut();
        for (lo, hi) in [(ssp, sp), (hp, MEM)] {
            if hi > lo {
                let s = m.write_noownerchecks(lo, hi - lo).map_err(|e| h("fill", format!("{e:?}")))?;
                for (i, b) in s.iter_mut().enumerate() {
                    *b = pattern(lo + i as u64);
                }
            }
        }
        for (i, (r, is_ptr)) in [(rb, ptr_b), (rc, ptr_c), (rd, !fam.has_imm())].into_iter().enumerate() {
            if is_ptr && !is_gas_reg(r as usize) {
                let bytes = value_of(&c.vals[i], w).to_be_bytes(n as usize);
                if let Ok(s) = m.write_noownerchecks(regs[r as usize], n) {
                    s.copy_from_slice(&bytes);
                }
            }
        }
    }
    let pre = MemView::snapshot(&vm, ssp, sp, hp).map_err(|e| h("snapshot", e))?;

    // ---- run
    let res = vmfix::step(&mut vm, word);
    let after = vmfix::regfile(&vm);
    let post = MemView::snapshot(&vm, ssp, sp, hp).map_err(|e| h("snapshot after", e))?;

    // ---- reference
    let src = |r: u8| if is_gas_reg(r as usize) { after[r as usize] } else { regs[r as usize] };
    let (a_val, b_val, c_val, d_val) = (src(ra), src(rb), src(rc), src(rd));
    let mode = big::decode(fam, c.imm & if fam.has_imm() { 0x3F } else { 0 });
    let mut adm: Vec<PanicReason> = vec![];
    let push = |adm: &mut Vec<PanicReason>, r: PanicReason| {
        if !adm.contains(&r) {
            adm.push(r)
        }
    };
    let mut optional: Option<PanicReason> = None;
    let mut value: Option<big::Value> = None;
    let mut traits = big::Traits::default();
    let mut bitlens = (0u32, 0u32, 0u32);
    let label: String;
    match mode {
        None => {
            label = format!("{name}.invalid-imm");
            obs.class("invalid-imm");
            push(&mut adm, PanicReason::InvalidImmediateValue);
            // the order of the immediate check and the operand checks is not specified
            if ptr_b {
                if let Some(r) = pre.readable(b_val, n) {
                    push(&mut adm, r);
                }
            }
            if ptr_c {
                if let Some(r) = pre.readable(c_val, n) {
                    push(&mut adm, r);
                }
            }
        }
        Some(m) => {
            label = match fam {
                Family::Cmp => format!("{name}.{}", big::CMP_NAMES[m.sel as usize]),
                Family::Op => format!("{name}.{}", big::OP_NAMES[m.sel as usize]),
                _ => name.to_string(),
            };
            let load = |ind: bool, v: u64| -> Result<U512, PanicReason> {
                if ind { pre.read(v, n).map(U512::from_be_bytes) } else { Ok(U512::from_u64(v)) }
            };
            let lhs = load(m.indirect_lhs, b_val);
            let mut rhs = load(m.indirect_rhs, c_val);
            let third = if fam.has_imm() { Ok(U512::ZERO) } else { load(true, d_val) };
            if m.discards_rhs {
                if let Err(r) = rhs {
                    optional = Some(r);
                    rhs = Ok(U512::ZERO);
                }
            }
            for x in [&lhs, &rhs, &third] {
                if let Err(r) = x {
                    push(&mut adm, *r);
                }
            }
            if let (Ok(l), Ok(r), Ok(t)) = (lhs, rhs, third) {
                bitlens = (l.bits(), r.bits(), t.bits());
                let (out, tr) = big::eval(fam, w, m, &l, &r, &t, c.flag as u64);
                traits = tr;
                match out {
                    Ok(v) => value = Some(v),
                    Err(big::Panic::ArithmeticOverflow) => push(&mut adm, PanicReason::ArithmeticOverflow),
                    Err(big::Panic::ArithmeticError) => push(&mut adm, PanicReason::ArithmeticError),
                }
            }
        }
    }
    if fam.reg_dst() {
        if ra < WRITABLE {
            push(&mut adm, PanicReason::ReservedRegisterNotWritable);
        }
    } else if let Some(r) = pre.writable(a_val, n) {
        push(&mut adm, r);
    }

    // ---- classification
    obs.class(&format!("op:{name}"));
    if !fam.reg_dst() {
        obs.class(&format!("dst:{}", pre.region(a_val, n)));
        if (a_val..a_val.saturating_add(n)).contains(&b_val) && ptr_b || (a_val..a_val.saturating_add(n)).contains(&c_val) && ptr_c {
            obs.class("operand-starts-inside-dst");
        }
    }
    if ptr_b {
        obs.class(&format!("lhs:{}", pre.region(b_val, n)));
    }
    if ptr_c {
        obs.class(&format!("rhs:{}", pre.region(c_val, n)));
    } else {
        obs.class("rhs:direct");
    }
    if !fam.has_imm() {
        obs.class(&format!("third:{}", pre.region(d_val, n)));
    }
    if c.regs.iter().take(if fam.has_imm() { 3 } else { 4 }).any(|r| *r < WRITABLE) {
        obs.class("reserved-register-operand");
    }
    if traits.overflow {
        obs.class("overflow");
    }
    if traits.undefined {
        obs.class("zero-divisor-or-modulus");
    }
    if traits.big_shift {
        obs.class("shift>=width");
    }
    if traits.divisor_is_pow {
        obs.class("muldiv-divisor-0");
    }
    if traits.overflow || traits.undefined || traits.big_shift || traits.divisor_is_pow {
        obs.class("non-trivial");
        obs.nontrivial(&(byte, c.imm, c.flag, traits, bitlens.0 / 8, bitlens.1 / 8, bitlens.2 / 8, adm.is_empty()));
    }

    // ---- verdict
    let ctx = || format!("{c:?} [ssp={ssp} sp={sp} hp={hp} A={a_val} B={b_val} C={c_val} D={d_val}]");
    let panic_checks = |r: &PanicReason, obs: &mut Obs| -> Check {
        obs.class(&format!("panic:{r:?}"));
        if let Some(at) = pre.first_diff(&post) {
            fail!(format!("{label}:panic-changed-memory"), "{}: panicked with {r:?} but memory byte {at} changed", ctx());
        }
        if (0..NREGS).any(|i| !is_gas_reg(i) && after[i] != regs[i]) {
            obs.note("panic left a non-gas register changed", 1);
        }
        Ok(())
    };
    if !adm.is_empty() {
        if let Some(o) = optional {
            push(&mut adm, o);
        }
        return match &res {
            Err(StepError::Panic(r)) if adm.contains(r) => panic_checks(r, obs),
            Ok(_) => {
                fail!(format!("{label}:missing-panic:{:?}", adm[0]), "{}: expected a panic from {adm:?}, the instruction succeeded (of={} err={})", ctx(), after[R_OF], after[R_ERR])
            }
            other => fail!(format!("{label}:wrong-panic:want-{:?}", adm[0]), "{}: expected a panic from {adm:?}, got {other:?}", ctx()),
        };
    }
    let v = value.expect("no applicable panic implies an arithmetic result");
    match &res {
        Ok(ExecuteState::Proceed) => {
            if optional.is_some() {
                obs.note("discarded indirect rhs unreadable: not dereferenced (success)", 1);
            }
        }
        Err(StepError::Panic(r)) if Some(*r) == optional => {
            obs.note("discarded indirect rhs unreadable: dereferenced (panic)", 1);
            return panic_checks(r, obs);
        }
        Err(StepError::Panic(r)) => fail!(format!("{label}:unexpected-panic:{r:?}"), "{}: expected success with value {:?} of={} err={}, got panic {r:?}", ctx(), v.value.0, v.of, v.err),
        other => fail!(format!("{label}:unexpected-result"), "{}: {other:?}", ctx()),
    }
    obs.class("ok");

    // memory: destination bytes exactly the big-endian result, nothing else changed
    let mut want_mem = MemView { low: pre.low.clone(), high: pre.high.clone(), ssp, sp, hp };
    if !fam.reg_dst() {
        want_mem.put(a_val, &v.value.to_be_bytes(n as usize));
    }
    if let Some(at) = want_mem.first_diff(&post) {
        let in_dst = !fam.reg_dst() && at >= a_val && at < a_val + n;
        if in_dst {
            let got = post.read(a_val, n).map(|b| b.to_vec()).unwrap_or_default();
            fail!(format!("{label}:dest-bytes"), "{}: destination holds {} want {} (lhs bits {}, rhs bits {}, third bits {})", ctx(), hex::encode(got), hex::encode(v.value.to_be_bytes(n as usize)), bitlens.0, bitlens.1, bitlens.2);
        }
        fail!(format!("{label}:other-memory-changed"), "{}: byte {at} outside the destination changed", ctx());
    }
    // registers
    let mut want = regs;
    want[R_OF] = v.of;
    want[R_ERR] = v.err;
    want[R_PC] = regs[R_PC] + 4;
    if fam.reg_dst() {
        want[ra as usize] = v.value.0[0];
        ensure_eq!(after[ra as usize], want[ra as usize], format!("{label}:dest-value"), "{} (lhs bits {}, rhs bits {})", ctx(), bitlens.0, bitlens.1);
    }
    ensure_eq!(after[R_OF], want[R_OF], format!("{label}:of"), "{} $of", ctx());
    ensure_eq!(after[R_ERR], want[R_ERR], format!("{label}:err"), "{} $err", ctx());
    ensure_eq!(after[R_PC], want[R_PC], format!("{label}:pc"), "{} $pc", ctx());
    for i in 0..NREGS {
        if is_gas_reg(i) {
            ensure!(after[i] <= regs[i], format!("{label}:gas-increased"), "gas register {i:#04x} went from {} to {}", regs[i], after[i]);
        } else {
            ensure_eq!(after[i], want[i], format!("{label}:other-register-changed"), "{}: register {i:#04x}", ctx());
        }
    }
    Ok(())
}

// ------------------------------------------------------------------ operand values

/// boundary values of width `w`: 0, 1, 2, small, shift amounts around the widths, 2^k−1, 2^k,
/// 2^k+1, MAX, MAX−1, high-half-only, alternating bits
fn boundary(w: u32) -> Vec<[u64; 4]> {
    let mut v: Vec<U512> = vec![];
    for s in [0u64, 1, 2, 3, 10, 127, 128, 129, 255, 256, 257] {
        v.push(U512::from_u64(s));
    }
    let ks: &[u32] = if w == 128 { &[8, 63, 64, 65, 127] } else { &[8, 63, 64, 65, 127, 128, 129, 255] };
    for &k in ks {
        let p = U512::pow2(k);
        v.push(p.sub(&U512::ONE).0);
        v.push(p);
        v.push(p.add(&U512::ONE).0.low_bits(w));
    }
    let max = U512::mask(w);
    v.push(max);
    v.push(max.sub(&U512::ONE).0);
    v.push(max.shl(w / 2).low_bits(w)); // high half only, all ones
    v.push(U512::pow2(w / 2).add(&U512::pow2(w - 8)).0); // high half only, two bits
    v.push(U512([0xAAAA_AAAA_AAAA_AAAA; 8]).low_bits(w));
    v.sort();
    v.dedup();
    v.iter().map(limbs_of).collect()
}

fn small_boundary(w: u32) -> Vec<[u64; 4]> {
    let max = U512::mask(w);
    let mut v = vec![
        U512::ZERO,
        U512::ONE,
        U512::from_u64(2),
        U512::from_u64(3),
        U512::pow2(64).add(&U512::ONE).0,
        U512::pow2(w / 2).sub(&U512::ONE).0,
        U512::pow2(w / 2),
        U512::pow2(w - 1),
        max.shl(w / 2).low_bits(w),
        U512([0x5555_5555_5555_5555; 8]).low_bits(w),
        max.sub(&U512::ONE).0,
        max,
    ];
    v.sort();
    v.dedup();
    v.iter().map(limbs_of).collect()
}

fn base_case(op: u8) -> WideCase {
    WideCase {
        op,
        imm: 0,
        regs: [0x10, 0x11, 0x12, 0x13],
        places: [Place::Heap(0), Place::Heap(32), Place::Heap(64), Place::Heap(96)],
        vals: [[0; 4]; 3],
        flag: 0,
        of: 7,
        err: 1,
        heap: 160,
        stack: 160,
    }
}

/// four operand layouts that are all valid: heap, stack, destination aliasing lhs, rhs aliasing
/// the destination
fn good_layout(k: usize) -> [Place; 4] {
    match k % 4 {
        0 => [Place::Heap(0), Place::Heap(32), Place::Heap(64), Place::Heap(96)],
        1 => [Place::Stack(1), Place::Stack(33), Place::Stack(65), Place::Stack(97)],
        2 => [Place::Heap(40), Place::Dst(0), Place::Stack(8), Place::Heap(120)],
        _ => [Place::Stack(100), Place::Heap(3), Place::Dst(0), Place::Low(40)],
    }
}

// ------------------------------------------------------------------ enumerations

/// every opcode with an immediate × all 64 immediates × boundary operand pairs × `$flag`;
/// the four-register opcodes × boundary triples (plus divisors / moduli aimed at the overflow and
/// the zero-remainder boundary) × `$flag`
fn enumerate_values(_ctx: &Ctx, shard: usize, nshards: usize, sink: &mut dyn FnMut(WideCase) -> bool) {
    let mut k = 0usize;
    let mut emit = |c: WideCase| -> bool {
        k += 1;
        if k % nshards != shard {
            return true;
        }
        let mut c = c;
        c.places = good_layout(k / nshards);
        sink(c)
    };
    for &(_, byte, fam, w) in OPS.iter() {
        let bv = boundary(w);
        if fam.has_imm() {
            for imm in 0..64u8 {
                let valid = big::decode(fam, imm).is_some();
                if !valid {
                    for (i, l) in [bv[1], bv[bv.len() - 1], bv[bv.len() / 2]].iter().enumerate() {
                        for flag in [0u8, 3] {
                            let mut c = base_case(byte);
                            (c.imm, c.flag) = (imm, flag);
                            c.vals = [*l, bv[i], [0; 4]];
                            if !emit(c) {
                                return;
                            }
                        }
                    }
                    continue;
                }
                for l in &bv {
                    for r in &bv {
                        for flag in 0..4u8 {
                            let mut c = base_case(byte);
                            (c.imm, c.flag) = (imm, flag);
                            c.vals = [*l, *r, [0; 4]];
                            if !emit(c) {
                                return;
                            }
                        }
                    }
                }
            }
        } else {
            let sv = small_boundary(w);
            for l in &sv {
                for r in &sv {
                    let (lv, rv) = (value_of(l, w), value_of(r, w));
                    let p = lv.mul(&rv).0;
                    let s = lv.add(&rv).0;
                    let hi = p.shr(w);
                    let mut thirds: Vec<U512> = sv.iter().map(|x| value_of(x, w)).collect();
                    for x in [hi, hi.add(&U512::ONE).0, hi.sub(&U512::ONE).0, s, s.add(&U512::ONE).0, s.sub(&U512::ONE).0, p, p.add(&U512::ONE).0] {
                        thirds.push(x.low_bits(w));
                    }
                    thirds.sort();
                    thirds.dedup();
                    for t in &thirds {
                        for flag in 0..4u8 {
                            let mut c = base_case(byte);
                            c.flag = flag;
                            c.vals = [*l, *r, limbs_of(t)];
                            if !emit(c) {
                                return;
                            }
                        }
                    }
                }
            }
        }
    }
}

fn dst_places(n: u16) -> Vec<Place> {
    let n_i = n as i16;
    vec![
        Place::Heap(0),
        Place::Heap(160 - n),     // last owned heap range = last range of memory
        Place::Heap(160 - n + 1), // one byte beyond memory
        Place::Stack(0),
        Place::Stack(160 - n),     // last owned stack range
        Place::Stack(160 - n + 1), // straddles $sp
        Place::Low(0),
        Place::Low(40),
        Place::BelowSsp(1), // starts one byte below the owned frame
        Place::BelowSsp(n), // ends exactly at $ssp
        Place::Sp(0),       // unallocated
        Place::Sp(-1),
        Place::BelowHp(1), // straddles $hp
        Place::BelowHp(n), // ends exactly at $hp: unallocated
        Place::Top(n_i - 1),
        Place::Top(0),
        Place::Abs(u64::MAX),
        Place::Abs(u64::MAX - n as u64 + 1),
    ]
}

fn src_places(n: u16) -> Vec<Place> {
    vec![
        Place::Heap(7),
        Place::Stack(9),
        Place::Low(0),
        Place::BelowSsp(1),
        Place::Stack(160 - n + 1),
        Place::Sp(5),
        Place::BelowHp(1),
        Place::Heap(160 - n + 1),
        Place::Abs(u64::MAX - 3),
        Place::Dst(0),
        Place::Dst(8),
        Place::Dst(-1),
    ]
}

/// every opcode × destination placement × operand placements × representative immediates,
/// values (plain, overflowing, zero divisor) and flags
fn enumerate_places(ctx: &Ctx, shard: usize, nshards: usize, sink: &mut dyn FnMut(WideCase) -> bool) {
    let thorough = ctx.tier == Tier::Thorough;
    let mut k = 0usize;
    let mut alt = 0usize;
    let mut emit = |c: WideCase| -> bool {
        k += 1;
        if k % nshards != shard {
            return true;
        }
        sink(c)
    };
    for &(_, byte, fam, w) in OPS.iter() {
        let n = (w / 8) as u16;
        let max = limbs_of(&U512::mask(w));
        let vals: [[[u64; 4]; 3]; 3] = [
            [[0, 0, 5, 0x1234_5678_9ABC_DEF0], [0, 0, 0, 3], [0, 0, 0, 7]],
            [max, max, [0, 0, 0, 1]], // overflow (add, mul, muldiv)
            [max, [0; 4], [0; 4]],    // zero divisor / modulus
        ];
        let imms: Vec<u8> = match fam {
            Family::Cmp => vec![0x00, 0x22, 0x26, 0x06, 0x27],
            Family::Op => vec![0x00, 0x20, 0x22, 0x02, 0x26, 0x38],
            Family::Mul => vec![0x00, 0x10, 0x20, 0x30, 0x31],
            Family::Div => vec![0x00, 0x20, 0x21],
            _ => vec![0],
        };
        let dsts = if fam.reg_dst() { vec![Place::Heap(0)] } else { dst_places(n) };
        let srcs = src_places(n);
        let few: Vec<Place> = if thorough { srcs.clone() } else { vec![Place::Heap(7), Place::Sp(5), Place::Heap(160 - n + 1), Place::Dst(0), Place::Low(0)] };
        for &imm in &imms {
            for d in &dsts {
                for pb in &srcs {
                    for pc in &srcs {
                        let thirds: &[Place] = if fam.has_imm() { &[Place::Heap(96)] } else { &few };
                        for pd in thirds {
                            for v in vals.iter() {
                                alt += 1;
                                let flag = if alt % 2 == 0 { 0u8 } else { 3 };
                                let mut c = base_case(byte);
                                (c.imm, c.flag, c.vals) = (imm, flag, *v);
                                c.places = [*d, *pb, *pc, *pd];
                                if !emit(c) {
                                    return;
                                }
                            }
                        }
                    }
                }
            }
        }
    }
}

/// every opcode × every register id in every role (reserved registers as pointers and as compare
/// destination, aliasing register ids), and the empty-heap / empty-stack layouts
fn enumerate_regs(_ctx: &Ctx, shard: usize, nshards: usize, sink: &mut dyn FnMut(WideCase) -> bool) {
    let mut k = 0usize;
    let mut emit = |c: WideCase| -> bool {
        k += 1;
        if k % nshards != shard {
            return true;
        }
        sink(c)
    };
    for &(_, byte, fam, w) in OPS.iter() {
        let max = limbs_of(&U512::mask(w));
        let imms: Vec<u8> = match fam {
            Family::Cmp => vec![0x02, 0x23, 0x26],
            Family::Op => vec![0x00, 0x21, 0x26],
            Family::Mul => vec![0x00, 0x30],
            Family::Div => vec![0x00, 0x20],
            _ => vec![0],
        };
        for &imm in &imms {
            for role in 0..4usize {
                if role == 3 && fam.has_imm() {
                    continue;
                }
                for r in 0..64u8 {
                    for (heap, stack) in [(160u16, 160u16), (0, 160), (160, 0), (0, 0)] {
                        for flag in [0u8, 3] {
                            let mut c = base_case(byte);
                            (c.imm, c.flag, c.heap, c.stack) = (imm, flag, heap, stack);
                            c.regs[role] = r;
                            c.vals = [max, [0, 0, 0, 9], [0, 0, 1, 0]];
                            c.places = good_layout(r as usize);
                            if !emit(c.clone()) {
                                return;
                            }
                            // the same register in two roles
                            c.regs[(role + 1) % 3] = r;
                            if !emit(c) {
                                return;
                            }
                        }
                    }
                }
            }
        }
    }
}

// ------------------------------------------------------------------ random cases

fn place(n: u16) -> impl Strategy<Value = Place> {
    let room = 160 - n;
    prop_oneof![
        14 => (0..=room).prop_map(Place::Heap),
        14 => (0..=room).prop_map(Place::Stack),
        2 => prop::sample::select(vec![-33i8, -32, -17, -16, -8, -1, 0, 1, 8, 15, 16, 17, 31, 32, 33]).prop_map(Place::Dst),
        1 => (0u16..400).prop_map(Place::Low),
        1 => (1u16..40).prop_map(Place::BelowSsp),
        1 => (-40i16..40).prop_map(Place::Sp),
        1 => (1u16..40).prop_map(Place::BelowHp),
        1 => (-3i16..40).prop_map(Place::Top),
        1 => (room + 1..200).prop_map(Place::Heap),
        1 => (room + 1..200).prop_map(Place::Stack),
        1 => gens::word().prop_map(Place::Abs),
    ]
}

/// a value of up to 256 bits with a boundary-biased magnitude
fn wide_value() -> impl Strategy<Value = [u64; 4]> {
    prop_oneof![
        3 => (any::<[u64; 4]>(), 0u32..=256).prop_map(|(l, bits)| limbs_of(&U512([l[0], l[1], l[2], l[3], 0, 0, 0, 0]).low_bits(bits))),
        2 => (0u32..256, 0u64..3).prop_map(|(k, d)| limbs_of(&U512::pow2(k).add(&U512::from_u64(d)).0.sub(&U512::ONE).0.low_bits(256))),
        1 => (0u64..4).prop_map(|d| limbs_of(&U512::mask(256).sub(&U512::from_u64(d)).0)),
        1 => (0u64..4, any::<bool>()).prop_map(|(d, q)| limbs_of(&U512::mask(if q { 128 } else { 64 }).sub(&U512::from_u64(d)).0)),
        1 => prop::sample::select(vec![0u64, 1, 2, 63, 64, 65, 127, 128, 129, 255, 256, 257, 511, 512]).prop_map(|s| [0, 0, 0, s]),
        1 => gens::word().prop_map(|s| [0, 0, 0, s]),
    ]
}

fn wide_case() -> impl Strategy<Value = WideCase> {
    (
        (0usize..14, prop::bool::weighted(0.85), 0u8..64, any::<u16>()),
        prop_oneof![8 => Just(None), 2 => (0u8..64, 0u8..64, 0u8..64, 0u8..64).prop_map(Some), 1 => (16u8..64, 0usize..4, 0usize..4).prop_map(|(r, i, j)| {
            let mut g = [0x10u8, 0x11, 0x12, 0x13];
            g[i] = r;
            g[j] = r;
            Some((g[0], g[1], g[2], g[3]))
        })],
        (any::<u16>(), any::<u16>(), any::<u16>(), any::<u16>()),
        (wide_value(), wide_value(), wide_value(), 0u8..14, 0u64..3),
        (0u8..4, prop_oneof![Just(0u64), Just(1u64), gens::word()], prop_oneof![Just(0u64), Just(1u64), gens::word()]),
        (prop::sample::select(vec![160u16, 160, 160, 160, 160, 96, 32, 0]), prop::sample::select(vec![160u16, 160, 160, 160, 160, 96, 32, 0])),
    )
        .prop_flat_map(|((opi, valid, imm_raw, imm_sel), regs, _sels, (v1, v2, v3, rel, delta), (flag, of, err), (heap, stack))| {
            let (_, byte, fam, w) = OPS[opi];
            let n = (w / 8) as u16;
            // immediate: mostly valid
            let valid_imms: Vec<u8> = (0..64u8).filter(|i| big::decode(fam, *i).is_some()).collect();
            let imm = if valid && fam.has_imm() { valid_imms[gens::pick(imm_sel, valid_imms.len())] } else { imm_raw };
            // aimed relations between the operands
            let (l, r, t) = (value_of(&v1, w), value_of(&v2, w), value_of(&v3, w));
            let d = U512::from_u64(delta);
            let max = U512::mask(w);
            let (l2, r2, t2) = match rel {
                0 => (l, l.add(&d).0.sub(&U512::ONE).0, t),                       // rhs = lhs ± 1
                1 => (l, max.sub(&l).0.add(&d).0, t),                             // lhs + rhs around 2^w
                2 if !l.is_zero() => (l, max.divrem(&l).expect("non-zero").0.add(&d).0, t), // lhs · rhs around 2^w
                3 | 12 | 13 => (l, r, U512::ZERO),                                          // zero divisor / modulus
                4 => (l, r, l.mul(&r).0.shr(w).add(&d).0),                        // quotient around 2^w
                5 => (l, r, l.add(&r).0.add(&d).0.sub(&U512::ONE).0),             // modulus around the sum
                6 => (l, U512::from_u64(w as u64).add(&d).0.sub(&U512::ONE).0, t), // shift amount around the width
                7 => (l, U512::ZERO, t),
                _ => (l, r, t),
            };
            let vals = [limbs_of(&l2.low_bits(w)), limbs_of(&r2.low_bits(w)), limbs_of(&t2.low_bits(w))];
            let regs = match regs {
                None => [0x10u8, 0x11, 0x12, 0x13],
                Some((a, b, c, d)) => [a, b, c, d],
            };
            (Just((byte, imm, regs, vals, flag, of, err, heap, stack)), place(n), place(n), place(n), place(n))
        })
        .prop_map(|((op, imm, regs, vals, flag, of, err, heap, stack), pa, pb, pc, pd)| WideCase { op, imm, regs, places: [pa, pb, pc, pd], vals, flag, of, err, heap, stack })
}

pub fn property() -> Property {
    Property {
        id: "C22",
        rule: "single wide-integer instructions (WDCM,WQCM,WDOP,WQOP,WDML,WQML,WDDV,WQDV,WDMD,WQMD,WDAM,WQAM,WDMM,WQMM) executed with Interpreter::instruction on a fresh script VM with a heap buffer (ALOC) and a stack frame (CFEI) filled with a pattern, operand values written big-endian where the case places them {heap, stack frame, tx bytes/address 0, below $ssp, straddling $sp, gap, straddling $hp, last range of memory, beyond memory, u64::MAX, aliasing/overlapping the destination}, registers rA..rD over 0..63 incl. reserved and repeated ids, all 64 immediates, $flag 0..3, $of/$err planted. Expected result from model::big (own 512-bit limbs), expected panic set from the immediate, the access predicate, the arithmetic and the flags; on success destination bytes = big-endian result and every other byte of [0,$sp) and [$hp,MEM) unchanged, $of/$err/$pc/rA as specified, other registers unchanged; on panic memory unchanged. Non-trivial = exact result needs more than the width, zero divisor/modulus, shift >= width, or fused divisor 0; distinct by (opcode, imm, flag, traits, operand byte lengths, success)".into(),
        assumptions: vec![
            "model::big transcribes the wide-integer section of the instruction-set specification and the immediate layout documented in fuel-asm/src/args/wideint.rs".into(),
            "memory access predicate of the specification (C23/C24): readable iff end<=MEM and (end<=$sp or start>=$hp); owned iff inside [$ssp,$sp) or inside [$hp,MEM) of a script that allocated".into(),
            "model::isa word layout (C08); ALOC/CFEI are used to set up the heap buffer and the stack frame".into(),
            "a fresh VM is a clone of a never-executed vmfix::default_vm() (the fixture is deterministic)".into(),
            "gas registers used as operand registers are read after the gas charge".into(),
        ],
        parts: vec![
            enum_part("imm-value-lattice", "8 opcodes with an immediate x all 64 immediates x (valid: boundary operand pairs {0,1,2,3,10,127..129,255..257,2^k-1,2^k,2^k+1 (k=8,63,64,65,127[,128,129,255]),MAX,MAX-1,high-half-only,alternating} squared x $flag 0..3; invalid: 3 pairs x 2 flags); 6 four-register opcodes x 12 boundary values squared x (12 boundary thirds + divisors/moduli at hi(product)+-1, sum+-1, product) x $flag 0..3; four valid operand layouts rotated", true, enumerate_values, check_wide),
            enum_part("placement-lattice", "14 opcodes x representative immediates (direct/indirect, discarding ops, one invalid) x 18 destination placements x 12 lhs placements x 12 rhs placements x (four-register forms: 5 (thorough 12) third placements) x {plain, overflowing, zero-divisor} values with $flag alternating 0/3", true, enumerate_places, check_wide),
            enum_part("register-sweep", "14 opcodes x representative immediates x each operand role x all 64 register ids (alone and repeated in a second role) x {heap,no heap} x {stack frame,none} x $flag {0,3}", true, enumerate_regs, check_wide),
            gen_part("wide-random", "random opcode, immediate (85% valid), registers (default, random, repeated), placements (good 75%, aliasing 5%, bad 20%), operand values with aimed relations (rhs=lhs+-1, sum/product/quotient around 2^W, modulus around the sum, zero divisor, shift amount around W), flags, heap/stack sizes", (400_000, 40_000_000), |_c: &Ctx| wide_case(), check_wide),
        ],
        floors: vec![
            ("wide-random", "non-trivial", 0.05),
            ("wide-random", "ok", 0.20),
            ("wide-random", "overflow", 0.02),
            ("wide-random", "zero-divisor-or-modulus", 0.01),
            ("wide-random", "shift>=width", 0.004),
            ("wide-random", "invalid-imm", 0.03),
            ("wide-random", "panic:MemoryOwnership", 0.01),
            ("wide-random", "panic:UninitalizedMemoryAccess", 0.02),
            ("wide-random", "panic:MemoryOverflow", 0.02),
        ],
    }
}
