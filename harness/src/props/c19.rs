//! C19 — Transaction checking accepts exactly the specification-valid transactions.
use crate::engine::*;
use crate::gens::tx::{any_tx, hexbytes, in_spec, layout_sig, out_spec, pol_spec, AnyTx, HexBytes, InSpec, OutSpec, PolSpec, B32};
use crate::gens::pick;
use crate::gens::validtx::{max_gas_of, min_gas_of, mutated_tx, params_any, valid_case, Edit, MutatedTxSpec, ParamsSpec, Realized, ValidCase};
use crate::model::validity::{self as mv, MParams, MTx, Rule};
use crate::{ensure, ensure_eq, fail};
use fuel_tx::{FormatValidityChecks, Transaction};
use fuel_types::canonical::Serialize as _;
use fuel_vm::checked_transaction::{CheckError, CheckedMetadata, IntoChecked};
use proptest::prelude::*;
use serde::{Deserialize, Serialize};
use std::collections::{BTreeMap, BTreeSet};

fn err_name(e: &CheckError) -> String {
    let s = match e {
        CheckError::Validity(v) => format!("{v:?}"),
        other => format!("{other:?}"),
    };
    s.split(|c: char| !c.is_alphanumeric()).next().unwrap_or("").to_string()
}

/// what the library recorded for an accepted transaction
struct LibMeta {
    free: BTreeMap<B32, u64>,
    retryable: u64,
    gas: Option<(u64, u64)>,
    base: Option<B32>,
}

fn lib_meta(m: &CheckedMetadata) -> LibMeta {
    let conv = |b: &BTreeMap<fuel_tx::AssetId, u64>| b.iter().map(|(k, v)| (B32(**k), *v)).collect::<BTreeMap<_, _>>();
    match m {
        CheckedMetadata::Script(s) => LibMeta { free: conv(&s.non_retryable_balances), retryable: *s.retryable_balance, gas: Some((s.min_gas, s.max_gas)), base: Some(B32(*s.base_asset_id)) },
        CheckedMetadata::Create(s) => LibMeta { free: conv(&s.free_balances), retryable: 0, gas: Some((s.min_gas, s.max_gas)), base: Some(B32(*s.base_asset_id)) },
        CheckedMetadata::Upgrade(s) => LibMeta { free: conv(&s.free_balances), retryable: 0, gas: Some((s.min_gas, s.max_gas)), base: Some(B32(*s.base_asset_id)) },
        CheckedMetadata::Upload(s) => LibMeta { free: conv(&s.free_balances), retryable: 0, gas: Some((s.min_gas, s.max_gas)), base: Some(B32(*s.base_asset_id)) },
        CheckedMetadata::Blob(s) => LibMeta { free: conv(&s.free_balances), retryable: 0, gas: Some((s.min_gas, s.max_gas)), base: Some(B32(*s.base_asset_id)) },
        CheckedMetadata::Mint(()) => LibMeta { free: BTreeMap::new(), retryable: 0, gas: None, base: None },
    }
}

pub struct Outcome {
    pub violated: BTreeSet<Rule>,
    /// library error name when rejected
    pub error: Option<String>,
    pub assets: usize,
}

/// the core oracle: accept/reject agreement and recorded balances
pub fn compare(r: &Realized, tx: &Transaction) -> Result<Outcome, Failure> {
    let size = tx.to_bytes().len() as u64;
    let max_gas = max_gas_of(tx, &r.params);
    let m = MTx::new(&r.spec, r.raw_pol, r.raw_slots.clone(), size, max_gas);
    let mp = MParams::from(&r.params);
    let violated = mv::violations(&m, r.height, &mp);

    let (txc, params, height) = (tx.clone(), r.params.clone(), r.height);
    let lib = match catch_panic(move || txc.into_checked_basic(height.into(), &params)) {
        Ok(l) => l,
        Err((loc, msg)) => fail!(format!("check:panic@{loc}"), "into_checked_basic panicked at {loc}: {msg}"),
    };
    match lib {
        Ok(checked) => {
            if let Some(rule) = violated.iter().next() {
                fail!(format!("accepts-invalid:{rule:?}"), "into_checked_basic accepted a transaction that breaks {violated:?}");
            }
            let lm = lib_meta(checked.metadata());
            let mut assets = 0;
            if let AnyTx::Charge(t) = &r.spec {
                let fee = if t.pol.mask & 8 != 0 { t.pol.vals[3] } else { 0 };
                let want = match mv::free_balances(&t.inputs, &t.outputs, fee, &mp.base_asset) {
                    Ok(b) => b,
                    Err(rule) => fail!("harness-model-inconsistent", "violations() empty but free_balances() = {rule:?}"),
                };
                ensure_eq!(lm.free, want.free, "balances:free", "recorded free balances differ from Σ spendable inputs − coin outputs − fee limit");
                ensure_eq!(lm.retryable, want.retryable, "balances:retryable", "recorded retryable amount differs from Σ message-data amounts");
                ensure_eq!(lm.base, Some(mp.base_asset), "metadata:base-asset", "recorded base asset");
                ensure_eq!(lm.gas, Some((min_gas_of(tx, &r.params), max_gas)), "metadata:gas", "recorded min/max gas differ from the transaction's");
                assets = want.free.len();
            }
            Ok(Outcome { violated, error: None, assets })
        }
        Err(e) => {
            let n = err_name(&e);
            ensure!(!violated.is_empty(), format!("rejects-valid:{n}"), "into_checked_basic rejected a transaction that satisfies every rule: {e:?}");
            Ok(Outcome { violated, error: Some(n), assets: 0 })
        }
    }
}

fn classify(r: &Realized, o: &Outcome, obs: &mut Obs, extra: &str) {
    let kind = r.spec.kind();
    obs.class(&format!("kind:{kind}"));
    match &o.error {
        None => {
            obs.class("accepted");
            if o.assets >= 2 {
                obs.class("accepted:>=2-assets");
                if let AnyTx::Charge(t) = &r.spec {
                    obs.nontrivial(&(layout_sig(t), extra));
                }
            }
        }
        Some(e) => {
            obs.class("rejected");
            obs.class(&format!("error:{e}"));
            if o.violated.len() == 1 {
                obs.class("rejected:exactly-one-rule");
                let sig: Vec<u8> = match &r.spec {
                    AnyTx::Charge(t) => layout_sig(t),
                    AnyTx::Mint(_) => vec![2],
                };
                obs.nontrivial(&(sig, format!("{:?}", o.violated), extra));
            } else {
                obs.class("rejected:several-rules");
            }
        }
    }
}

// ------------------------------------------------------------------ part: valid-TX

fn check_valid(c: &ValidCase, obs: &mut Obs) -> Check {
    let r = c.realize();
    let tx = r.transaction();
    let o = compare(&r, &tx)?;
    if o.error.is_some() {
        // both sides reject: the generator did not produce a valid transaction
        fail!("harness-validtx-invalid", "valid-TX is invalid for both library and model: {:?} / {:?}", o.error, o.violated);
    }
    // generator health: the signatures are real
    if let Err(e) = tx.check_signatures(&r.params.chain_id()) {
        fail!("harness-validtx-signature", "valid-TX signature check failed: {e:?}");
    }
    let t = r.params.tx_params();
    if let AnyTx::Charge(s) = &r.spec {
        if s.inputs.len() == t.max_inputs() as usize {
            obs.class("binds:max_inputs");
        }
        if s.outputs.len() == t.max_outputs() as usize {
            obs.class("binds:max_outputs");
        }
        if s.witnesses.len() == t.max_witnesses() as usize {
            obs.class("binds:max_witnesses");
        }
        if tx.size() as u64 == t.max_size() {
            obs.class("binds:max_size");
        }
        if max_gas_of(&tx, &r.params) == t.max_gas_per_tx() {
            obs.class("binds:max_gas");
        }
    }
    classify(&r, &o, obs, "valid");
    Ok(())
}

// ------------------------------------------------------------------ part: mutated-TX

/// rules an edit is meant to break (any of them)
fn intended(e: Edit) -> &'static [Rule] {
    use Edit as E;
    use Rule::*;
    match e {
        E::SizeOverMax | E::MintSize => &[SizeLimitExceeded],
        E::PolicyUnknownBit | E::PolicyStrayValue | E::MaturityOverU32 | E::ExpirationOverU32 | E::OwnerOverU32 => &[PoliciesInvalid],
        E::WitnessLimitExceeded => &[WitnessLimitExceeded],
        E::MaxGasExceeded => &[MaxGasExceeded],
        E::MaxFeeMissing => &[MaxFeeNotSet],
        E::MaturityAboveHeight => &[Maturity],
        E::ExpirationBelowHeight => &[Expiration],
        E::InputsOverMax => &[InputsMax],
        E::OutputsOverMax => &[OutputsMax],
        E::WitnessesOverMax => &[WitnessesMax],
        E::OwnerIndexOutOfBounds => &[OwnerIndexOutOfBounds],
        E::OwnerAtContractInput => &[OwnerInputHasNoOwner],
        E::NoSpendableInput => &[NoSpendableInput],
        E::DuplicateUtxo => &[DuplicateUtxo],
        E::DuplicateContract => &[DuplicateContract],
        E::DuplicateNonce => &[DuplicateNonce],
        E::PredicateEmpty => &[PredicateEmpty],
        E::PredicateTooLong => &[PredicateLength],
        E::PredicateDataTooLong => &[PredicateDataLength],
        E::WitnessIndexOutOfBounds => &[WitnessIndexBounds],
        E::ContractInputWithoutOutput | E::ContractInputTwoOutputs => &[ContractInputOutputPairing],
        E::ContractOutputBadIndex => &[OutputContractInputIndex],
        E::MessageDataEmpty | E::MessageDataTooLong => &[MessageDataLength],
        E::DuplicateChange => &[ChangeAssetDuplicated],
        E::ChangeAssetAbsent => &[ChangeAssetNotFound],
        E::CoinAssetAbsent => &[CoinAssetNotFound],
        E::InsufficientCoin | E::InsufficientFee => &[BalanceInsufficient],
        E::BalanceOverflow => &[BalanceOverflow],
        E::ScriptTooLong => &[ScriptLength],
        E::ScriptDataTooLong => &[ScriptDataLength],
        E::ContractCreatedInScript | E::ContractCreatedInRestricted => &[OutputContainsContractCreated],
        E::SlotsUnsorted | E::SlotsDuplicated => &[CreateStorageSlotOrder],
        E::SlotsTooMany => &[CreateStorageSlotMax],
        E::BytecodeIndexOutOfBounds => &[CreateBytecodeWitnessIndex],
        E::BytecodeTooLong => &[CreateBytecodeLen],
        E::ContractCreatedMismatch => &[ContractCreatedDoesntMatch],
        E::ContractCreatedMissing => &[ContractCreatedMissing],
        E::ContractCreatedMultiple => &[ContractCreatedMultiple],
        E::NonBaseAssetInput => &[InputContainsNonBaseAsset],
        E::ContractInputInRestricted => &[InputContainsContract],
        E::MessageDataInRestricted => &[InputContainsMessageData],
        E::VariableOutputInRestricted => &[OutputContainsVariable],
        E::ContractOutputInRestricted => &[OutputContainsContract],
        E::ChangeNonBaseInRestricted => &[ChangeUsesNotBaseAsset],
        E::UpgradeNoPrivileged => &[UpgradeNoPrivilegedAddress],
        E::UpgradeChecksumMismatch => &[UpgradeChecksumMismatch],
        E::UpgradeUndecodable => &[UpgradeParametersUndecodable],
        E::UpgradeWitnessOutOfBounds | E::UploadWitnessOutOfBounds | E::BlobWitnessOutOfBounds => &[BodyWitnessIndexBounds],
        E::UploadTooManySubsections => &[UploadTooManySubsections],
        E::UploadBadProof => &[UploadRootVerificationFailed],
        E::BlobWrongId => &[BlobIdVerificationFailed],
        E::MintHeight => &[MintIncorrectBlockHeight],
        E::MintOutputIndex => &[MintIncorrectOutputIndex],
        E::MintAsset => &[MintNonBaseAsset],
    }
}

fn check_mutated(c: &MutatedTxSpec, obs: &mut Obs) -> Check {
    let (r, applied) = c.realize();
    let tx = r.transaction();
    let o = compare(&r, &tx)?;
    let name = c.edit.name();
    if !applied {
        obs.class("edit-not-applicable");
        obs.class(&format!("edit-not-applicable:{name}"));
        classify(&r, &o, obs, "unedited");
        return Ok(());
    }
    obs.class(&format!("edit:{name}"));
    let hit = intended(c.edit).iter().any(|x| o.violated.contains(x));
    if !hit {
        // the edit did not break its rule (e.g. a proof that still verifies): counted, not hidden
        obs.class("edit-ineffective");
        obs.class(&format!("edit-ineffective:{name}"));
    } else {
        obs.class("edit-effective");
    }
    if let Some(e) = &o.error {
        // error identity: the reported error must belong to one of the rules that are broken
        let admissible: BTreeSet<&str> = o.violated.iter().flat_map(|x| x.errors().iter().copied()).collect();
        ensure!(admissible.contains(e.as_str()), format!("error-not-admissible:{e}"), "edit {name}: library reports {e}, broken rules {:?} admit {admissible:?}", o.violated);
    }
    classify(&r, &o, obs, &name);
    Ok(())
}


// ------------------------------------------------------------------ part: hybrid (valid-TX with unconstrained elements swapped in)

#[derive(Debug, Clone, Serialize, Deserialize)]
pub enum Swap {
    ReplaceInput(u16, InSpec),
    AddInput(u16, InSpec),
    RemoveInput(u16),
    ReplaceOutput(u16, OutSpec),
    AddOutput(u16, OutSpec),
    RemoveOutput(u16),
    ReplaceWitness(u16, HexBytes),
    RemoveWitness(u16),
    Policies(PolSpec),
    Height(u32),
}

#[derive(Debug, Clone, Serialize, Deserialize)]
pub struct HybridCase {
    pub base: ValidCase,
    pub swaps: Vec<Swap>,
    /// raise max_size / max_gas_per_tx to the perturbed transaction (so that other rules decide)
    pub refit: bool,
}

fn swap() -> impl Strategy<Value = Swap> {
    prop_oneof![
        3 => (any::<u16>(), in_spec()).prop_map(|(i, x)| Swap::ReplaceInput(i, x)),
        3 => (any::<u16>(), in_spec()).prop_map(|(i, x)| Swap::AddInput(i, x)),
        1 => any::<u16>().prop_map(Swap::RemoveInput),
        3 => (any::<u16>(), out_spec()).prop_map(|(i, x)| Swap::ReplaceOutput(i, x)),
        3 => (any::<u16>(), out_spec()).prop_map(|(i, x)| Swap::AddOutput(i, x)),
        1 => any::<u16>().prop_map(Swap::RemoveOutput),
        1 => (any::<u16>(), hexbytes()).prop_map(|(i, x)| Swap::ReplaceWitness(i, x)),
        1 => any::<u16>().prop_map(Swap::RemoveWitness),
        2 => pol_spec().prop_map(Swap::Policies),
        1 => prop_oneof![0u32..4, any::<u32>()].prop_map(Swap::Height),
    ]
}

fn hybrid_case() -> impl Strategy<Value = HybridCase> {
    (valid_case(), prop::collection::vec(swap(), 1..=3), prop::bool::weighted(0.7)).prop_map(|(base, swaps, refit)| HybridCase { base, swaps, refit })
}

fn check_hybrid(c: &HybridCase, obs: &mut Obs) -> Check {
    let mut r = c.base.realize();
    if let AnyTx::Charge(t) = &mut r.spec {
        for s in &c.swaps {
            match s.clone() {
                Swap::ReplaceInput(i, x) => {
                    if !t.inputs.is_empty() {
                        let k = pick(i, t.inputs.len());
                        t.inputs[k] = x;
                    }
                }
                Swap::AddInput(i, x) => t.inputs.insert(pick(i, t.inputs.len() + 1), x),
                Swap::RemoveInput(i) => {
                    if !t.inputs.is_empty() {
                        t.inputs.remove(pick(i, t.inputs.len()));
                    }
                }
                Swap::ReplaceOutput(i, x) => {
                    if !t.outputs.is_empty() {
                        let k = pick(i, t.outputs.len());
                        t.outputs[k] = x;
                    }
                }
                Swap::AddOutput(i, x) => t.outputs.insert(pick(i, t.outputs.len() + 1), x),
                Swap::RemoveOutput(i) => {
                    if !t.outputs.is_empty() {
                        t.outputs.remove(pick(i, t.outputs.len()));
                    }
                }
                Swap::ReplaceWitness(i, x) => {
                    if !t.witnesses.is_empty() {
                        let k = pick(i, t.witnesses.len());
                        t.witnesses[k] = x;
                    }
                }
                Swap::RemoveWitness(i) => {
                    if !t.witnesses.is_empty() {
                        t.witnesses.remove(pick(i, t.witnesses.len()));
                    }
                }
                Swap::Policies(p) => t.pol = p,
                Swap::Height(h) => r.height = h,
            }
        }
    } else if let Some(Swap::Height(h)) = c.swaps.iter().find(|s| matches!(s, Swap::Height(_))) {
        r.height = *h;
    }
    let tx = r.transaction();
    if c.refit {
        let t = *r.params.tx_params();
        let t = t.with_max_size(t.max_size().max(tx.size() as u64)).with_max_gas_per_tx(t.max_gas_per_tx().max(max_gas_of(&tx, &r.params)));
        r.params.set_tx_params(t);
    }
    let o = compare(&r, &tx)?;
    obs.note("violated-rules", o.violated.len() as u64);
    for v in &o.violated {
        obs.class(&format!("rule:{v:?}"));
    }
    if let Some(e) = &o.error {
        let admissible: BTreeSet<&str> = o.violated.iter().flat_map(|x| x.errors().iter().copied()).collect();
        // not an assertion here (several independent perturbations); counted for the report
        if !admissible.contains(e.as_str()) {
            obs.class(&format!("error-outside-broken-rules:{e}"));
        }
    }
    classify(&r, &o, obs, "hybrid");
    Ok(())
}

// ------------------------------------------------------------------ part: unconstrained G-TX

#[derive(Debug, Clone, Serialize, Deserialize)]
pub struct GtxCase {
    pub tx: AnyTx,
    pub params: ParamsSpec,
    pub height: u32,
    pub max_size: Option<u64>,
    pub max_gas: Option<u64>,
}

fn gtx_case() -> impl Strategy<Value = GtxCase> {
    (
        any_tx(),
        params_any(),
        prop_oneof![Just(0u32), 0u32..8, any::<u32>(), Just(u32::MAX)],
        prop::option::of(prop_oneof![0u64..3000, 0u64..100_000]),
        prop::option::of(prop_oneof![0u64..100_000, crate::gens::word()]),
    )
        .prop_map(|(tx, params, height, max_size, max_gas)| GtxCase { tx, params, height, max_size, max_gas })
}

fn check_gtx(c: &GtxCase, obs: &mut Obs) -> Check {
    let mut p = c.params.clone();
    if let Some(s) = c.max_size {
        p.max_size = s;
    }
    if let Some(g) = c.max_gas {
        p.max_gas_per_tx = g;
    }
    let r = Realized { params: p.build(), height: c.height, spec: c.tx.clone(), raw_pol: None, raw_slots: None };
    let tx = r.transaction();
    let o = compare(&r, &tx)?;
    obs.note("violated-rules", o.violated.len() as u64);
    for v in &o.violated {
        obs.class(&format!("rule:{v:?}"));
    }
    classify(&r, &o, obs, "gtx");
    Ok(())
}

pub fn property() -> Property {
    Property {
        id: "C19",
        rule: "part valid: valid-TX (6 kinds; real keys, signed witnesses, predicate owners, fee input, contract pairing, sorted slots, correct contract id / blob id / upload proof / upgrade checksum) under standard and small consensus limits, max_size / max_gas_per_tx optionally tightened to the built transaction; part mutated: valid-TX + exactly one edit of a 66-entry catalogue (flat over edits); part hybrid: valid-TX with 1-3 unconstrained G-TX elements swapped in; part gtx: unconstrained G-TX under generated limits. Oracle: into_checked_basic(..).is_ok() == model::validity::violations(..).is_empty(); accepted => recorded free balances / retryable amount / min,max gas == reference; for edited transactions the reported ValidityError must belong to a rule the reference finds broken. Non-trivial = accepted with >= 2 assets, or rejected by exactly one rule; distinct by layout signature + rule set + edit".into(),
        assumptions: vec![
            "model::validity is an independent restatement of the rule list (DESIGN.md Appendix C); a deviation shared by implementation and harness author from the upstream specification is not seen".into(),
            "size = length of the canonical serialization, max_gas = Chargeable::max_gas of the transaction under test (C01 / C18 judge those numbers)".into(),
            "'parameters decode' is postcard::from_bytes::<ConsensusParameters> (trusted: postcard, serde derive)".into(),
            "messages (incl. message-data) count as base asset for the asset-presence rules; only coins and message-coins are spendable".into(),
            "sha2, model::rfc6962".into(),
        ],
        parts: vec![
            gen_part("valid", "valid-TX under standard / small / tightened limits", (20_000, 1_500_000), |_c: &Ctx| valid_case(), check_valid),
            gen_part("mutated", "valid-TX + one rule-breaking edit", (44_000, 3_000_000), |_c: &Ctx| mutated_tx(), check_mutated),
            gen_part("hybrid", "valid-TX with 1-3 unconstrained G-TX elements swapped in (inputs, outputs, witnesses, policies, height)", (30_000, 2_000_000), |_c: &Ctx| hybrid_case(), check_hybrid),
            gen_part("gtx", "unconstrained G-TX under generated limits", (24_000, 1_500_000), |_c: &Ctx| gtx_case(), check_gtx),
        ],
        floors: vec![("valid", "accepted", 0.999), ("mutated", "edit-effective", 0.90), ("mutated", "rejected:exactly-one-rule", 0.50), ("gtx", "rejected", 0.5)],
    }
}
