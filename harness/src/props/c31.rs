//! C31 — Execution is deterministic and independent of VM instance reuse.
//!
//! Part `reuse`: (history of 0–4 earlier worlds, target world). The target is executed
//!   (i)   on a fresh `Interpreter` + fresh `MemoryInstance` (reference),
//!   (ii)  on one `Interpreter` instance that executed the whole history before (storage swapped
//!         through `AsMut<S>` before every transaction),
//!   (iii) on a fresh interpreter over the dirty `MemoryInstance` the history left behind,
//!   (iv)  twice in a row on the same instance,
//!   (v)   through one `Transactor` that transacted the history before.
//! Final program state, receipts, output transaction, storage afterwards, and — for the
//! interpreter runs — registers and accessible memory must be identical.
//! Part `predicates`: script transactions with memory-probing predicates; `into_checked` (fresh
//! memory) ≡ `into_checked_reusable_memory(dirty)` ≡ `check_predicates_async` with a pool that
//! hands out dirty instances; same for estimation.
//! Part `validtx-predicates`: the same three-way equivalence for valid-TX cases of `gens::validtx`
//! (all kinds; predicates are arbitrary bytes there, so most are rejected — identically).
use crate::engine::*;
use crate::gens::validtx::{self, ValidCase};
use crate::vm::prog::{self, Base, JumpKind, MemOp, Ptr, StackOp, Tpl, Val};
use crate::vm::world::{self, storage_fingerprint, RunOut, WorldSpec};
use crate::{ensure, ensure_eq};
use fuel_asm::{op, RegId};
use fuel_tx::{ConsensusParameters, Finalizable, Input, Output, Script, Transaction, TransactionBuilder, TxPointer, UtxoId};
use fuel_types::{Address, AssetId, BlockHeight, Bytes32, Nonce, Word};
use fuel_vm::checked_transaction::{CheckError, CheckPredicateParams, CheckPredicates, Checked, EstimatePredicates, IntoChecked, ParallelExecutor, Ready};
use fuel_vm::error::PredicateVerificationFailed;
use fuel_vm::interpreter::{Interpreter, Memory, MemoryInstance, NotSupportedEcal};
use fuel_vm::pool::VmMemoryPool;
use fuel_vm::state::{DebugEval, ProgramState};
use fuel_vm::storage::predicate::EmptyStorage;
use fuel_vm::storage::{InterpreterStorage, MemoryStorage};
use fuel_vm::transactor::Transactor;
use fuel_vm::verification::Normal;
use proptest::prelude::*;
use serde::{Deserialize, Serialize};
use std::sync::Mutex;

// ------------------------------------------------------------------ case

#[derive(Debug, Clone, Copy, PartialEq, Eq, Hash, Serialize, Deserialize)]
pub enum Flavor {
    /// allocate `kb` KiB (in ≤ 255 KiB pieces) and write non-zero bytes into the heap
    BigHeap { kb: u16 },
    /// extend the stack frame by `kb` KiB and write non-zero bytes near its top
    DeepStack { kb: u16 },
    /// a counted loop emitting `n` LOG receipts
    ManyReceipts { n: u8 },
}

#[derive(Debug, Clone, PartialEq, Eq, Hash, Serialize, Deserialize)]
pub struct Hist {
    /// `None`: a variant of the target world itself (same contract ids, same storage keys)
    pub world: Option<Box<WorldSpec>>,
    /// templates put in front of the script body
    pub prefix: Vec<Flavor>,
    /// != 0: every byte of every initial slot value is xor-ed with it (same keys, other contents)
    pub slot_xor: u8,
    /// give the history transaction a large gas budget
    pub more_gas: bool,
    /// run against an empty storage: listed contracts are missing and the VM refuses the transaction
    pub empty_storage: bool,
    /// abandon the transaction after this many single steps (a debugging session that is dropped)
    pub interrupt: Option<u16>,
}

#[derive(Debug, Clone, PartialEq, Eq, Hash, Serialize, Deserialize)]
pub struct Case {
    pub history: Vec<Hist>,
    pub target: WorldSpec,
    /// prefix the target with LOGD probes over freshly owned heap and stack memory
    pub probe: bool,
}

fn p(base: Base, off: i16) -> Ptr {
    Ptr { base, off }
}

fn flavor_tpls(f: &Flavor) -> Vec<Tpl> {
    let mut v = vec![];
    match *f {
        Flavor::BigHeap { kb } => {
            // dirty the two prelude buffers at the very top of the heap first
            v.push(Tpl::Mem { op: MemOp::Mcp, d: 0x20, p: p(Base::HeapA, 0), q: p(Base::Data, 0), len: Val::Imm(prog::HA_LEN), imm: 0 });
            v.push(Tpl::Mem { op: MemOp::Mcp, d: 0x20, p: p(Base::HeapB, 0), q: p(Base::Data, 8), len: Val::Imm(400), imm: 0 });
            let mut left = (kb as u32) * 1024;
            while left > 0 {
                let n = left.min(255 * 1024);
                left -= n;
                v.push(Tpl::Aloc { len: Val::Imm(n) });
                v.push(Tpl::Mem { op: MemOp::Mcp, d: 0x20, p: p(Base::Hp, 0), q: p(Base::Data, 0), len: Val::Imm(n.min(400)), imm: 0 });
                v.push(Tpl::Mem { op: MemOp::Sw, d: 0x21, p: p(Base::Hp, 512), q: p(Base::Hp, 0), len: Val::Imm(0), imm: 0 });
            }
        }
        Flavor::DeepStack { kb } => {
            let mut left = (kb as u32) * 1024;
            while left > 0 {
                let n = left.min(0xff_fff8) & !7;
                left -= n.min(left);
                v.push(Tpl::Stack { op: StackOp::Cfei, n, r: Val::Imm(0) });
                v.push(Tpl::Mem { op: MemOp::Mcp, d: 0x20, p: p(Base::Sp, -512), q: p(Base::Data, 0), len: Val::Imm(400), imm: 0 });
            }
        }
        Flavor::ManyReceipts { n } => {
            v.push(Tpl::SetCnt { n });
            v.push(Tpl::Log { a: prog::R_CNT, b: 0x20, c: 0x21, d: 0x22 });
            // guarded backward jump: [eq, jnzf, subi, jmpb] — the jump sits 3 instructions further
            v.push(Tpl::Jump { kind: JumpKind::Jmpb, delta: -4, a: 0, b: 0, guarded: true });
        }
    }
    v
}

/// LOGD probes over memory the program has just come to own (must read as zero)
fn probe_tpls() -> Vec<Tpl> {
    vec![
        Tpl::Logd { a: 0x20, b: 0x21, p: p(Base::HeapA, 0), len: Val::Imm(prog::HA_LEN) },
        Tpl::Logd { a: 0x20, b: 0x21, p: p(Base::HeapB, 0), len: Val::Imm(prog::HB_LEN) },
        Tpl::Logd { a: 0x20, b: 0x21, p: p(Base::Stack, 0), len: Val::Imm(prog::ST_LEN) },
        Tpl::Aloc { len: Val::Imm(3000) },
        Tpl::Logd { a: 0x20, b: 0x21, p: p(Base::Hp, 0), len: Val::Imm(3000) },
        Tpl::Stack { op: StackOp::Cfei, n: 2048, r: Val::Imm(0) },
        Tpl::Logd { a: 0x20, b: 0x21, p: p(Base::Sp, -2048), len: Val::Imm(2048) },
    ]
}

fn target_spec(case: &Case) -> WorldSpec {
    let mut t = case.target.clone();
    // the unit schedule prices a 2^26-slot SCLR at 1 gas (seconds of CPU, GiBs of cache); the
    // property is not about schedules, so unit becomes a random schedule
    if t.sched == world::Sched::Unit {
        t.sched = world::Sched::Random(0x31 ^ t.gas_limit ^ t.words[0]);
    }
    if case.probe {
        let mut s = probe_tpls();
        s.extend(t.script);
        t.script = s;
    }
    t
}

fn hist_spec(h: &Hist, target: &WorldSpec) -> WorldSpec {
    let mut w = match &h.world {
        Some(w) => (**w).clone(),
        None => target.clone(),
    };
    // one Interpreter instance has one set of parameters: the history uses the target's
    w.sched = target.sched.clone();
    w.gas_price = target.gas_price;
    w.price_factor = target.price_factor;
    w.gas_per_byte = target.gas_per_byte;
    if h.more_gas {
        w.gas_limit = w.gas_limit.max(15_000);
    }
    if h.slot_xor != 0 {
        for c in &mut w.contracts {
            for (_, v) in &mut c.slots {
                for b in &mut v.0 {
                    *b ^= h.slot_xor;
                }
                if v.0.is_empty() {
                    v.0.push(h.slot_xor);
                }
            }
        }
    }
    let mut s: Vec<Tpl> = h.prefix.iter().flat_map(flavor_tpls).collect();
    s.extend(w.script);
    w.script = s;
    w
}

// ------------------------------------------------------------------ running

type AnyVm<M, S> = Interpreter<M, S, Script, NotSupportedEcal, Normal>;

fn run_any<M: Memory, S: InterpreterStorage>(vm: &mut AnyVm<M, S>, ready: Ready<Script>) -> RunOut
where
    S::DataError: std::fmt::Debug,
{
    let state = match vm.transact(ready) {
        Ok(st) => Ok(*st.state()),
        Err(e) => Err(format!("{e:?}")),
    };
    RunOut { state, receipts: vm.receipts().to_vec(), tx: vm.transaction().clone() }
}

/// run a history transaction: plain, or single-stepped and abandoned after `k` steps
fn run_hist<M: Memory>(vm: &mut AnyVm<M, MemoryStorage>, ready: Ready<Script>, interrupt: Option<u16>) -> RunOut {
    match interrupt {
        None => run_any(vm, ready),
        Some(k) => {
            vm.set_single_stepping(true);
            let mut state = vm.transact(ready).map(|s| *s.state()).map_err(|e| format!("{e:?}"));
            let mut n = 0u32;
            while let Ok(ProgramState::RunProgram(DebugEval::Breakpoint(_))) = state {
                if n >= k as u32 {
                    break;
                }
                n += 1;
                state = vm.resume().map_err(|e| format!("{e:?}"));
            }
            vm.set_single_stepping(false);
            RunOut { state, receipts: vm.receipts().to_vec(), tx: vm.transaction().clone() }
        }
    }
}

struct Snap {
    out: RunOut,
    storage: String,
    regs: Vec<Word>,
    mem: MemoryInstance,
}

fn snap<M: Memory>(vm: &AnyVm<M, MemoryStorage>, out: RunOut) -> Snap {
    Snap { out, storage: storage_fingerprint(vm.as_ref()), regs: vm.registers().to_vec(), mem: vm.memory().clone() }
}

fn same(mode: &str, reference: &Snap, got: &Snap) -> Check {
    ensure_eq!(got.out.state, reference.out.state, format!("{mode}:state-differs"), "final program state ({mode} vs fresh)");
    if got.out.receipts != reference.out.receipts {
        let i = got.out.receipts.iter().zip(&reference.out.receipts).position(|(a, b)| a != b).unwrap_or(got.out.receipts.len().min(reference.out.receipts.len()));
        return Err(Failure::new(
            format!("{mode}:receipts-differ"),
            format!("receipts differ at index {i} ({} vs {} receipts): {mode} {:?} / fresh {:?}", got.out.receipts.len(), reference.out.receipts.len(), got.out.receipts.get(i), reference.out.receipts.get(i)),
        ));
    }
    ensure_eq!(got.out.tx, reference.out.tx, format!("{mode}:tx-differs"), "output transaction ({mode} vs fresh)");
    ensure!(got.storage == reference.storage, format!("{mode}:storage-differs"), "storage after the target differs ({mode} vs fresh)");
    if got.regs != reference.regs {
        let i = got.regs.iter().zip(&reference.regs).position(|(a, b)| a != b).unwrap_or(0);
        return Err(Failure::new(format!("{mode}:registers-differ"), format!("register {i:#x}: {mode} {} / fresh {}", got.regs[i], reference.regs[i])));
    }
    ensure!(got.mem == reference.mem, format!("{mode}:memory-differs"), "accessible memory after the target differs ({mode} vs fresh)");
    Ok(())
}

fn check(case: &Case, obs: &mut Obs) -> Check {
    let tspec = target_spec(case);
    let tb = match tspec.build() {
        Ok(b) => b,
        Err(_) => {
            obs.class("world-invalid");
            return Ok(());
        }
    };
    let Ok(tready) = tb.ready() else {
        obs.class("world-not-ready");
        return Ok(());
    };

    // (i) fresh interpreter, fresh memory; (iv) and again on the same instance
    let mut vm_f = tb.new_vm(tb.storage.clone());
    let out = run_any(&mut vm_f, tready.clone());
    crate::props::c32::classify_run(&out, obs);
    let fresh = snap(&vm_f, out);
    *vm_f.as_mut() = tb.storage.clone();
    let out = run_any(&mut vm_f, tready.clone());
    same("twice", &fresh, &snap(&vm_f, out))?;
    drop(vm_f);

    // ---- history
    let mut built = vec![];
    for h in &case.history {
        let hs = hist_spec(h, &tspec);
        match hs.build() {
            Ok(b) => match b.ready() {
                Ok(r) => built.push((h, b, r)),
                Err(_) => obs.class("history-world-not-ready"),
            },
            Err(_) => obs.class("history-world-invalid"),
        }
    }
    obs.class(&format!("history-len:{}", built.len()));

    // (ii) one interpreter instance for the history and the target
    let mut vm_r = tb.new_vm(MemoryStorage::default());
    // (iii) one memory instance for the history and the target, a new interpreter every time
    let mut dirty = MemoryInstance::new();
    // (v) one transactor
    let mut tr: Transactor<MemoryInstance, MemoryStorage, Script> = Transactor::new(MemoryInstance::new(), MemoryStorage::default(), tb.interpreter_params());

    let mut sig: Vec<(u8, u32, u32)> = vec![];
    let mut interesting = false;
    for (h, hb, hready) in &built {
        let st = if h.empty_storage { MemoryStorage::new(BlockHeight::from(tspec.height), Default::default()) } else { hb.storage.clone() };
        *vm_r.as_mut() = st.clone();
        let ho = run_hist(&mut vm_r, hready.clone(), h.interrupt);
        // what did this transaction leave behind?
        let heap = (fuel_vm::consts::MEM_SIZE as u64).saturating_sub(vm_r.registers()[RegId::HP]);
        let sp = vm_r.registers()[RegId::SP];
        let cached = vm_r.verif_slot_cache_keys().len();
        let depth = vm_r.verif_call_depth();
        if heap >= 64 * 1024 {
            obs.class("history:heap>=64KiB");
            interesting = true;
        }
        if sp >= 64 * 1024 {
            obs.class("history:stack>=64KiB");
            interesting = true;
        }
        if cached > 0 {
            obs.class("history:warm-slot-cache");
            interesting = true;
        }
        if depth > 0 {
            obs.class("history:ended-inside-call");
            interesting = true;
        }
        if ho.receipts.len() >= 50 {
            obs.class("history:receipts>=50");
            interesting = true;
        }
        match &ho.state {
            Err(_) => {
                obs.class("history:vm-error");
                interesting = true;
            }
            Ok(ProgramState::RunProgram(_)) => {
                obs.class("history:abandoned-mid-run");
                interesting = true;
            }
            Ok(ProgramState::Revert(_)) => obs.class("history:reverted"),
            Ok(_) => obs.class("history:returned"),
        }
        if h.world.is_none() {
            obs.class("history:variant-of-target");
        }
        sig.push((h.prefix.len() as u8 + ((h.world.is_none() as u8) << 4), ho.receipts.len() as u32, (heap >> 10) as u32));

        {
            let mut vm_d: AnyVm<&mut MemoryInstance, MemoryStorage> = Interpreter::with_storage(&mut dirty, st.clone(), hb.interpreter_params());
            let _ = run_hist(&mut vm_d, hready.clone(), h.interrupt);
        }
        *tr.as_mut() = st;
        if h.interrupt.is_none() {
            tr.transact(hb.checked.clone());
        }
    }

    // ---- target on the used instances
    *vm_r.as_mut() = tb.storage.clone();
    let out = run_any(&mut vm_r, tready.clone());
    same("reused-interpreter", &fresh, &snap(&vm_r, out))?;
    // … and once more: the target after itself after the history
    *vm_r.as_mut() = tb.storage.clone();
    let out = run_any(&mut vm_r, tready.clone());
    same("reused-interpreter-twice", &fresh, &snap(&vm_r, out))?;

    {
        let mut vm_d: AnyVm<&mut MemoryInstance, MemoryStorage> = Interpreter::with_storage(&mut dirty, tb.storage.clone(), tb.interpreter_params());
        let out = run_any(&mut vm_d, tready.clone());
        same("dirty-memory", &fresh, &snap(&vm_d, out))?;
    }

    *tr.as_mut() = tb.storage.clone();
    tr.transact(tb.checked.clone());
    let got = match tr.result() {
        Ok(s) => RunOut { state: Ok(*s.state()), receipts: s.receipts().to_vec(), tx: s.tx().clone() },
        Err(e) => RunOut { state: Err(format!("{e:?}")), receipts: tr.interpreter().receipts().to_vec(), tx: tr.interpreter().transaction().clone() },
    };
    let got = Snap { out: got, storage: storage_fingerprint(tr.as_ref()), regs: tr.interpreter().registers().to_vec(), mem: tr.interpreter().memory().clone() };
    same("reused-transactor", &fresh, &got)?;

    if case.probe {
        obs.class("target:probed");
    }
    if interesting && !built.is_empty() {
        obs.class("nontrivial");
        obs.nontrivial(&(sig, fresh.out.receipts.len(), fresh.regs[RegId::GGAS.to_u8() as usize]));
    }
    Ok(())
}

// ------------------------------------------------------------------ strategies (reuse)

fn flavor() -> impl Strategy<Value = Flavor> {
    prop_oneof![
        3 => prop_oneof![Just(64u16), Just(100), 65u16..600, Just(1024)].prop_map(|kb| Flavor::BigHeap { kb }),
        2 => prop_oneof![Just(64u16), 65u16..400].prop_map(|kb| Flavor::DeepStack { kb }),
        2 => prop_oneof![Just(60u8), 50u8..=255].prop_map(|n| Flavor::ManyReceipts { n }),
    ]
}

fn hist() -> impl Strategy<Value = Hist> {
    (
        prop_oneof![3 => world::world(prog::W_SCRIPT, 30, 3).prop_map(|w| Some(Box::new(w))), 2 => Just(None)],
        prop::collection::vec(flavor(), 0..=2),
        prop_oneof![2 => Just(0u8), 3 => 1u8..=255],
        prop::bool::weighted(0.6),
        prop::bool::weighted(0.08),
        prop::option::weighted(0.12, prop_oneof![0u16..40, 0u16..400]),
    )
        .prop_map(|(world, prefix, slot_xor, more_gas, empty_storage, interrupt)| Hist { world, prefix, slot_xor, more_gas, empty_storage, interrupt })
}

pub fn case() -> impl Strategy<Value = Case> {
    (prop::collection::vec(hist(), 0..=4), world::world(prog::W_SCRIPT, 30, 3), prop::bool::weighted(0.6)).prop_map(|(history, target, probe)| Case { history, target, probe })
}

// ------------------------------------------------------------------ predicates

/// a predicate that allocates, extends its frame, probes the fresh memory and returns 1 iff
/// everything it probed reads as zero and its data word matches
#[derive(Debug, Clone, PartialEq, Eq, Hash, Serialize, Deserialize)]
pub struct PredSpec {
    pub alloc: u32,
    pub cfei: u32,
    /// word offsets probed above `$hp`
    pub heap_probes: Vec<u16>,
    /// word offsets probed below `$sp`
    pub stack_probes: Vec<u16>,
    /// MEQ the whole allocation against itself shifted? no: compare first/second half (both fresh)
    pub meq: bool,
    /// extra ALU noise instructions
    pub noise: u8,
    /// 0: return 1 iff clean; 1: return 0 always (a failing predicate); 2: read out of bounds (panics)
    pub ending: u8,
    pub data: Vec<u8>,
}

fn pred_code(s: &PredSpec) -> Vec<u8> {
    let acc = 0x10u8;
    let t = 0x11u8;
    let u = 0x12u8;
    let mut v: Vec<fuel_asm::Instruction> = vec![];
    let alloc = s.alloc.clamp(16, 200_000) & !7;
    let cfei = s.cfei.clamp(16, 60_000) & !7;
    v.push(op::movi(t, alloc));
    v.push(op::aloc(t));
    v.push(op::cfei(cfei));
    v.push(op::move_(acc, RegId::ZERO));
    for o in &s.heap_probes {
        let w = (*o as u32) % (alloc / 8);
        v.push(op::movi(u, w * 8));
        v.push(op::add(u, u, RegId::HP));
        v.push(op::lw(t, u, 0));
        v.push(op::or(acc, acc, t));
    }
    for o in &s.stack_probes {
        let w = 1 + (*o as u32) % (cfei / 8);
        v.push(op::movi(u, w * 8));
        v.push(op::sub(u, RegId::SP, u));
        v.push(op::lw(t, u, 0));
        v.push(op::or(acc, acc, t));
    }
    if s.meq {
        // the two halves of the fresh allocation must be equal (both zero)
        v.push(op::movi(t, alloc / 2));
        v.push(op::add(u, RegId::HP, t));
        v.push(op::meq(u, RegId::HP, u, t));
        v.push(op::xori(u, u, 1));
        v.push(op::or(acc, acc, u));
    }
    for i in 0..s.noise.min(20) {
        v.push(op::addi(0x13, 0x13, i as u16 + 1));
        v.push(op::mul(0x14, 0x13, 0x13));
    }
    // dirty the memory for whoever comes next
    v.push(op::not(t, RegId::ZERO));
    v.push(op::sw(RegId::HP, t, 0));
    v.push(op::sw(RegId::HP, t, (alloc / 8 - 1).min(4000) as u16));
    v.push(op::subi(u, RegId::SP, 8));
    v.push(op::sw(u, t, 0));
    match s.ending {
        1 => v.push(op::ret(RegId::ZERO)),
        2 => {
            v.push(op::not(u, RegId::ZERO));
            v.push(op::lw(t, u, 0));
            v.push(op::ret(RegId::ONE));
        }
        _ => {
            v.push(op::eq(t, acc, RegId::ZERO));
            v.push(op::ret(t));
        }
    }
    v.into_iter().collect()
}

#[derive(Debug, Clone, PartialEq, Eq, Hash, Serialize, Deserialize)]
pub struct PredCase {
    /// 1..=4 predicate inputs: (kind 0 coin / 1 message coin / 2 message data, spec)
    pub preds: Vec<(u8, PredSpec)>,
    pub signed_coin: bool,
    pub sched: world::Sched,
    pub script: Vec<u8>,
    pub gas_limit: u64,
    /// what made the reusable memory dirty: allocation sizes (KiB of heap, KiB of stack) and a fill byte
    pub dirt: (u16, u16, u8),
    /// skip estimation and declare this predicate gas instead (mostly rejected: GasMismatch / OutOfGas)
    pub declared_gas: Option<u64>,
}

/// a `MemoryInstance` with `heap_kb`/`stack_kb` of non-zero bytes behind it, reset like a pool would
fn dirty_memory(d: (u16, u16, u8)) -> MemoryInstance {
    use fuel_vm::constraints::reg_key::{Reg, RegMut};
    let mut m = MemoryInstance::new();
    let fill = if d.2 == 0 { 0xa5 } else { d.2 };
    let stack = ((d.1 as u64).min(2048)) * 1024;
    let heap = ((d.0 as u64).min(2048)) * 1024;
    let sp: Word = stack;
    let mut hp: Word = fuel_vm::consts::VM_MAX_RAM;
    if stack > 0 {
        let _ = m.grow_stack(stack);
    }
    if heap > 0 {
        let _ = m.grow_heap_by(Reg::new(&sp), RegMut::new(&mut hp), heap);
    }
    if stack > 0 {
        if let Ok(w) = m.write_noownerchecks(0u64, stack as usize) {
            w.fill(fill);
        }
    }
    if heap > 0 {
        if let Ok(w) = m.write_noownerchecks(hp, heap as usize) {
            w.fill(fill);
        }
    }
    m.reset();
    m
}

/// pool handing out dirty instances
struct DirtyPool {
    dirt: (u16, u16, u8),
    handed: Mutex<u32>,
}

impl VmMemoryPool for DirtyPool {
    type Memory = MemoryInstance;
    fn get_new(&self) -> impl core::future::Future<Output = Self::Memory> + Send {
        *self.handed.lock().unwrap() += 1;
        core::future::ready(dirty_memory(self.dirt))
    }
}

/// runs the predicate tasks one after the other on the calling thread
struct Sequential;

#[async_trait::async_trait]
impl ParallelExecutor for Sequential {
    type Task = std::future::Ready<(usize, Result<Word, PredicateVerificationFailed>)>;
    fn create_task<F>(func: F) -> Self::Task
    where
        F: FnOnce() -> (usize, Result<Word, PredicateVerificationFailed>) + Send + 'static,
    {
        std::future::ready(func())
    }
    async fn execute_tasks(futures: Vec<Self::Task>) -> Vec<(usize, Result<Word, PredicateVerificationFailed>)> {
        let mut v = vec![];
        for f in futures {
            v.push(f.await);
        }
        v
    }
}

fn render<Tx>(r: &Result<Checked<Tx>, CheckError>) -> Result<String, String>
where
    Tx: IntoChecked + std::fmt::Debug,
    Tx::Metadata: std::fmt::Debug,
{
    match r {
        Ok(c) => Ok(format!("{:?} / {:?}", c.transaction(), c.metadata())),
        Err(e) => Err(format!("{e:?}")),
    }
}

/// the three ways of checking predicates must agree; returns the common result
fn three_way<Tx>(tx: &Tx, height: BlockHeight, params: &ConsensusParameters, dirt: (u16, u16, u8), obs: &mut Obs) -> Result<Result<String, String>, Failure>
where
    Tx: IntoChecked + Clone + std::fmt::Debug + Send + Sync + 'static,
    Tx::Metadata: std::fmt::Debug,
    Checked<Tx>: CheckPredicates,
{
    let a = render(&tx.clone().into_checked(height, params));
    let b = render(&tx.clone().into_checked_reusable_memory(height, params, dirty_memory(dirt), &EmptyStorage));
    // the same dirty instance used twice in a row (what a caller holding one instance does)
    let mut m = dirty_memory(dirt);
    let b1 = render(&tx.clone().into_checked_reusable_memory(height, params, &mut m, &EmptyStorage));
    let b2 = render(&tx.clone().into_checked_reusable_memory(height, params, &mut m, &EmptyStorage));
    let pool = DirtyPool { dirt, handed: Mutex::new(0) };
    let cp: CheckPredicateParams = params.into();
    let c = match tx.clone().into_checked_basic(height, params) {
        Ok(basic) => {
            let basic = match basic.check_signatures(&params.chain_id()) {
                Ok(b) => Ok(b),
                Err(e) => Err(e),
            };
            match basic {
                Ok(basic) => render(&futures::executor::block_on(basic.check_predicates_async::<NotSupportedEcal, Sequential>(&cp, &pool, &EmptyStorage, NotSupportedEcal))),
                Err(e) => Err(format!("{e:?}")),
            }
        }
        Err(e) => Err(format!("{e:?}")),
    };
    if *pool.handed.lock().unwrap() > 0 {
        obs.class("pool-handed-out-memory");
    }
    ensure_eq!(b, a, "predicates:reusable-memory-differs", "into_checked_reusable_memory(dirty) vs into_checked");
    ensure_eq!(b1, a, "predicates:reusable-memory-differs", "into_checked_reusable_memory(&mut dirty) vs into_checked");
    ensure_eq!(b2, a, "predicates:reusable-memory-second-use-differs", "second into_checked_reusable_memory on the same instance vs into_checked");
    // same order of checks (basic, signatures, predicates in input order): identical result, error included
    ensure_eq!(c, a, "predicates:async-pool-differs", "check_predicates_async(pool of dirty instances) vs into_checked");
    Ok(a)
}

fn pred_check(case: &PredCase, obs: &mut Obs) -> Check {
    let mut params = ConsensusParameters::standard();
    params.set_gas_costs(world::gas_costs(&case.sched));
    let height = BlockHeight::from(3u32);
    let mut tb = TransactionBuilder::script(case.script.clone(), vec![]);
    tb.with_params(params.clone());
    tb.script_gas_limit(case.gas_limit);
    tb.max_fee_limit(1 << 30);
    let mut n = 0u8;
    if case.signed_coin {
        tb.add_unsigned_coin_input(world::secret(0), UtxoId::new(Bytes32::from([0x77; 32]), 0), 1 << 31, AssetId::BASE, TxPointer::default());
    }
    for (kind, ps) in &case.preds {
        n += 1;
        let code = pred_code(ps);
        let owner: Address = Input::predicate_owner(&code);
        // message-data inputs are not spendable: the first predicate input is a coin when nothing else pays
        let kind = if n == 1 && !case.signed_coin && kind % 3 == 2 { 0 } else { kind % 3 };
        let input = match kind {
            0 => Input::coin_predicate(UtxoId::new(Bytes32::from([n; 32]), n as u16), owner, 1 << 31, AssetId::BASE, TxPointer::default(), 0, code, ps.data.clone()),
            1 => Input::message_coin_predicate(Address::from([n; 32]), owner, 1 << 31, Nonce::from([n; 32]), 0, code, ps.data.clone()),
            _ => Input::message_data_predicate(Address::from([n; 32]), owner, 1 << 31, Nonce::from([n; 32]), 0, vec![n; 9], code, ps.data.clone()),
        };
        tb.add_input(input);
    }
    tb.add_output(Output::change(Address::from([9; 32]), 0, AssetId::BASE));
    let mut tx: Script = tb.finalize();
    let cp: CheckPredicateParams = (&params).into();

    // estimation: fresh ≡ dirty ≡ pool
    let mut e1 = tx.clone();
    let r1 = e1.estimate_predicates(&cp, MemoryInstance::new(), &EmptyStorage).map_err(|e| format!("{e:?}"));
    let mut e2 = tx.clone();
    let r2 = e2.estimate_predicates(&cp, dirty_memory(case.dirt), &EmptyStorage).map_err(|e| format!("{e:?}"));
    let mut e3 = tx.clone();
    let pool = DirtyPool { dirt: case.dirt, handed: Mutex::new(0) };
    let r3 = futures::executor::block_on(e3.estimate_predicates_async::<Sequential>(&cp, &pool, &EmptyStorage)).map_err(|e| format!("{e:?}"));
    ensure_eq!(r2, r1, "estimate:reusable-memory-differs", "estimate_predicates(dirty) vs fresh: result");
    ensure_eq!(e2, e1, "estimate:reusable-memory-differs", "estimate_predicates(dirty) vs fresh: transaction");
    ensure_eq!(r3.is_ok(), r1.is_ok(), "estimate:async-pool-differs", "estimate_predicates_async(pool) vs fresh: verdict");
    if r1.is_ok() {
        ensure_eq!(e3, e1, "estimate:async-pool-differs", "estimate_predicates_async(pool) vs fresh: transaction");
        obs.class("estimated");
    } else {
        obs.class("estimation-failed");
    }
    match case.declared_gas {
        None => tx = e1,
        Some(g) => {
            use fuel_tx::field::Inputs;
            for i in tx.inputs_mut().iter_mut() {
                match i {
                    Input::CoinPredicate(c) => c.predicate_gas_used = g,
                    Input::MessageCoinPredicate(c) => c.predicate_gas_used = g,
                    Input::MessageDataPredicate(c) => c.predicate_gas_used = g,
                    _ => {}
                }
            }
            obs.class("declared-gas");
        }
    }
    let r = three_way(&tx, height, &params, case.dirt, obs)?;
    match &r {
        Ok(_) => {
            obs.class("accepted");
            if case.dirt.0 > 0 || case.dirt.1 > 0 {
                obs.class("accepted-with-dirty-memory");
                obs.nontrivial(&(case.preds.len(), case.dirt, r.as_ref().ok().map(|s| s.len())));
            }
        }
        Err(e) => obs.class(&format!("rejected:{}", e.split(|c: char| !c.is_alphanumeric()).find(|s| !s.is_empty()).unwrap_or("?"))),
    }
    // an all-clean predicate set must be accepted: probing fresh memory reads zero
    if case.declared_gas.is_none() && case.preds.iter().all(|(_, p)| p.ending == 0) && r1.is_ok() {
        ensure!(r.is_ok(), "predicates:clean-probe-rejected", "every predicate only probes fresh memory for zero, yet the transaction is rejected: {r:?}");
    }
    Ok(())
}

fn pred_spec() -> impl Strategy<Value = PredSpec> {
    (
        prop_oneof![16u32..600, 600u32..70_000, Just(131_072u32)],
        prop_oneof![16u32..600, 600u32..50_000],
        prop::collection::vec(prop_oneof![0u16..8, any::<u16>()], 0..6),
        prop::collection::vec(prop_oneof![0u16..8, any::<u16>()], 0..6),
        any::<bool>(),
        0u8..6,
        prop_oneof![8 => Just(0u8), 1 => Just(1u8), 1 => Just(2u8)],
        prop::collection::vec(any::<u8>(), 0..24),
    )
        .prop_map(|(alloc, cfei, heap_probes, stack_probes, meq, noise, ending, data)| PredSpec { alloc, cfei, heap_probes, stack_probes, meq, noise, ending, data })
}

pub fn pred_case() -> impl Strategy<Value = PredCase> {
    (
        prop::collection::vec((0u8..3, pred_spec()), 1..=4),
        any::<bool>(),
        world::sched(),
        prop_oneof![Just(vec![]), Just(op::ret(RegId::ONE).to_bytes().to_vec())],
        prop_oneof![Just(0u64), 0u64..100_000],
        (prop_oneof![Just(0u16), 1u16..300, Just(1024u16)], prop_oneof![Just(0u16), 1u16..200], any::<u8>()),
        prop::option::weighted(0.1, prop_oneof![0u64..50, 0u64..100_000]),
    )
        .prop_map(|(preds, signed_coin, sched, script, gas_limit, dirt, declared_gas)| PredCase { preds, signed_coin, sched, script, gas_limit, dirt, declared_gas })
}

// ------------------------------------------------------------------ valid-TX predicates

#[derive(Debug, Clone, Serialize, Deserialize)]
pub struct VtCase {
    pub case: ValidCase,
    pub dirt: (u16, u16, u8),
    pub estimate: bool,
}

fn vt_check(c: &VtCase, obs: &mut Obs) -> Check {
    // predicates are arbitrary bytes here: bound their run time. A free schedule never stops a
    // looping predicate, and 10^8 gas of unit-cost instructions take minutes.
    let mut case = c.case.clone();
    if case.params.gas == validtx::GasSched::Free {
        case.params.gas = validtx::GasSched::Unit;
    }
    case.params.max_gas_per_predicate = case.params.max_gas_per_predicate.min(20_000);
    let r = case.realize();
    let tx = r.transaction();
    let height = BlockHeight::from(r.height);
    macro_rules! go {
        ($t:expr) => {{
            let mut t = $t;
            let cp: CheckPredicateParams = (&r.params).into();
            if c.estimate {
                let mut t2 = t.clone();
                let a = t.estimate_predicates(&cp, MemoryInstance::new(), &EmptyStorage).map_err(|e| format!("{e:?}"));
                let b = t2.estimate_predicates(&cp, dirty_memory(c.dirt), &EmptyStorage).map_err(|e| format!("{e:?}"));
                ensure_eq!(b, a, "estimate:reusable-memory-differs", "valid-TX estimate_predicates(dirty) vs fresh: result");
                ensure_eq!(t2, t, "estimate:reusable-memory-differs", "valid-TX estimate_predicates(dirty) vs fresh: transaction");
                obs.class(if a.is_ok() { "estimated" } else { "estimation-failed" });
            }
            let has_pred = {
                use fuel_tx::field::Inputs;
                t.inputs().iter().any(|i| i.is_coin_predicate() || i.is_message_coin_predicate() || i.is_message_data_predicate())
            };
            if has_pred {
                obs.class("has-predicate");
            }
            let res = three_way(&t, height, &r.params, c.dirt, obs)?;
            match &res {
                Ok(_) => {
                    obs.class("accepted");
                    if has_pred {
                        obs.class("accepted-with-predicate");
                        obs.nontrivial(&(res.as_ref().ok().map(|s| s.len()), c.dirt));
                    }
                }
                Err(_) => obs.class("rejected"),
            }
        }};
    }
    match tx {
        Transaction::Script(t) => go!(t),
        Transaction::Create(t) => go!(t),
        Transaction::Upgrade(t) => go!(t),
        Transaction::Upload(t) => go!(t),
        Transaction::Blob(t) => go!(t),
        Transaction::Mint(_) => obs.class("mint-skipped"),
    }
    Ok(())
}

fn vt_case() -> impl Strategy<Value = VtCase> {
    let kinds = prop_oneof![4 => validtx::valid_tx_kind(0), 1 => validtx::valid_tx_kind(1), 1 => validtx::valid_tx_kind(3), 1 => validtx::valid_tx_kind(4), 1 => validtx::valid_tx_kind(5)];
    (
        (kinds, validtx::params_standard(), validtx::tight()).prop_map(|(tx, params, tight)| ValidCase { tx, params, tight }),
        (prop_oneof![Just(0u16), 1u16..300], prop_oneof![Just(0u16), 1u16..200], any::<u8>()),
        prop::bool::weighted(0.8),
    )
        .prop_map(|(case, dirt, estimate)| VtCase { case, dirt, estimate })
}

pub fn property() -> Property {
    Property {
        id: "C31",
        rule: "part reuse: (history of 0-4 worlds, target world) from vm::world::world; a history entry is a generated world or a variant of the target itself (same contract ids and keys, slot contents xor-ed), optionally prefixed with big-heap (64 KiB-1 MiB, dirtied) / deep-stack / many-receipts templates, optionally run on empty storage (VM refuses it) or abandoned after k single steps; the target optionally starts with LOGD probes over just-acquired heap and stack memory. The target runs (i) fresh, (ii) on the Interpreter instance that ran the history (storage swapped via AsMut), (iii) on a new Interpreter over the dirty MemoryInstance, (iv) twice in a row, (v) via one Transactor after the history: state, receipts, output tx, storage, registers and accessible memory identical. Non-trivial = history left heap/stack >= 64 KiB, a warm slot cache, a non-empty call stack, >= 50 receipts, a VM error or an abandoned run; distinct by (per-history flavour, receipts, heap KiB) + target receipts and gas. part predicates: script tx with 1-4 predicate inputs (coin / message-coin / message-data) whose code allocates, extends the frame, probes fresh memory for zero, then dirties it; estimate and check with fresh memory, a dirtied+reset MemoryInstance (by value, and the same instance twice by &mut), and check_predicates_async/estimate_predicates_async over a pool handing out dirty instances: identical Checked/err. part validtx-predicates: the same equivalence for gens::validtx cases of all chargeable kinds.".into(),
        assumptions: vec![
            "C32: the plain run is the reference; world builder and G-PROG as in C32".into(),
            "MemoryStorage Debug output is a faithful rendering of its tables (storage fingerprint)".into(),
            "MemoryInstance::eq compares the accessible memory (stack vector, hp, heap from hp)".into(),
            "history transactions use the target's gas schedule / fee parameters / gas price, because an Interpreter instance carries one InterpreterParams".into(),
            "async path: a sequential ParallelExecutor and a pool of dirty instances written in the harness".into(),
        ],
        parts: vec![
            gen_part("reuse", "history × target world", (600, 12_000), |_c: &Ctx| case(), check),
            gen_part("predicates", "memory-probing predicates × dirty memory", (3_000, 60_000), |_c: &Ctx| pred_case(), pred_check),
            gen_part("validtx-predicates", "valid-TX × dirty memory", (2_000, 40_000), |_c: &Ctx| vt_case(), vt_check),
        ],
        floors: vec![
            ("reuse", "nontrivial", 0.30),
            ("reuse", "history:heap>=64KiB", 0.10),
            ("reuse", "history:warm-slot-cache", 0.05),
            ("reuse", "history:receipts>=50", 0.05),
            ("predicates", "accepted-with-dirty-memory", 0.20),
        ],
    }
}
