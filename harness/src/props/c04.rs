//! C04 — Reported field offsets locate the field's bytes in the encoding.
//!
//! `b = tx.to_bytes()`.  For every offset API of fuel-tx: the bytes at the reported offset are
//! the canonical bytes of that field (the expected field values come from the *spec* the
//! transaction was built from, not from the library's accessors), decoding the field's type at
//! that offset returns the field, `…_at(len)` is `None`, and after `precompute` every offset
//! equals the uncached one.

use crate::engine::*;
use crate::gens::tx::*;
use crate::gens::tx_ext::*;
use crate::{ensure, ensure_eq, fail};
use fuel_tx::field::{
    BlobId as BlobIdField, BytecodeRoot, BytecodeWitnessIndex, ChargeableBody, InputContract, Inputs, MintAmount, MintAssetId, MintGasPrice,
    OutputContract, Outputs, Policies as PoliciesField, ProofSet, ReceiptsRoot, Salt as SaltField, Script as ScriptField, ScriptData,
    ScriptGasLimit, StorageSlots, SubsectionIndex, SubsectionsNumber, TxPointer as TxPointerField, UpgradePurpose as UpgradePurposeField,
    Witnesses,
};
use fuel_tx::{
    Cacheable, Input, InputRepr, Output, OutputRepr, StorageSlot, Transaction, Witness,
};
use fuel_types::canonical::{Deserialize as CDe, Serialize as CSer};
use fuel_types::{Address, AssetId, BlobId, Bytes32, ChainId, ContractId, Nonce, Salt};
use std::fmt::Debug;

// ------------------------------------------------------------------ primitive checks

fn pad8(n: usize) -> usize {
    (n + 7) / 8 * 8
}

/// the field `f` (canonical type F) lies at `off`
fn at<F: CSer + CDe + PartialEq + Debug>(b: &[u8], name: &str, off: Option<usize>, f: &F) -> Check {
    let Some(o) = off else {
        fail!(format!("offset:{name}:none"), "no offset reported for existing field {name}");
    };
    let want = f.to_bytes();
    ensure!(want.len() == f.size(), format!("offset:{name}:size"), "size() {} != to_bytes().len() {}", f.size(), want.len());
    let end = o.checked_add(want.len()).filter(|e| *e <= b.len());
    let Some(end) = end else {
        fail!(format!("offset:{name}:out-of-bounds"), "{name}: offset {o} + {} beyond encoding of {} bytes", want.len(), b.len());
    };
    ensure!(b[o..end] == want[..], format!("offset:{name}"), "{name}: bytes at reported offset {o} are not the field's bytes (len {})", want.len());
    match F::from_bytes(&b[o..]) {
        Ok(d) => ensure!(&d == f, format!("offset:{name}:decode"), "{name}: decoding at {o} gives {d:?}, expected {f:?}"),
        Err(e) => fail!(format!("offset:{name}:decode"), "{name}: decoding at {o} fails: {e:?}"),
    }
    Ok(())
}

/// raw bytes (no length prefix) followed by zero padding to 8 lie at `off`; returns the end
fn raw_at(b: &[u8], name: &str, off: Option<usize>, bytes: &[u8]) -> Result<usize, Failure> {
    let Some(o) = off else {
        fail!(format!("offset:{name}:none"), "no offset reported for existing field {name}");
    };
    let plen = pad8(bytes.len());
    let Some(end) = o.checked_add(plen).filter(|e| *e <= b.len()) else {
        fail!(format!("offset:{name}:out-of-bounds"), "{name}: offset {o} + {plen} beyond encoding of {} bytes", b.len());
    };
    ensure!(b[o..o + bytes.len()] == bytes[..], format!("offset:{name}"), "{name}: bytes at reported offset {o} are not the field's {} bytes", bytes.len());
    ensure!(b[o + bytes.len()..end].iter().all(|x| *x == 0), format!("offset:{name}:padding"), "{name}: non-zero padding after {} bytes at {o}", bytes.len());
    Ok(end)
}

fn absent(name: &str, off: Option<usize>) -> Check {
    ensure!(off.is_none(), format!("offset:{name}:reported-for-absent-field"), "{name}: offset {off:?} reported for a field this variant does not have");
    Ok(())
}

fn rel(base: usize, r: Option<usize>) -> Option<usize> {
    r.and_then(|r| base.checked_add(r))
}

fn a32<T: From<[u8; 32]>>(b: &B32) -> T {
    T::from(b.0)
}

// ------------------------------------------------------------------ inputs / outputs

fn input_checks(b: &[u8], o: usize, spec: &InSpec, input: &Input) -> Check {
    let r: InputRepr = input.repr();
    let size = input.size();
    match spec {
        InSpec::CoinSigned { utxo, owner, asset, txp, .. } | InSpec::CoinPredicate { utxo, owner, asset, txp, .. } => {
            ensure!(r == InputRepr::Coin, "offset:input.repr", "repr of coin input is {r:?}");
            at(b, "input.coin.utxo_id", rel(o, r.utxo_id_offset()), &utxo.build())?;
            at(b, "input.coin.owner", rel(o, r.owner_offset()), &a32::<Address>(owner))?;
            at(b, "input.coin.asset_id", rel(o, r.asset_id_offset()), &a32::<AssetId>(asset))?;
            at(b, "input.coin.tx_pointer", rel(o, r.tx_pointer_offset()), &txp.build())?;
            absent("input.coin.data", r.data_offset())?;
            absent("input.coin.contract_balance_root", r.contract_balance_root_offset())?;
            absent("input.coin.contract_state_root", r.contract_state_root_offset())?;
            absent("input.coin.contract_id", r.contract_id_offset())?;
            absent("input.coin.message_sender", r.message_sender_offset())?;
            absent("input.coin.message_recipient", r.message_recipient_offset())?;
            absent("input.coin.message_nonce", r.message_nonce_offset())?;
            let (p, pd): (&[u8], &[u8]) = match spec {
                InSpec::CoinPredicate { predicate, pdata, .. } => (&predicate.0, &pdata.0),
                _ => (&[], &[]),
            };
            // the predicate area starts where the fixed part ends
            let e = raw_at(b, "input.coin.coin_predicate", rel(o, r.coin_predicate_offset()), p)?;
            let e2 = raw_at(b, "input.coin.coin_predicate(const)", Some(o + Input::coin_predicate_offset()), p)?;
            ensure_eq!(e, e2, "offset:input.coin.coin_predicate(const)", "Input::coin_predicate_offset() vs InputRepr");
            if matches!(spec, InSpec::CoinPredicate { .. }) {
                let e = raw_at(b, "input.coin.predicate", rel(o, input.predicate_offset()), p)?;
                ensure_eq!(input.predicate_len(), Some(p.len()), "offset:input.coin.predicate_len", "predicate_len");
                let e = {
                    let e3 = raw_at(b, "input.coin.predicate_data", rel(o, input.predicate_data_offset()), pd)?;
                    ensure!(e3 >= e, "offset:input.coin.predicate_data", "predicate data before predicate end");
                    e3
                };
                ensure_eq!(input.predicate_data_len(), Some(pd.len()), "offset:input.coin.predicate_data_len", "predicate_data_len");
                ensure_eq!(e, o + size, "offset:input.coin.predicate_data:end", "predicate data does not end the input");
            } else {
                absent("input.coin-signed.predicate", input.predicate_offset())?;
                absent("input.coin-signed.predicate_data", input.predicate_data_offset())?;
                ensure_eq!(e, o + size, "offset:input.coin.coin_predicate:end", "fixed part does not end the signed coin");
            }
        }
        InSpec::Contract { utxo, balance_root, state_root, txp, contract } => {
            ensure!(r == InputRepr::Contract, "offset:input.repr", "repr of contract input is {r:?}");
            at(b, "input.contract.utxo_id", rel(o, r.utxo_id_offset()), &utxo.build())?;
            at(b, "input.contract.balance_root", rel(o, r.contract_balance_root_offset()), &a32::<Bytes32>(balance_root))?;
            at(b, "input.contract.state_root", rel(o, r.contract_state_root_offset()), &a32::<Bytes32>(state_root))?;
            at(b, "input.contract.tx_pointer", rel(o, r.tx_pointer_offset()), &txp.build())?;
            at(b, "input.contract.contract_id", rel(o, r.contract_id_offset()), &a32::<ContractId>(contract))?;
            absent("input.contract.owner", r.owner_offset())?;
            absent("input.contract.asset_id", r.asset_id_offset())?;
            absent("input.contract.data", r.data_offset())?;
            absent("input.contract.coin_predicate", r.coin_predicate_offset())?;
            absent("input.contract.message_sender", r.message_sender_offset())?;
            absent("input.contract.message_recipient", r.message_recipient_offset())?;
            absent("input.contract.message_nonce", r.message_nonce_offset())?;
            absent("input.contract.predicate", input.predicate_offset())?;
            absent("input.contract.predicate_data", input.predicate_data_offset())?;
        }
        InSpec::MsgCoinSigned { sender, recipient, nonce, .. }
        | InSpec::MsgCoinPredicate { sender, recipient, nonce, .. }
        | InSpec::MsgDataSigned { sender, recipient, nonce, .. }
        | InSpec::MsgDataPredicate { sender, recipient, nonce, .. } => {
            ensure!(r == InputRepr::Message, "offset:input.repr", "repr of message input is {r:?}");
            at(b, "input.message.sender", rel(o, r.message_sender_offset()), &a32::<Address>(sender))?;
            at(b, "input.message.recipient", rel(o, r.message_recipient_offset()), &a32::<Address>(recipient))?;
            at(b, "input.message.owner", rel(o, r.owner_offset()), &a32::<Address>(recipient))?;
            at(b, "input.message.nonce", rel(o, r.message_nonce_offset()), &a32::<Nonce>(nonce))?;
            absent("input.message.utxo_id", r.utxo_id_offset())?;
            absent("input.message.asset_id", r.asset_id_offset())?;
            absent("input.message.tx_pointer", r.tx_pointer_offset())?;
            absent("input.message.coin_predicate", r.coin_predicate_offset())?;
            absent("input.message.contract_balance_root", r.contract_balance_root_offset())?;
            absent("input.message.contract_state_root", r.contract_state_root_offset())?;
            absent("input.message.contract_id", r.contract_id_offset())?;
            let empty: &[u8] = &[];
            let (data, pred): (&[u8], Option<(&[u8], &[u8])>) = match spec {
                InSpec::MsgCoinSigned { .. } => (empty, None),
                InSpec::MsgCoinPredicate { predicate, pdata, .. } => (empty, Some((&predicate.0, &pdata.0))),
                InSpec::MsgDataSigned { data, .. } => (&data.0, None),
                InSpec::MsgDataPredicate { data, predicate, pdata, .. } => (&data.0, Some((&predicate.0, &pdata.0))),
                _ => unreachable!(),
            };
            let e = raw_at(b, "input.message.data", rel(o, r.data_offset()), data)?;
            let e2 = raw_at(b, "input.message.data(const)", Some(o + Input::message_data_offset()), data)?;
            ensure_eq!(e, e2, "offset:input.message.data(const)", "Input::message_data_offset() vs InputRepr");
            match pred {
                Some((p, pd)) => {
                    let pe = raw_at(b, "input.message.predicate", rel(o, input.predicate_offset()), p)?;
                    ensure_eq!(rel(o, input.predicate_offset()), Some(e), "offset:input.message.predicate:start", "predicate does not start where the data ends");
                    ensure_eq!(input.predicate_len(), Some(p.len()), "offset:input.message.predicate_len", "predicate_len");
                    let pde = raw_at(b, "input.message.predicate_data", rel(o, input.predicate_data_offset()), pd)?;
                    ensure_eq!(rel(o, input.predicate_data_offset()), Some(pe), "offset:input.message.predicate_data:start", "predicate data does not start where the predicate ends");
                    ensure_eq!(input.predicate_data_len(), Some(pd.len()), "offset:input.message.predicate_data_len", "predicate_data_len");
                    ensure_eq!(pde, o + size, "offset:input.message.predicate_data:end", "predicate data does not end the input");
                }
                None => {
                    absent("input.message-signed.predicate", input.predicate_offset())?;
                    absent("input.message-signed.predicate_data", input.predicate_data_offset())?;
                    ensure_eq!(e, o + size, "offset:input.message.data:end", "data does not end the signed message");
                }
            }
        }
    }
    Ok(())
}

fn output_checks(b: &[u8], o: usize, spec: &OutSpec, output: &Output) -> Check {
    let r: OutputRepr = output.repr();
    match spec {
        OutSpec::Coin { to, asset, .. } | OutSpec::Change { to, asset, .. } | OutSpec::Variable { to, asset, .. } => {
            at(b, "output.ccv.to", rel(o, r.to_offset()), &a32::<Address>(to))?;
            at(b, "output.ccv.asset_id", rel(o, r.asset_id_offset()), &a32::<AssetId>(asset))?;
            absent("output.ccv.contract_balance_root", r.contract_balance_root_offset())?;
            absent("output.ccv.contract_state_root", r.contract_state_root_offset())?;
            absent("output.ccv.contract_created_state_root", r.contract_created_state_root_offset())?;
            absent("output.ccv.contract_id", r.contract_id_offset())?;
        }
        OutSpec::Contract { balance_root, state_root, .. } => {
            at(b, "output.contract.balance_root", rel(o, r.contract_balance_root_offset()), &a32::<Bytes32>(balance_root))?;
            at(b, "output.contract.state_root", rel(o, r.contract_state_root_offset()), &a32::<Bytes32>(state_root))?;
            absent("output.contract.to", r.to_offset())?;
            absent("output.contract.asset_id", r.asset_id_offset())?;
            absent("output.contract.contract_created_state_root", r.contract_created_state_root_offset())?;
            absent("output.contract.contract_id", r.contract_id_offset())?;
        }
        OutSpec::ContractCreated { contract, state_root } => {
            at(b, "output.contract_created.contract_id", rel(o, r.contract_id_offset()), &a32::<ContractId>(contract))?;
            at(b, "output.contract_created.state_root", rel(o, r.contract_created_state_root_offset()), &a32::<Bytes32>(state_root))?;
            absent("output.contract_created.to", r.to_offset())?;
            absent("output.contract_created.asset_id", r.asset_id_offset())?;
            absent("output.contract_created.contract_balance_root", r.contract_balance_root_offset())?;
            absent("output.contract_created.contract_state_root", r.contract_state_root_offset())?;
        }
    }
    Ok(())
}

// ------------------------------------------------------------------ the common (chargeable) part

fn concat<T: CSer>(v: &[T]) -> Vec<u8> {
    let mut out = vec![];
    for x in v {
        out.extend(x.to_bytes());
    }
    out
}

fn span_at(b: &[u8], name: &str, o: usize, want: &[u8]) -> Result<usize, Failure> {
    let Some(end) = o.checked_add(want.len()).filter(|e| *e <= b.len()) else {
        fail!(format!("offset:{name}:out-of-bounds"), "{name}: offset {o} + {} beyond encoding of {} bytes", want.len(), b.len());
    };
    ensure!(b[o..end] == want[..], format!("offset:{name}"), "{name}: bytes at reported offset {o} are not the {} bytes of the field", want.len());
    Ok(end)
}

const BEYOND: [usize; 4] = [0, 1, 7, usize::MAX];

fn common_checks<T>(b: &[u8], tx: &T, spec: &TxSpec) -> Check
where
    T: Inputs + Outputs + Witnesses + PoliciesField + CSer,
{
    // offsets are relative to the encoding that starts with the `Transaction` discriminant;
    // the typed transaction encodes to the same bytes
    ensure!(tx.to_bytes() == b, "offset:typed-encoding", "typed transaction and Transaction enum encode differently");
    // policies: the values of the set policies, in bit order
    let mut pol = vec![];
    for i in 0..6 {
        if spec.pol.mask & (1 << i) != 0 {
            pol.extend(spec.pol.vals[i].to_be_bytes());
        }
    }
    let e = span_at(b, "policies", tx.policies_offset(), &pol)?;
    ensure_eq!(tx.inputs_offset(), e, "offset:inputs:start", "inputs do not start where the policies end");

    // inputs
    let ins: Vec<Input> = spec.inputs.iter().map(|i| i.build()).collect();
    ensure!(&ins == tx.inputs(), "harness-spec-build", "inputs() differ from the spec");
    let e = span_at(b, "inputs", tx.inputs_offset(), &concat(&ins))?;
    ensure_eq!(tx.outputs_offset(), e, "offset:outputs:start", "outputs do not start where the inputs end");
    for (i, (inp, sp)) in ins.iter().zip(&spec.inputs).enumerate() {
        let o = tx.inputs_offset_at(i);
        at(b, "inputs_at", o, inp).map_err(|f| Failure::new(f.key, format!("input {i}: {}", f.msg)))?;
        let o = o.unwrap();
        input_checks(b, o, sp, inp).map_err(|f| Failure::new(f.key, format!("input {i} at {o}: {}", f.msg)))?;
        // predicate offset + padded length, relative to the transaction
        let pr = tx.inputs_predicate_offset_at(i);
        let p: Option<&[u8]> = match sp {
            InSpec::CoinPredicate { predicate, .. } | InSpec::MsgCoinPredicate { predicate, .. } | InSpec::MsgDataPredicate { predicate, .. } => Some(&predicate.0),
            _ => None,
        };
        match (p, pr) {
            (Some(p), Some((po, plen))) => {
                ensure_eq!(plen, pad8(p.len()), "offset:inputs_predicate_at:len", "input {i}: predicate length {} must be reported padded", p.len());
                raw_at(b, "inputs_predicate_at", Some(po), p).map_err(|f| Failure::new(f.key, format!("input {i}: {}", f.msg)))?;
                ensure_eq!(Some(po), rel(o, inp.predicate_offset()), "offset:inputs_predicate_at:vs-input", "input {i}: tx-level vs input-level predicate offset");
            }
            (Some(_), None) => fail!("offset:inputs_predicate_at:none", "input {i}: no predicate offset for a predicate input"),
            (None, Some(x)) => fail!("offset:inputs_predicate_at:reported-for-absent-field", "input {i} ({}): predicate offset {x:?} for an input without predicate", sp.kind()),
            (None, None) => {}
        }
    }
    for d in BEYOND {
        let i = ins.len().saturating_add(d);
        ensure!(tx.inputs_offset_at(i).is_none(), "offset:inputs_at:beyond-len", "inputs_offset_at({i}) is Some with {} inputs", ins.len());
        ensure!(tx.inputs_predicate_offset_at(i).is_none(), "offset:inputs_predicate_at:beyond-len", "inputs_predicate_offset_at({i}) is Some with {} inputs", ins.len());
    }

    // outputs
    let outs: Vec<Output> = spec.outputs.iter().map(|o| o.build()).collect();
    let e = span_at(b, "outputs", tx.outputs_offset(), &concat(&outs))?;
    ensure_eq!(tx.witnesses_offset(), e, "offset:witnesses:start", "witnesses do not start where the outputs end");
    for (i, (out, sp)) in outs.iter().zip(&spec.outputs).enumerate() {
        let o = tx.outputs_offset_at(i);
        at(b, "outputs_at", o, out).map_err(|f| Failure::new(f.key, format!("output {i}: {}", f.msg)))?;
        output_checks(b, o.unwrap(), sp, out).map_err(|f| Failure::new(f.key, format!("output {i}: {}", f.msg)))?;
    }
    for d in BEYOND {
        let i = outs.len().saturating_add(d);
        ensure!(tx.outputs_offset_at(i).is_none(), "offset:outputs_at:beyond-len", "outputs_offset_at({i}) is Some with {} outputs", outs.len());
    }

    // witnesses (the last thing in the encoding)
    let wits: Vec<Witness> = spec.witnesses.iter().map(|w| Witness::from(w.0.clone())).collect();
    let e = span_at(b, "witnesses", tx.witnesses_offset(), &concat(&wits))?;
    ensure_eq!(e, b.len(), "offset:witnesses:end", "witnesses do not end the encoding");
    for (i, w) in wits.iter().enumerate() {
        at(b, "witnesses_at", tx.witnesses_offset_at(i), w).map_err(|f| Failure::new(f.key, format!("witness {i}: {}", f.msg)))?;
    }
    for d in BEYOND {
        let i = wits.len().saturating_add(d);
        ensure!(tx.witnesses_offset_at(i).is_none(), "offset:witnesses_at:beyond-len", "witnesses_offset_at({i}) is Some with {} witnesses", wits.len());
    }
    Ok(())
}

type Report = Vec<(String, Option<(usize, usize)>)>;

fn common_report<T>(tx: &T, r: &mut Report)
where
    T: Inputs + Outputs + Witnesses + PoliciesField,
{
    let s = |x: usize| Some((x, 0));
    let o = |x: Option<usize>| x.map(|x| (x, 0));
    r.push(("policies_offset".into(), s(tx.policies_offset())));
    r.push(("inputs_offset".into(), s(tx.inputs_offset())));
    r.push(("outputs_offset".into(), s(tx.outputs_offset())));
    r.push(("witnesses_offset".into(), s(tx.witnesses_offset())));
    let n = tx.inputs().len();
    for i in (0..n + 2).chain([usize::MAX]) {
        r.push((format!("inputs_offset_at({i})"), o(tx.inputs_offset_at(i))));
        r.push((format!("inputs_predicate_offset_at({i})"), tx.inputs_predicate_offset_at(i)));
    }
    let n = tx.outputs().len();
    for i in (0..n + 2).chain([usize::MAX]) {
        r.push((format!("outputs_offset_at({i})"), o(tx.outputs_offset_at(i))));
    }
    let n = tx.witnesses().len();
    for i in (0..n + 2).chain([usize::MAX]) {
        r.push((format!("witnesses_offset_at({i})"), o(tx.witnesses_offset_at(i))));
    }
}

/// every offset the transaction reports through `&self` methods (may come from the cache)
fn report(tx: &Transaction) -> Report {
    let mut r: Report = vec![];
    let s = |x: usize| Some((x, 0));
    let o = |x: Option<usize>| x.map(|x| (x, 0));
    match tx {
        Transaction::Script(t) => {
            common_report(t, &mut r);
            r.push(("script_gas_limit_offset".into(), s(t.script_gas_limit_offset())));
            r.push(("receipts_root_offset".into(), s(t.receipts_root_offset())));
            r.push(("script_offset".into(), s(t.script_offset())));
            r.push(("script_data_offset".into(), s(t.script_data_offset())));
            r.push(("body_offset_end".into(), s(ChargeableBody::<_>::body_offset_end(t))));
        }
        Transaction::Create(t) => {
            common_report(t, &mut r);
            r.push(("bytecode_witness_index_offset".into(), s(t.bytecode_witness_index_offset())));
            r.push(("salt_offset".into(), s(t.salt_offset())));
            let n = t.storage_slots().len();
            for i in (0..n + 2).chain([usize::MAX]) {
                r.push((format!("storage_slots_offset_at({i})"), o(t.storage_slots_offset_at(i))));
            }
            r.push(("body_offset_end".into(), s(ChargeableBody::<_>::body_offset_end(t))));
        }
        Transaction::Upgrade(t) => {
            common_report(t, &mut r);
            r.push(("upgrade_purpose_offset".into(), s(t.upgrade_purpose_offset())));
            r.push(("body_offset_end".into(), s(ChargeableBody::<_>::body_offset_end(t))));
        }
        Transaction::Upload(t) => {
            common_report(t, &mut r);
            r.push(("bytecode_root_offset".into(), s(t.bytecode_root_offset())));
            r.push(("bytecode_witness_index_offset".into(), s(t.bytecode_witness_index_offset())));
            r.push(("subsection_index_offset".into(), s(t.subsection_index_offset())));
            r.push(("subsections_number_offset".into(), s(t.subsections_number_offset())));
            r.push(("proof_set_offset".into(), s(t.proof_set_offset())));
            let n = t.proof_set().len();
            for i in (0..n + 2).chain([usize::MAX]) {
                r.push((format!("proof_set_offset_at({i})"), o(t.proof_set_offset_at(i))));
            }
            r.push(("body_offset_end".into(), s(ChargeableBody::<_>::body_offset_end(t))));
        }
        Transaction::Blob(t) => {
            common_report(t, &mut r);
            r.push(("blob_id_offset".into(), s(t.blob_id_offset())));
            r.push(("bytecode_witness_index_offset".into(), s(t.bytecode_witness_index_offset())));
            r.push(("body_offset_end".into(), s(ChargeableBody::<_>::body_offset_end(t))));
        }
        Transaction::Mint(t) => {
            r.push(("tx_pointer_offset".into(), s(t.tx_pointer_offset())));
            r.push(("input_contract_offset".into(), s(t.input_contract_offset())));
            r.push(("output_contract_offset".into(), s(t.output_contract_offset())));
            r.push(("mint_amount_offset".into(), s(t.mint_amount_offset())));
            r.push(("mint_asset_id_offset".into(), s(t.mint_asset_id_offset())));
            r.push(("gas_price_offset".into(), s(t.gas_price_offset())));
        }
    }
    r
}

// ------------------------------------------------------------------ the check

fn kind_name(k: u8) -> &'static str {
    match k {
        0 => "script",
        1 => "create",
        2 => "mint",
        3 => "upgrade",
        4 => "upload",
        _ => "blob",
    }
}

fn has_odd_vector(t: &TxSpec) -> bool {
    let odd = |b: &HexBytes| b.0.len() % 8 != 0;
    let body = match &t.body {
        BodySpec::Script { script, data, .. } => odd(script) || odd(data),
        _ => false,
    };
    body || t.inputs.iter().any(|i| match i {
        InSpec::CoinPredicate { predicate, pdata, .. } | InSpec::MsgCoinPredicate { predicate, pdata, .. } => odd(predicate) || odd(pdata),
        InSpec::MsgDataSigned { data, .. } => odd(data),
        InSpec::MsgDataPredicate { data, predicate, pdata, .. } => odd(data) || odd(predicate) || odd(pdata),
        _ => false,
    }) || t.witnesses.iter().rev().skip(1).any(odd)
}

fn classify(t: &TxSpec, obs: &mut Obs) {
    let kinds: std::collections::BTreeSet<u8> = t.inputs.iter().map(|i| i.kind()).collect();
    let is_pred = |i: &InSpec| matches!(i.kind(), 1 | 4 | 6);
    let sandwich = t.inputs.iter().enumerate().any(|(k, i)| i.kind() == 2 && t.inputs[..k].iter().any(is_pred) && t.inputs[k + 1..].iter().any(is_pred));
    if sandwich {
        obs.class("contract-between-predicates");
    }
    if let BodySpec::Script { script, .. } = &t.body {
        if script.0.len() == 7 {
            obs.class("script-len-7");
        }
        if script.0.len() % 8 != 0 && t.inputs.iter().any(|i| i.kind() == 6) {
            obs.class("odd-script-then-message-data-predicate");
        }
    }
    if t.inputs.is_empty() {
        obs.class("no-inputs");
    }
    if t.outputs.is_empty() {
        obs.class("no-outputs");
    }
    if t.witnesses.is_empty() {
        obs.class("no-witnesses");
    }
    if t.inputs.len() >= 20 {
        obs.class("inputs>=20");
    }
    if kinds.len() == 7 {
        obs.class("all-7-input-kinds");
    }
    if t.inputs.len() >= 3 && kinds.len() >= 2 && has_odd_vector(t) {
        obs.class("nontrivial");
        obs.nontrivial(&layout_sig(t));
    }
}

fn check_offsets(c: &AnyTx, obs: &mut Obs) -> Check {
    let kind = kind_name(c.kind());
    obs.class(kind);
    let tx = c.build();
    let b = tx.to_bytes();
    ensure_eq!(b.len(), tx.size(), "offset:tx-size", "size() vs to_bytes().len()");
    ensure!(b.len() % 8 == 0, "offset:tx-size:unaligned", "encoding of {} bytes is not word aligned", b.len());

    let tag = |f: Failure| Failure::new(format!("{}:{kind}", f.key), f.msg);
    match (&tx, c) {
        (Transaction::Script(t), AnyTx::Charge(spec)) => {
            classify(spec, obs);
            let BodySpec::Script { gas_limit, receipts_root, script, data } = &spec.body else { fail!("harness-spec-build", "kind") };
            at(&b, "script_gas_limit", Some(t.script_gas_limit_offset()), gas_limit)?;
            at(&b, "receipts_root", Some(t.receipts_root_offset()), &a32::<Bytes32>(receipts_root))?;
            let e = raw_at(&b, "script", Some(t.script_offset()), &script.0)?;
            ensure_eq!(t.script_data_offset(), e, "offset:script_data:start", "script data does not start where the padded script ({} bytes) ends", script.0.len());
            let e = raw_at(&b, "script_data", Some(t.script_data_offset()), &data.0)?;
            ensure_eq!(ChargeableBody::<_>::body_offset_end(t), e, "offset:body_offset_end:script", "body end");
            ensure_eq!(t.policies_offset(), e, "offset:policies:start", "policies do not start where the script data ends");
            ensure_eq!(fuel_tx::Script::script_gas_limit_offset_static(), t.script_gas_limit_offset(), "offset:script_gas_limit:static", "static");
            ensure_eq!(fuel_tx::Script::receipts_root_offset_static(), t.receipts_root_offset(), "offset:receipts_root:static", "static");
            ensure_eq!(fuel_tx::Script::script_offset_static(), t.script_offset(), "offset:script:static", "static");
            common_checks(&b, t, spec).map_err(tag)?;
        }
        (Transaction::Create(t), AnyTx::Charge(spec)) => {
            classify(spec, obs);
            let BodySpec::Create { wit, salt, slots } = &spec.body else { fail!("harness-spec-build", "kind") };
            at(&b, "create.bytecode_witness_index", Some(t.bytecode_witness_index_offset()), wit)?;
            at(&b, "salt", Some(t.salt_offset()), &a32::<Salt>(salt))?;
            let sl: Vec<StorageSlot> = slots.iter().map(|(k, v)| StorageSlot::new(a32(k), a32(v))).collect();
            ensure!(&sl == t.storage_slots(), "harness-spec-build", "storage slots differ from the spec");
            let e = span_at(&b, "storage_slots", fuel_tx::Create::storage_slots_offset_static(), &concat(&sl))?;
            for (i, s) in sl.iter().enumerate() {
                at(&b, "storage_slots_at", t.storage_slots_offset_at(i), s).map_err(|f| Failure::new(f.key, format!("slot {i}: {}", f.msg)))?;
            }
            for d in BEYOND {
                let i = sl.len().saturating_add(d);
                ensure!(t.storage_slots_offset_at(i).is_none(), "offset:storage_slots_at:beyond-len", "storage_slots_offset_at({i}) is Some with {} slots", sl.len());
            }
            ensure_eq!(ChargeableBody::<_>::body_offset_end(t), e, "offset:body_offset_end:create", "body end");
            ensure_eq!(t.policies_offset(), e, "offset:policies:start", "policies do not start where the storage slots end");
            ensure_eq!(fuel_tx::Create::bytecode_witness_index_offset_static(), t.bytecode_witness_index_offset(), "offset:create.bytecode_witness_index:static", "static");
            ensure_eq!(fuel_tx::Create::salt_offset_static(), t.salt_offset(), "offset:salt:static", "static");
            common_checks(&b, t, spec).map_err(tag)?;
        }
        (Transaction::Upgrade(t), AnyTx::Charge(spec)) => {
            classify(spec, obs);
            let BodySpec::Upgrade(p) = &spec.body else { fail!("harness-spec-build", "kind") };
            let purpose = p.build();
            at(&b, "upgrade_purpose", Some(t.upgrade_purpose_offset()), &purpose)?;
            ensure_eq!(fuel_tx::Upgrade::upgrade_purpose_offset_static(), t.upgrade_purpose_offset(), "offset:upgrade_purpose:static", "static");
            // static part: purpose, then policy bits and three vector lengths (one word each)
            let e = t.upgrade_purpose_offset() + purpose.size() + 4 * 8;
            ensure_eq!(ChargeableBody::<_>::body_offset_end(t), e, "offset:body_offset_end:upgrade", "body end");
            common_checks(&b, t, spec).map_err(tag)?;
        }
        (Transaction::Upload(t), AnyTx::Charge(spec)) => {
            classify(spec, obs);
            let BodySpec::Upload { root, wit, sub_idx, sub_n, proof } = &spec.body else { fail!("harness-spec-build", "kind") };
            at(&b, "bytecode_root", Some(t.bytecode_root_offset()), &a32::<Bytes32>(root))?;
            at(&b, "upload.bytecode_witness_index", Some(t.bytecode_witness_index_offset()), wit)?;
            at(&b, "subsection_index", Some(t.subsection_index_offset()), sub_idx)?;
            at(&b, "subsections_number", Some(t.subsections_number_offset()), sub_n)?;
            let ps: Vec<Bytes32> = proof.iter().map(a32).collect();
            let e = span_at(&b, "proof_set", t.proof_set_offset(), &concat(&ps))?;
            for (i, p) in ps.iter().enumerate() {
                at(&b, "proof_set_at", t.proof_set_offset_at(i), p).map_err(|f| Failure::new(f.key, format!("proof {i}: {}", f.msg)))?;
            }
            for d in BEYOND {
                let i = ps.len().saturating_add(d);
                ensure!(t.proof_set_offset_at(i).is_none(), "offset:proof_set_at:beyond-len", "proof_set_offset_at({i}) is Some with {} entries", ps.len());
            }
            ensure_eq!(ChargeableBody::<_>::body_offset_end(t), e, "offset:body_offset_end:upload", "body end");
            ensure_eq!(t.policies_offset(), e, "offset:policies:start", "policies do not start where the proof set ends");
            ensure_eq!(fuel_tx::Upload::bytecode_root_offset_static(), t.bytecode_root_offset(), "offset:bytecode_root:static", "static");
            ensure_eq!(fuel_tx::Upload::bytecode_witness_index_offset_static(), t.bytecode_witness_index_offset(), "offset:upload.bytecode_witness_index:static", "static");
            ensure_eq!(fuel_tx::Upload::subsection_index_offset_static(), t.subsection_index_offset(), "offset:subsection_index:static", "static");
            ensure_eq!(fuel_tx::Upload::subsections_number_offset_static(), t.subsections_number_offset(), "offset:subsections_number:static", "static");
            ensure_eq!(fuel_tx::Upload::proof_set_offset_static(), t.proof_set_offset(), "offset:proof_set:static", "static");
            common_checks(&b, t, spec).map_err(tag)?;
        }
        (Transaction::Blob(t), AnyTx::Charge(spec)) => {
            classify(spec, obs);
            let BodySpec::Blob { id, wit } = &spec.body else { fail!("harness-spec-build", "kind") };
            at(&b, "blob_id", Some(t.blob_id_offset()), &a32::<BlobId>(id))?;
            at(&b, "blob.bytecode_witness_index", Some(t.bytecode_witness_index_offset()), wit)?;
            ensure_eq!(fuel_tx::Blob::blob_id_offset_static(), t.blob_id_offset(), "offset:blob_id:static", "static");
            ensure_eq!(fuel_tx::Blob::bytecode_witness_index_offset_static(), t.bytecode_witness_index_offset(), "offset:blob.bytecode_witness_index:static", "static");
            let e = t.bytecode_witness_index_offset() + 8 + 4 * 8;
            ensure_eq!(ChargeableBody::<_>::body_offset_end(t), e, "offset:body_offset_end:blob", "body end");
            common_checks(&b, t, spec).map_err(tag)?;
        }
        (Transaction::Mint(t), AnyTx::Mint(m)) => {
            let built = m.build();
            at(&b, "mint.tx_pointer", Some(t.tx_pointer_offset()), &m.txp.build())?;
            ensure_eq!(fuel_tx::Mint::tx_pointer_static(), t.tx_pointer_offset(), "offset:mint.tx_pointer:static", "static");
            at(&b, "mint.input_contract", Some(t.input_contract_offset()), built.input_contract())?;
            at(&b, "mint.output_contract", Some(t.output_contract_offset()), built.output_contract())?;
            at(&b, "mint.amount", Some(t.mint_amount_offset()), &m.amount)?;
            at(&b, "mint.asset_id", Some(t.mint_asset_id_offset()), &a32::<AssetId>(&m.asset))?;
            at(&b, "mint.gas_price", Some(t.gas_price_offset()), &m.gas_price)?;
            ensure_eq!(t.gas_price_offset() + 8, b.len(), "offset:mint.gas_price:end", "gas price does not end the mint encoding");
            // the contract input's own fields, through the spec
            let io = t.input_contract_offset();
            at(&b, "mint.input_contract.utxo_id", Some(io), &m.in_utxo.build())?;
            at(&b, "mint.input_contract.contract_id", Some(t.output_contract_offset() - 32), &a32::<ContractId>(&m.contract))?;
            obs.nontrivial(&(2u8, m.out_input_index, m.txp.1));
        }
        _ => fail!("harness-spec-build", "built transaction kind does not match the spec"),
    }

    // cached == uncached
    let before = report(&tx);
    let mut cached = tx.clone();
    let chain = ChainId::new(0);
    match cached.precompute(&chain) {
        Ok(()) => {
            obs.class("precompute-ok");
            ensure!(cached.is_computed(), "cached:not-computed", "is_computed() false after precompute");
            let after = report(&cached);
            ensure_eq!(before.len(), after.len(), "cached:report-shape", "number of reported offsets");
            for ((n0, v0), (n1, v1)) in before.iter().zip(&after) {
                ensure_eq!(n0, n1, "cached:report-shape", "offset names");
                let name = n0.split('(').next().unwrap_or(n0);
                ensure_eq!(v1, v0, format!("cached:{name}:{kind}"), "{n0}: cached (left) vs uncached (right)");
            }
            ensure!(cached.to_bytes() == b, "cached:bytes", "precompute changed the encoding");
            // a later precompute refreshes every cached offset: change the layout (script grows by
            // a non-multiple of 8 / an input is removed / a witness is inserted in front), precompute
            // again and compare with a freshly built, never-cached transaction
            let mut changed = cached.clone();
            let mut did = false;
            {
                use fuel_tx::field::{Inputs, Script as ScriptField, Witnesses};
                fn shift<T: Inputs + Witnesses>(t: &mut T) -> bool {
                    if !t.inputs().is_empty() {
                        t.inputs_mut().remove(0);
                    } else {
                        t.witnesses_mut().insert(0, fuel_tx::Witness::from(vec![1u8, 2, 3]));
                    }
                    true
                }
                match &mut changed {
                    Transaction::Script(t) => {
                        t.script_mut().extend_from_slice(&[0x47, 0, 0, 0, 0x47, 0, 0, 0, 0x47, 0, 0, 0, 1]);
                        did = true;
                    }
                    Transaction::Create(t) => did = shift(t),
                    Transaction::Upgrade(t) => did = shift(t),
                    Transaction::Upload(t) => did = shift(t),
                    Transaction::Blob(t) => did = shift(t),
                    Transaction::Mint(_) => {}
                }
            }
            if did {
                // a fresh copy without any cache: decode from bytes
                let fresh = Transaction::from_bytes(&changed.to_bytes()).map_err(|e| Failure::new("harness-refresh-decode", format!("{e:?}")))?;
                let want = report(&fresh);
                if changed.precompute(&chain).is_ok() {
                    obs.class("re-precompute-after-layout-change");
                    let got = report(&changed);
                    ensure_eq!(want.len(), got.len(), "cached:refresh:report-shape", "number of reported offsets");
                    for ((n0, v0), (_, v1)) in want.iter().zip(&got) {
                        let name = n0.split('(').next().unwrap_or(n0);
                        ensure_eq!(v1, v0, format!("cached:stale-after-change-and-precompute:{name}:{kind}"), "{n0}: cached after re-precompute (left) vs uncached (right)");
                    }
                }
            }
        }
        Err(e) => {
            obs.class("precompute-err");
            ensure!(precompute_error_explained(c, &e), format!("cached:precompute-unexpected-error:{kind}"), "precompute failed with {e:?}, which the spec does not explain");
        }
    }
    Ok(())
}

pub fn property() -> Property {
    Property {
        id: "C04",
        rule: "G-TX transactions biased to mixed layouts (contract input between predicate inputs, all 7 input kinds shuffled, 20..=40 inputs, scripts/predicates/data/witnesses of length mostly != 0 mod 8 incl. 7-byte scripts, empty vectors; script twice as often as the other 4 chargeable kinds; 1 in 9 mint). Every offset API of fuel-tx is compared with the bytes of tx.to_bytes(): field bytes from the spec at the reported offset, field type decodes there, consecutive areas abut, _at(len..) is None; after precompute every reported offset equals the uncached one. Non-trivial = >= 3 inputs of >= 2 kinds and a byte vector with len % 8 != 0 before the last witness; distinct by layout signature (kinds, policy mask, length classes mod 8)".into(),
        assumptions: vec![
            "the canonical encoder (C01) produces tx.to_bytes() and the field bytes compared at each offset".into(),
            "expected field values come from the generator spec, built through public constructors".into(),
        ],
        parts: vec![gen_part("offsets", "all offset APIs vs the encoding; cached vs uncached", (200_000, 4_000_000), |_c: &Ctx| layout_any_tx(), check_offsets)],
        floors: vec![("offsets", "nontrivial", 0.4), ("offsets", "contract-between-predicates", 0.2), ("offsets", "precompute-ok", 0.6), ("offsets", "script-len-7", 0.02)],
    }
}
