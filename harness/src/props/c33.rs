//! C33 — Contract storage instructions behave like a key-value map.
//!
//! Worlds whose contracts are sequences of storage instructions over a colliding key table
//! (four adjoining keys, the three keys below 2^256, key 0), called 1–3 times per transaction,
//! 1–3 transactions in sequence on the same storage and the same VM instance.  Every executed
//! storage instruction is decoded from the instruction word at `$pc`, its operands are read from
//! the pre-state registers / memory, and `model::kv` says what must happen:
//!   * registers (value, status flag, `$err`), memory (copied bytes, zero fill) after a read,
//!   * `MemoryStorage::all_contract_state()` after every write / clear,
//!   * panic or not, and the admissible panic reasons.
//! Cache: under a gas schedule in which a cached slot read costs what an uncached one costs, the whole
//! sequence is executed with the slot cache in use and with the cache emptied before every
//! instruction: everything, gas included, must be identical (with the real schedule the two runs may
//! only differ in gas — but stale call-frame bytes in memory carry gas values, so "identical except
//! gas" cannot be compared byte for byte; equal prices turn the statement into an exact one).
use crate::engine::*;
use crate::gens::tx::{HexBytes, B32};
use crate::model::kv::{self, Kv, MemView, StIns, Verdict, R};
use crate::vm::prog::{self, Base, MemOp, Ptr, StOp, Tpl, Val};
use crate::vm::world::{self, Sched, Vm, WorldSpec};
use crate::{ensure, ensure_eq, fail};
use fuel_asm::{Instruction, PanicReason, RegId};
use fuel_tx::{Output, Receipt};
use fuel_vm::consts::{MEM_SIZE, VM_MAX_RAM};
use fuel_vm::interpreter::{Interpreter, MemoryInstance};
use fuel_vm::state::{DebugEval, ProgramState};
use fuel_vm::storage::MemoryStorage;
use proptest::prelude::*;
use serde::{Deserialize, Serialize};
use std::collections::{BTreeMap, BTreeSet};

#[derive(Debug, Clone, Serialize, Deserialize)]
pub struct Case {
    /// contracts = storage sequences; `world.script` is the script of the first transaction
    pub world: WorldSpec,
    /// scripts of the following transactions (same inputs, same storage, same VM)
    pub more: Vec<Vec<Tpl>>,
    /// consensus parameter `max_storage_slot_length` used for the run
    pub max_slot: u64,
}

const BIG: u64 = 1 << 20;
/// the generated words table: [0]=2^33 (huge count), [1]=u64::MAX-1, [2]=2^32, [3]=100_000,
/// [4..7] = lengths around the default maximum slot length, [7] = allocation size for them
pub const WORDS: [u64; 8] = [1 << 33, u64::MAX - 1, 1 << 32, 100_000, BIG - 1, BIG, BIG + 1, BIG + 64];

// ------------------------------------------------------------------ pre-state memory view

struct PreMem {
    stack: Vec<u8>,
    heap: Vec<u8>,
    heap_off: u64,
    hp: u64,
    sp: u64,
    ssp: u64,
    prev_hp: u64,
}

impl PreMem {
    fn take(vm: &Vm<MemoryStorage>, prev_hp: u64) -> Self {
        let m = vm.memory();
        let r = vm.registers();
        // only the live heap `[$hp, top)`: the backing buffer can be much larger than what is allocated
        let raw = m.heap_raw();
        let raw_off = MEM_SIZE - raw.len();
        let hp = (r[RegId::HP] as usize).clamp(raw_off, MEM_SIZE);
        let heap = raw[hp - raw_off..].to_vec();
        PreMem { stack: m.stack_raw().to_vec(), heap_off: hp as u64, heap, hp: r[RegId::HP], sp: r[RegId::SP], ssp: r[RegId::SSP], prev_hp }
    }
    fn check(&self, addr: u64, len: u64) -> Result<(), R> {
        let end = addr.checked_add(len).ok_or(R::MemoryOverflow)?;
        if end > MEM_SIZE as u64 {
            return Err(R::MemoryOverflow);
        }
        if end <= self.stack.len() as u64 || addr >= self.hp {
            Ok(())
        } else {
            Err(R::UninitalizedMemoryAccess)
        }
    }
    fn poke(&mut self, addr: u64, data: &[u8]) {
        let end = addr + data.len() as u64;
        if end <= self.stack.len() as u64 {
            self.stack[addr as usize..end as usize].copy_from_slice(data);
        } else {
            let a = (addr - self.heap_off) as usize;
            self.heap[a..a + data.len()].copy_from_slice(data);
        }
    }
}

impl MemView for PreMem {
    fn read(&self, addr: u64, len: u64) -> Result<Vec<u8>, Vec<R>> {
        self.check(addr, len).map_err(|r| vec![r])?;
        let end = addr + len;
        Ok(if end <= self.stack.len() as u64 {
            self.stack[addr as usize..end as usize].to_vec()
        } else {
            let a = (addr - self.heap_off) as usize;
            self.heap[a..a + len as usize].to_vec()
        })
    }
    fn write_violations(&self, addr: u64, len: u64) -> Vec<R> {
        let mut v = vec![];
        if let Err(r) = self.check(addr, len) {
            v.push(r);
        }
        let end = addr.saturating_add(len);
        let stack = self.ssp <= addr && end <= self.sp;
        let heap = self.hp <= addr && end <= self.prev_hp;
        if !(stack || heap) {
            v.push(R::MemoryOwnership);
        }
        v
    }
}

fn reason_of(r: R) -> PanicReason {
    match r {
        R::ExpectedInternalContext => PanicReason::ExpectedInternalContext,
        R::MemoryOverflow => PanicReason::MemoryOverflow,
        R::UninitalizedMemoryAccess => PanicReason::UninitalizedMemoryAccess,
        R::MemoryOwnership => PanicReason::MemoryOwnership,
        R::StorageOutOfBounds => PanicReason::StorageOutOfBounds,
        R::TooManySlots => PanicReason::TooManySlots,
        R::ReservedRegisterNotWritable => PanicReason::ReservedRegisterNotWritable,
    }
}

// ------------------------------------------------------------------ decoding

/// (mnemonic, legacy 32-byte family?, model instruction)
fn decode(raw: u32, regs: &[u64]) -> Option<(&'static str, bool, StIns)> {
    let g = |r: RegId| regs[r.to_u8() as usize];
    Some(match Instruction::try_from(raw).ok()? {
        Instruction::SRW(i) => {
            let (a, b, c, imm) = i.unpack();
            ("SRW", true, StIns::Srw { dst: a.to_u8(), status: b.to_u8(), key_ptr: g(c), word: imm.to_u8() })
        }
        Instruction::SRWQ(i) => {
            let (a, b, c, d) = i.unpack();
            ("SRWQ", true, StIns::Srwq { dst_ptr: g(a), status: b.to_u8(), key_ptr: g(c), count: g(d) })
        }
        Instruction::SWW(i) => {
            let (a, b, c) = i.unpack();
            ("SWW", true, StIns::Sww { key_ptr: g(a), status: b.to_u8(), value: g(c) })
        }
        Instruction::SWWQ(i) => {
            let (a, b, c, d) = i.unpack();
            ("SWWQ", true, StIns::Swwq { key_ptr: g(a), status: b.to_u8(), src_ptr: g(c), count: g(d) })
        }
        Instruction::SCWQ(i) => {
            let (a, b, c) = i.unpack();
            ("SCWQ", true, StIns::Scwq { key_ptr: g(a), status: b.to_u8(), count: g(c) })
        }
        Instruction::SCLR(i) => {
            let (a, b) = i.unpack();
            ("SCLR", false, StIns::Sclr { key_ptr: g(a), count: g(b) })
        }
        Instruction::SRDD(i) => {
            let (a, b, c, d) = i.unpack();
            ("SRDD", false, StIns::Srd { dst_ptr: g(a), key_ptr: g(b), offset: g(c), len: g(d) })
        }
        Instruction::SRDI(i) => {
            let (a, b, c, imm) = i.unpack();
            ("SRDI", false, StIns::Srd { dst_ptr: g(a), key_ptr: g(b), offset: g(c), len: imm.to_u8() as u64 })
        }
        Instruction::SWRD(i) => {
            let (a, b, c) = i.unpack();
            ("SWRD", false, StIns::Swr { key_ptr: g(a), src_ptr: g(b), len: g(c) })
        }
        Instruction::SWRI(i) => {
            let (a, b, imm) = i.unpack();
            ("SWRI", false, StIns::Swr { key_ptr: g(a), src_ptr: g(b), len: imm.to_u16() as u64 })
        }
        Instruction::SUPD(i) => {
            let (a, b, c, d) = i.unpack();
            ("SUPD", false, StIns::Sup { key_ptr: g(a), src_ptr: g(b), offset: g(c), len: g(d) })
        }
        Instruction::SUPI(i) => {
            let (a, b, c, imm) = i.unpack();
            ("SUPI", false, StIns::Sup { key_ptr: g(a), src_ptr: g(b), offset: g(c), len: imm.to_u8() as u64 })
        }
        Instruction::SPLD(i) => {
            let (a, b) = i.unpack();
            ("SPLD", false, StIns::Spld { dst: a.to_u8(), key_ptr: g(b) })
        }
        _ => return None,
    })
}

// ------------------------------------------------------------------ monitored run of one tx

struct Pending {
    name: &'static str,
    legacy: bool,
    ins: StIns,
    verdict: Verdict,
    regs: Vec<u64>,
    mem: PreMem,
    me: Option<[u8; 32]>,
}

#[derive(Debug, Clone, PartialEq)]
struct TxTrace {
    state: Result<ProgramState, String>,
    receipts: Vec<Receipt>,
    outputs: Vec<Output>,
    /// per step: hash of the non-gas registers
    steps: Vec<u64>,
    /// after every completed storage instruction: hash of the live memory
    mems: Vec<u64>,
    final_mem: u64,
    out_of_gas: bool,
    reverted: bool,
}

#[derive(Default)]
struct Stats {
    /// per (contract, key): bit 0 = touched by a legacy op, bit 1 = by a dynamic op
    touched: BTreeMap<([u8; 32], [u8; 32]), u8>,
    sig: Vec<(u8, u8, u8)>,
    executed: u64,
    completed: u64,
}

const GAS_REGS: [usize; 2] = [0x09, 0x0a]; // $ggas, $cgas

fn reg_hash(regs: &[u64]) -> u64 {
    hash64(regs)
}

/// live memory: `[0,$sp)` and `[$hp, top)`
fn mem_hash(vm: &Vm<MemoryStorage>) -> u64 {
    let r = vm.registers();
    let m = vm.memory();
    let sp = (r[RegId::SP] as usize).min(m.stack_raw().len());
    let heap = m.heap_raw();
    let heap_off = MEM_SIZE - heap.len();
    let hp = (r[RegId::HP] as usize).clamp(heap_off, MEM_SIZE);
    hash64(&(&m.stack_raw()[..sp], &heap[hp - heap_off..]))
}

/// The same consensus parameters with the price of a cached slot read made equal to the price of an
/// uncached one: with this schedule the slot cache may not change *anything*, gas included.
fn equalized(params: &fuel_tx::ConsensusParameters) -> Result<fuel_tx::ConsensusParameters, Failure> {
    fn fix(v: &mut serde_json::Value) -> bool {
        match v {
            serde_json::Value::Object(o) => {
                if let (Some(c), true) = (o.get("storage_read_cold").cloned(), o.contains_key("storage_read_hot")) {
                    o.insert("storage_read_hot".into(), c);
                    return true;
                }
                o.values_mut().any(fix)
            }
            serde_json::Value::Array(a) => a.iter_mut().any(fix),
            _ => false,
        }
    }
    let mut v = serde_json::to_value(params.gas_costs()).map_err(|e| Failure::new("harness-equalize", format!("{e}")))?;
    ensure!(fix(&mut v), "harness-equalize", "storage_read_hot / storage_read_cold not found in the gas schedule");
    let gc: fuel_tx::GasCosts = serde_json::from_value(v).map_err(|e| Failure::new("harness-equalize", format!("{e}")))?;
    let mut p = params.clone();
    p.set_gas_costs(gc);
    Ok(p)
}

fn storage_map(s: &MemoryStorage) -> BTreeMap<([u8; 32], [u8; 32]), Vec<u8>> {
    s.all_contract_state().map(|(k, v)| ((**k.contract_id(), **k.state_key()), AsRef::<[u8]>::as_ref(v).to_vec())).collect()
}

fn panic_reason(receipts: &[Receipt]) -> Option<PanicReason> {
    receipts.iter().rev().find_map(|r| match r {
        Receipt::Panic { reason, .. } => Some(*reason.reason()),
        _ => None,
    })
}

fn after_check(vm: &Vm<MemoryStorage>, p: Pending, ended: bool, kv: &mut Kv, obs: &mut Obs, st: &mut Stats, tag: &str) -> Check {
    let name = p.name;
    let v = &p.verdict;
    let describe = || format!("[{tag}] {name} {:?} by {:?}; model: must_panic={} admissible={:?} optional={:?} saw={:?} key={:?}", p.ins, p.me.map(hex::encode), v.must_panic, v.admissible, v.optional, v.saw, v.key.map(hex::encode));
    let outcome: u8;
    if ended {
        let reason = match panic_reason(vm.receipts()) {
            Some(r) => r,
            None => fail!(format!("end-without-panic:{name}"), "run ended right after a storage instruction without a panic receipt; {}", describe()),
        };
        obs.class(&format!("panic:{reason:?}"));
        if reason == PanicReason::OutOfGas {
            outcome = 2;
        } else if v.must_panic {
            // a don't-care panic (e.g. a zero-length range at an address outside memory) may fire
            // before the mandatory one: the order of the checks is unspecified
            let adm: BTreeSet<String> = v.admissible.iter().chain(v.optional.iter()).map(|r| format!("{:?}", reason_of(*r))).collect();
            ensure!(adm.contains(&format!("{reason:?}")), format!("panic:wrong-reason:{name}:{reason:?}"), "panicked with {reason:?}, admissible {adm:?}; {}", describe());
            outcome = 3;
        } else {
            let opt: BTreeSet<String> = v.optional.iter().map(|r| format!("{:?}", reason_of(*r))).collect();
            ensure!(opt.contains(&format!("{reason:?}")), format!("panic:unexpected:{name}:{reason:?}"), "panicked with {reason:?} but the model completes; {}", describe());
            obs.note("dont-care:optional-panic-taken", 1);
            outcome = 4;
        }
    } else {
        if v.must_panic {
            let first = v.admissible.iter().next().map(|r| format!("{:?}", reason_of(*r))).unwrap_or_else(|| "OutOfGas".into());
            fail!(format!("panic:missing:{name}:{first}"), "instruction completed but the model demands a panic; {}", describe());
        }
        st.completed += 1;
        if !v.optional.is_empty() {
            obs.note("dont-care:optional-panic-not-taken", 1);
        }
        // registers
        let mut want = p.regs.clone();
        want[RegId::PC.to_u8() as usize] += 4;
        for (r, x) in &v.regs {
            want[*r as usize] = *x;
        }
        let got = vm.registers();
        for i in 0..want.len() {
            if GAS_REGS.contains(&i) {
                continue;
            }
            if want[i] != got[i] {
                let role = if i == kv::REG_ERR as usize {
                    "err".to_string()
                } else if v.regs.iter().any(|(r, _)| *r as usize == i) {
                    match (&p.ins, v.regs.iter().position(|(r, _)| *r as usize == i)) {
                        (StIns::Srw { .. }, Some(0)) => "value".to_string(),
                        (StIns::Spld { .. }, Some(0)) => "length".to_string(),
                        _ => "status".to_string(),
                    }
                } else {
                    "other".to_string()
                };
                fail!(format!("read:register:{name}:{role}"), "register {i:#x} = {} but the model says {}; {}", got[i], want[i], describe());
            }
        }
        // memory
        let mut mem = p.mem;
        for (a, d) in &v.mem {
            mem.poke(*a, d);
        }
        let m = vm.memory();
        let raw = m.heap_raw();
        let live = &raw[(mem.heap_off as usize).saturating_sub(MEM_SIZE - raw.len()).min(raw.len())..];
        if m.stack_raw() != &mem.stack[..] || live != &mem.heap[..] {
            let at = m.stack_raw().iter().zip(mem.stack.iter()).position(|(a, b)| a != b).map(|i| i as u64).or_else(|| live.iter().zip(mem.heap.iter()).position(|(a, b)| a != b).map(|i| i as u64 + mem.heap_off));
            fail!(format!("read:memory:{name}"), "memory after the instruction differs from the model at {at:?} (model writes {:?}); {}", v.mem.iter().map(|(a, d)| (*a, d.len())).collect::<Vec<_>>(), describe_lite(name, &p.ins, v));
        }
        // storage
        if let Some(me) = &p.me {
            kv.apply(me, &v.writes);
        }
        let got = storage_map(vm.as_ref());
        if got != kv.map {
            let diff: Vec<String> = got.keys().chain(kv.map.keys()).collect::<BTreeSet<_>>().into_iter().filter(|k| got.get(*k) != kv.map.get(*k)).take(3).map(|k| format!("{}/{}: vm={:?} model={:?}", hex::encode(&k.0[..2]), hex::encode(k.1), got.get(k).map(|b| (b.len(), hex::encode(&b[..b.len().min(40)]))), kv.map.get(k).map(|b| (b.len(), hex::encode(&b[..b.len().min(40)]))))).collect();
            fail!(format!("write:storage:{name}"), "all_contract_state differs from the model after the instruction: {diff:?}; {}", describe_lite(name, &p.ins, v));
        }
        outcome = if v.regs.iter().any(|(r, x)| *r == kv::REG_ERR && *x == 1) { 1 } else { 0 };
    }
    // classification
    st.executed += 1;
    obs.class(&format!("op:{name}"));
    if let (Some(me), Some(k)) = (p.me, v.key) {
        // every key the instruction addresses (ranges: up to 8)
        let n = match &p.ins {
            StIns::Srwq { count, .. } | StIns::Swwq { count, .. } | StIns::Scwq { count, .. } | StIns::Sclr { count, .. } => (*count).min(8),
            _ => 1,
        };
        for i in 0..n {
            if let Some(k) = kv::key_add(&k, i) {
                *st.touched.entry((me, k)).or_insert(0) |= if p.legacy { 1 } else { 2 };
            }
        }
        match &p.ins {
            StIns::Srwq { count, .. } | StIns::Swwq { count, .. } | StIns::Scwq { count, .. } | StIns::Sclr { count, .. } => {
                if *count >= 2 {
                    obs.class("range>=2");
                }
                if *count > kv::keys_until_wrap(&k) {
                    obs.class("range-crosses-2^256");
                } else if *count >= 1 && *count == kv::keys_until_wrap(&k) {
                    obs.class("range-ends-at-2^256");
                }
            }
            StIns::Swr { len, .. } => {
                if *len == kv.max_len {
                    obs.class("write-len==max");
                } else if *len == kv.max_len + 1 {
                    obs.class("write-len==max+1");
                }
            }
            StIns::Sup { offset, len, .. } => {
                if *offset == u64::MAX {
                    obs.class("update-append");
                }
                if let Some((_, l)) = v.saw {
                    let off = if *offset == u64::MAX { l as u64 } else { *offset };
                    if off.saturating_add(*len) == kv.max_len {
                        obs.class("update-to-len==max");
                    } else if off.saturating_add(*len) == kv.max_len + 1 {
                        obs.class("update-to-len==max+1");
                    }
                }
            }
            _ => {}
        }
        if let Some((present, len)) = v.saw {
            match &p.ins {
                StIns::Srw { .. } | StIns::Srwq { .. } | StIns::Srd { .. } | StIns::Spld { .. } => {
                    obs.class(if present { "read-present" } else { "read-absent" });
                    if present && p.legacy && len != 32 {
                        obs.class("legacy-read-of-non-32-byte-slot");
                    }
                    if present && !p.legacy && len == 32 {
                        obs.class("dynamic-read-of-32-byte-slot");
                    }
                }
                _ => {}
            }
        }
    }
    let opn = match &p.ins {
        StIns::Srw { .. } => 0,
        StIns::Srwq { .. } => 1,
        StIns::Sww { .. } => 2,
        StIns::Swwq { .. } => 3,
        StIns::Scwq { .. } => 4,
        StIns::Sclr { .. } => 5,
        StIns::Srd { .. } => 6,
        StIns::Swr { .. } => 7,
        StIns::Sup { .. } => 8,
        StIns::Spld { .. } => 9,
    };
    st.sig.push((opn, v.key.map(|k| k[31] ^ k[0]).unwrap_or(0xee), outcome));
    Ok(())
}

fn describe_lite(name: &str, ins: &StIns, v: &Verdict) -> String {
    format!("{name} {ins:?} saw={:?} key={:?}", v.saw, v.key.map(hex::encode))
}

/// Execute one transaction single-stepped on `vm`, checking every storage instruction against `kv`.
/// `clear` = empty the slot cache before every instruction.  Commits / reverts storage like a client.
#[allow(clippy::too_many_arguments)]
fn run_tx(vm: &mut Vm<MemoryStorage>, ready: fuel_vm::checked_transaction::Ready<fuel_tx::Script>, max_steps: u64, clear: bool, oracle: bool, kv: &mut Kv, obs: &mut Obs, st: &mut Stats, tag: &str) -> Result<TxTrace, Failure> {
    let kv_start = kv.clone();
    vm.set_single_stepping(true);
    let mut state = match vm.transact(ready) {
        Ok(s) => Ok(*s.state()),
        Err(e) => Err(format!("{e:?}")),
    };
    let mut pending: Option<Pending> = None;
    let mut was_storage = false;
    let mut hp_stack: Vec<u64> = vec![];
    let mut last_hp = VM_MAX_RAM;
    let mut steps = vec![];
    let mut mems = vec![];
    let mut index = 0u64;
    loop {
        match state {
            Ok(ProgramState::RunProgram(DebugEval::Breakpoint(_))) => {
                if let Some(p) = pending.take() {
                    after_check(vm, p, false, kv, obs, st, tag)?;
                }
                if was_storage {
                    mems.push(mem_hash(vm));
                }
                if clear {
                    vm.bench_storage_slot_cache_mut().clear();
                }
                let depth = vm.verif_call_depth();
                hp_stack.truncate(depth);
                while hp_stack.len() < depth {
                    hp_stack.push(last_hp);
                }
                let regs = vm.registers().to_vec();
                last_hp = regs[RegId::HP.to_u8() as usize];
                let pc = regs[RegId::PC.to_u8() as usize];
                let raw = vm.memory().read_bytes::<_, 4>(pc).ok().map(u32::from_be_bytes);
                was_storage = raw.map(|w| decode(w, &regs).is_some()).unwrap_or(false);
                if let Some((name, legacy, ins)) = raw.filter(|_| oracle).and_then(|w| decode(w, &regs)) {
                    let me: Option<[u8; 32]> = vm.verif_call_stack_ids().last().map(|c| **c);
                    let mem = PreMem::take(vm, hp_stack.last().copied().unwrap_or(VM_MAX_RAM));
                    let verdict = kv.exec(me.as_ref(), &ins, &mem);
                    pending = Some(Pending { name, legacy, ins, verdict, regs: regs.clone(), mem, me });
                }
                steps.push(reg_hash(&regs));
                index += 1;
                if index > max_steps {
                    return Err(Failure::new("harness-step-budget", format!("[{tag}] more than {max_steps} steps")));
                }
                state = vm.resume().map_err(|e| format!("{e:?}"));
            }
            _ => break,
        }
    }
    if let Some(p) = pending.take() {
        after_check(vm, p, true, kv, obs, st, tag)?;
    }
    // the transaction bytes in memory get the final outputs (change depends on gas when the price is not 0)
    let final_mem = mem_hash(vm);
    if let Err(e) = &state {
        fail!("vm-error", "[{tag}] interpreter error: {e}");
    }
    let receipts = vm.receipts().to_vec();
    let reverted = receipts.iter().any(|r| matches!(r, Receipt::Revert { .. } | Receipt::Panic { .. }));
    let out_of_gas = panic_reason(&receipts) == Some(PanicReason::OutOfGas);
    if reverted {
        vm.as_mut().revert();
        *kv = kv_start;
    } else {
        vm.as_mut().commit();
    }
    let got = if oracle { storage_map(vm.as_ref()) } else { kv.map.clone() };
    ensure!(got == kv.map, if reverted { "tx-end:storage-after-revert" } else { "tx-end:storage-after-commit" }, "[{tag}] storage after the transaction differs from the model ({} vs {} slots)", got.len(), kv.map.len());
    use fuel_tx::field::Outputs;
    Ok(TxTrace { state, receipts, outputs: vm.transaction().outputs().clone(), steps, mems, final_mem, out_of_gas, reverted })
}

fn strip_gas(rs: &[Receipt]) -> Vec<Receipt> {
    rs.iter()
        .map(|r| match r.clone() {
            Receipt::Call { id, to, amount, asset_id, gas: _, param1, param2, pc, is } => Receipt::Call { id, to, amount, asset_id, gas: 0, param1, param2, pc, is },
            Receipt::ScriptResult { result, gas_used: _ } => Receipt::ScriptResult { result, gas_used: 0 },
            o => o,
        })
        .collect()
}

fn check(case: &Case, obs: &mut Obs) -> Check {
    // one world per transaction: identical but for the script
    let mut specs = vec![case.world.clone()];
    for s in &case.more {
        let mut w = case.world.clone();
        w.script = s.clone();
        specs.push(w);
    }
    let mut built = vec![];
    for w in &specs {
        match w.build() {
            Ok(b) => built.push(b),
            Err(e) => {
                obs.class("world-invalid");
                obs.note(&format!("invalid:{}", e.chars().take(60).collect::<String>()), 1);
                return Ok(());
            }
        }
    }
    let b0 = &built[0];
    let mut readies = vec![];
    for b in &built {
        match b.ready() {
            Ok(r) => readies.push(r),
            Err(_) => {
                obs.class("world-not-ready");
                return Ok(());
            }
        }
    }
    let mut ip = b0.interpreter_params();
    ip.max_storage_slot_length = case.max_slot;
    let initial = storage_map(&b0.storage);
    // for the cache differential: cached reads cost what uncached reads cost
    let params_eq = equalized(&b0.params)?;
    let mut ip_eq = fuel_vm::interpreter::InterpreterParams::new(b0.gas_price, &params_eq);
    ip_eq.max_storage_slot_length = case.max_slot;
    let mut readies_eq = vec![];
    for b in &built {
        match b.checked.clone().into_ready(b.gas_price, params_eq.gas_costs(), params_eq.fee_params(), None) {
            Ok(r) => readies_eq.push(r),
            Err(_) => {
                obs.class("world-not-ready");
                return Ok(());
            }
        }
    }

    let run = |eq: bool, clear: bool, oracle: bool, obs: &mut Obs, st: &mut Stats| -> Result<Vec<TxTrace>, Failure> {
        let mut vm: Vm<MemoryStorage> = Interpreter::with_storage(MemoryInstance::new(), b0.storage.clone(), if eq { ip_eq.clone() } else { ip.clone() });
        let mut kv = Kv::new(case.max_slot);
        kv.map = initial.clone();
        let mut out = vec![];
        for (i, r) in (if eq { &readies_eq } else { &readies }).iter().enumerate() {
            let tag = format!("{}tx{}", if clear { "nocache:" } else if eq { "eq:" } else { "" }, i);
            out.push(run_tx(&mut vm, r.clone(), built[i].gas_limit + 16, clear, oracle, &mut kv, obs, st, &tag)?);
        }
        Ok(out)
    };

    let mut st = Stats::default();
    let a = run(false, false, true, obs, &mut st)?;
    // classification of the monitored run
    obs.class(&format!("txs:{}", a.len()));
    let calls: Vec<usize> = a.iter().map(|t| t.receipts.iter().filter(|r| matches!(r, Receipt::Call { .. })).count()).collect();
    if calls.iter().any(|c| *c >= 2) {
        obs.class("tx-with-2+calls");
    }
    for t in &a {
        let ids: Vec<_> = t.receipts.iter().filter_map(|r| if let Receipt::Call { to, .. } = r { Some(*to) } else { None }).collect();
        if ids.iter().enumerate().any(|(i, x)| ids[..i].contains(x)) {
            obs.class("same-contract-called-twice-in-tx");
        }
        if ids.iter().collect::<BTreeSet<_>>().len() >= 2 {
            obs.class("two-contracts-in-tx");
        }
    }
    if a.iter().any(|t| t.reverted) {
        obs.class("some-tx-reverted");
    }
    if a.iter().any(|t| t.out_of_gas) {
        obs.class("some-tx-out-of-gas");
    }
    if a.len() >= 2 && a[..a.len() - 1].iter().any(|t| t.reverted) {
        obs.class("tx-after-a-reverted-tx");
    }
    if a.len() >= 2 && a[..a.len() - 1].iter().any(|t| !t.reverted) {
        obs.class("tx-after-a-committed-tx");
    }
    obs.note("storage-instructions", st.executed);
    obs.note("storage-instructions-completed", st.completed);
    let mixed = st.touched.values().any(|m| *m == 3);
    if st.executed >= 3 {
        obs.class("3+storage-instructions");
    }
    if mixed {
        obs.class("mix-legacy-dynamic-same-key");
        obs.nontrivial(&st.sig);
    }

    // (2) with cached reads priced like uncached ones: the same sequence with the slot cache in use and with
    // the cache emptied before every instruction (this one checked against the model again) must agree in
    // everything, gas included
    let mut st2 = Stats::default();
    let mut quiet = Obs::default();
    quiet.frozen = true;
    let with_cache = run(true, false, false, &mut quiet, &mut st2)?;
    let without = run(true, true, true, &mut quiet, &mut st2)?;
    for (i, (x, y)) in with_cache.iter().zip(without.iter()).enumerate() {
        ensure_eq!(x.state, y.state, "cache:state-differs", "tx{i}: final state with and without the slot cache");
        if strip_gas(&x.receipts) != strip_gas(&y.receipts) {
            ensure_eq!(x.receipts, y.receipts, "cache:receipts-differ", "tx{i}: receipts");
        }
        ensure_eq!(x.receipts, y.receipts, "cache:gas-differs-with-equal-prices", "tx{i}: receipts differ in gas fields although cached and uncached reads cost the same");
        ensure_eq!(x.steps.len(), y.steps.len(), "cache:step-count-differs", "tx{i}: number of executed instructions");
        if let Some(k) = (0..x.steps.len()).find(|k| x.steps[*k] != y.steps[*k]) {
            fail!("cache:registers-differ", "tx{i}: registers differ before step {k}");
        }
        ensure_eq!(x.mems, y.mems, "cache:memory-differs", "tx{i}: live memory after storage instructions");
        ensure_eq!(x.final_mem, y.final_mem, "cache:final-memory-differs", "tx{i}: live memory at the end of the transaction");
        ensure_eq!(x.outputs, y.outputs, "cache:outputs-differ", "tx{i}: transaction outputs");
        obs.class("cache-diff:compared-tx");
    }
    Ok(())
}

// ------------------------------------------------------------------ strategies

/// key-table entry `e` (0..8) as a `Tpl::Storage.key` selector
fn key_sel(e: u8) -> u8 {
    e + 4
}

fn keys_table() -> impl Strategy<Value = Vec<B32>> {
    prop_oneof![3 => any::<[u8; 32]>(), 2 => Just({ let mut a = [0u8; 32]; a[31] = 1; a }), 1 => Just({ let mut a = [0xffu8; 32]; a[31] = 0xf9; a })].prop_map(|base| {
        let mut ks = vec![];
        for i in 0..4 {
            ks.push(B32(kv::key_add(&base, i).unwrap_or([0; 32])));
        }
        for last in [0xfdu8, 0xfe, 0xff] {
            let mut a = [0xffu8; 32];
            a[31] = last;
            ks.push(B32(a));
        }
        ks.push(B32([0u8; 32]));
        ks
    })
}

fn key_entry() -> impl Strategy<Value = u8> {
    prop_oneof![10 => 0u8..4, 6 => 4u8..7, 2 => Just(7u8)]
}

fn src_ptr() -> impl Strategy<Value = Ptr> {
    prop_oneof![
        4 => (0i16..96).prop_map(|off| Ptr { base: Base::Raw, off }),
        3 => (0i16..200).prop_map(|off| Ptr { base: Base::Data, off }),
        3 => prog::good_ptr(),
        2 => (0i16..300).prop_map(|off| Ptr { base: Base::HeapB, off }),
        1 => prog::ptr(),
    ]
}

fn dst_ptr() -> impl Strategy<Value = Ptr> {
    prop_oneof![
        8 => prog::good_ptr(),
        2 => (prop_oneof![Just(Base::HeapA), Just(Base::HeapB), Just(Base::Stack)], prop_oneof![200i16..260, 480i16..520]).prop_map(|(base, off)| Ptr { base, off }),
        1 => prog::ptr(),
    ]
}

fn count_val() -> impl Strategy<Value = Val> {
    prop_oneof![
        2 => Just(Val::Imm(0)),
        8 => Just(Val::Imm(1)),
        6 => Just(Val::Imm(2)),
        4 => Just(Val::Imm(3)),
        3 => Just(Val::Imm(4)),
        2 => (5u32..10).prop_map(Val::Imm),
        1 => Just(Val::Imm(40)),
        1 => Just(Val::Max),
        1 => Just(Val::Word(0)),
        1 => Just(Val::Word(1)),
    ]
}

fn is_huge(v: &Val) -> bool {
    matches!(v, Val::Max | Val::Word(_)) || matches!(v, Val::Imm(i) if *i > 64)
}

fn len_val(max_slot: u64) -> BoxedStrategy<Val> {
    let around: Vec<u32> = if max_slot <= 600 { vec![max_slot.saturating_sub(1) as u32, max_slot as u32, max_slot as u32 + 1] } else { vec![32] };
    prop_oneof![
        8 => prop::sample::select(vec![0u32, 1, 7, 8, 9, 16, 24, 31, 32, 33, 40, 64]).prop_map(Val::Imm),
        3 => (0u32..70).prop_map(Val::Imm),
        5 => prop::sample::select(around).prop_map(Val::Imm),
        1 => Just(Val::Word(3)),
        1 => Just(Val::Max),
    ]
    .boxed()
}

fn off_val(append: u32) -> BoxedStrategy<Val> {
    prop_oneof![
        8 => Just(Val::Imm(0)),
        append => Just(Val::Max),
        6 => prop::sample::select(vec![1u32, 7, 8, 16, 24, 31, 32, 33, 40, 64]).prop_map(Val::Imm),
        2 => (0u32..70).prop_map(Val::Imm),
        1 => Just(Val::Word(1)),
        1 => Just(Val::Word(2)),
    ]
    .boxed()
}

/// gas registers must not flow into data: the cached / uncached comparison is "equal except gas"
fn no_gas(p: Ptr) -> Ptr {
    match p.base {
        Base::Reg(r) if matches!(r & 0x3f, 0x09 | 0x0a) => Ptr { base: Base::Reg(0x20), off: p.off },
        _ => p,
    }
}

/// one storage instruction; 80% *tame* (operands that succeed on ordinary slots, so that sequences
/// get long), 20% *wild* (boundary operands by role)
fn st_tpl(max_slot: u64) -> BoxedStrategy<Tpl> {
    prop_oneof![4 => st_tpl_tame(max_slot), 1 => st_tpl_wild(max_slot)].boxed()
}

fn st_tpl_tame(max_slot: u64) -> BoxedStrategy<Tpl> {
    let sop = prop::sample::select(vec![StOp::Srw, StOp::Srwq, StOp::Sww, StOp::Swwq, StOp::Scwq, StOp::Sclr, StOp::Srdd, StOp::Srdi, StOp::Swrd, StOp::Swri, StOp::Supd, StOp::Supi, StOp::Spld]);
    let key = prop_oneof![12 => 0u8..4, 3 => 4u8..7, 1 => Just(7u8)];
    let src = prop_oneof![3 => (0i16..96).prop_map(|off| Ptr { base: Base::Raw, off }), 2 => (0i16..200).prop_map(|off| Ptr { base: Base::Data, off }), 3 => prog::good_ptr()];
    let count = prop_oneof![1 => Just(0u32), 6 => Just(1u32), 4 => Just(2u32), 2 => Just(3u32), 1 => Just(4u32)];
    // (offset, length) inside a 32-byte value
    let window = prop_oneof![4 => Just((0u32, 32u32)), 3 => Just((0, 8)), 2 => Just((8, 8)), 2 => Just((24, 8)), 1 => Just((0, 0)), 1 => Just((31, 1)), 1 => Just((16, 16)), 1 => Just((32, 0)), 1 => Just((0, 1))];
    let wlen = prop::sample::select(vec![32u32, 32, 32, 0, 1, 8, 24, 33, 40, 64]);
    let upd = (prop_oneof![4 => Just(Val::Imm(0)), 4 => Just(Val::Max), 1 => Just(Val::Imm(8)), 1 => Just(Val::Imm(32))], prop::sample::select(vec![1u32, 8, 16, 32]));
    (sop, key, src, prog::good_ptr(), count, window, wlen, upd, (0u16..4, prop_oneof![3 => (0u32..0x40000).prop_map(Val::Imm), 1 => (0u8..8).prop_map(Val::Word)]))
        .prop_map(move |(op, e, src, dst, count, (woff, wl), wlen, (uoff, ulen), (wordidx, value))| {
            let clip = |n: u32| if (n as u64) > max_slot { max_slot as u32 } else { n };
            let (p, a, b, imm) = match op {
                StOp::Srw => (dst, Val::Imm(0), Val::Imm(0), wordidx),
                StOp::Srwq => (dst, Val::Imm(count), Val::Imm(0), 0),
                StOp::Sww => (dst, value, Val::Imm(0), 0),
                StOp::Swwq => (src, Val::Imm(count), Val::Imm(0), 0),
                StOp::Scwq | StOp::Sclr => (dst, Val::Imm(count), Val::Imm(0), 0),
                StOp::Srdd => (dst, Val::Imm(woff), Val::Imm(wl), 0),
                StOp::Srdi => (dst, Val::Imm(woff), Val::Imm(0), wl as u16),
                StOp::Swrd => (src, Val::Imm(clip(wlen)), Val::Imm(0), 0),
                StOp::Swri => (src, Val::Imm(0), Val::Imm(0), clip(wlen) as u16),
                StOp::Supd => (src, uoff, Val::Imm(clip(ulen)), 0),
                StOp::Supi => (src, uoff, Val::Imm(0), clip(ulen) as u16),
                StOp::Spld => (dst, Val::Imm(0), Val::Imm(0), 0),
            };
            Tpl::Storage { op, key: key_sel(e), key_ptr: None, p, a, b, imm }
        })
        .boxed()
}

fn st_tpl_wild(max_slot: u64) -> BoxedStrategy<Tpl> {
    let sop = prop::sample::select(vec![StOp::Srw, StOp::Srwq, StOp::Sww, StOp::Swwq, StOp::Scwq, StOp::Sclr, StOp::Srdd, StOp::Srdi, StOp::Swrd, StOp::Swri, StOp::Supd, StOp::Supi, StOp::Spld]);
    (sop, key_entry(), prop::option::weighted(0.15, prop_oneof![2 => prog::good_ptr(), 1 => prog::ptr()]), src_ptr(), dst_ptr(), count_val(), len_val(max_slot), (off_val(1), off_val(7)), (0u16..64, prop_oneof![4 => 0u16..8, 1 => 8u16..64], prop::sample::select(vec![0u16, 1, 31, 32, 33, 64, 255, 256, 300, 4095]), word_choice()))
        .prop_map(move |(op, e, key_ptr, src, dst, count, len, (roff, uoff), (imm6, wordidx, imm12, value))| {
            let mut key = key_sel(e);
            let mut key_ptr = key_ptr.map(no_gas);
            let (src, dst) = (no_gas(src), no_gas(dst));
            let mut count = count;
            // a huge range is only affordable where it runs into 2^256: one charged read per slot
            // (SCWQ) or an uncharged removal loop under a flat gas schedule (SCLR) otherwise
            if matches!(op, StOp::Scwq | StOp::Sclr | StOp::Srwq | StOp::Swwq) && is_huge(&count) {
                if key_ptr.is_some() {
                    key_ptr = None;
                }
                if !(4..7).contains(&e) {
                    key = key_sel(4 + e % 3);
                }
            }
            if matches!(op, StOp::Scwq | StOp::Sclr) && key_ptr.is_some() {
                count = Val::Imm(2);
            }
            let around_imm12 = if max_slot <= 600 { [max_slot.saturating_sub(1) as u16, max_slot as u16, max_slot as u16 + 1][(imm6 % 3) as usize] } else { imm12 };
            let (p, a, b, imm) = match op {
                StOp::Srw => (dst, Val::Imm(0), Val::Imm(0), wordidx),
                StOp::Srwq => (dst, count, Val::Imm(0), 0),
                StOp::Sww => (dst, value, Val::Imm(0), 0),
                StOp::Swwq => (src, count, Val::Imm(0), 0),
                StOp::Scwq | StOp::Sclr => (dst, count, Val::Imm(0), 0),
                StOp::Srdd => (dst, roff, len, 0),
                StOp::Srdi => (dst, roff, Val::Imm(0), imm6),
                StOp::Swrd => (src, len, Val::Imm(0), 0),
                StOp::Swri => (src, Val::Imm(0), Val::Imm(0), if imm6 < 32 { around_imm12 } else { imm6 }),
                StOp::Supd => (src, uoff, len, 0),
                StOp::Supi => (src, uoff, Val::Imm(0), imm6),
                StOp::Spld => (dst, Val::Imm(0), Val::Imm(0), 0),
            };
            Tpl::Storage { op, key, key_ptr, p, a, b, imm }
        })
        .boxed()
}

fn word_choice() -> impl Strategy<Value = Val> {
    prop_oneof![3 => (0u32..0x40000).prop_map(Val::Imm), 2 => (0u8..8).prop_map(Val::Word), 1 => Just(Val::Max), 1 => Just(Val::Imm(0))]
}

/// memory preparation so that value sources are not all zero
fn setup_tpl() -> impl Strategy<Value = Tpl> {
    prop_oneof![
        (0i16..64, 0i16..64, 1u32..128).prop_map(|(d, s, n)| Tpl::Mem { op: MemOp::Mcp, d: 0x20, p: Ptr { base: Base::HeapA, off: d }, q: Ptr { base: Base::Raw, off: s }, len: Val::Imm(n.min(120)), imm: 0 }),
        (0i16..64, 0i16..200, 1u32..200).prop_map(|(d, s, n)| Tpl::Mem { op: MemOp::Mcp, d: 0x20, p: Ptr { base: Base::HeapB, off: d }, q: Ptr { base: Base::Data, off: s }, len: Val::Imm(n), imm: 0 }),
        (0i16..64, 0i16..64, 1u32..128).prop_map(|(d, s, n)| Tpl::Mem { op: MemOp::Mcp, d: 0x20, p: Ptr { base: Base::Stack, off: d }, q: Ptr { base: Base::Raw, off: s }, len: Val::Imm(n.min(120)), imm: 0 }),
    ]
}

/// the rare 1 MiB sequence: allocate, write a slot whose length is max-1 / max / max+1, append one byte
fn big_seq() -> impl Strategy<Value = Vec<Tpl>> {
    (key_entry(), 4u8..7, prop::bool::ANY).prop_map(|(e, w, append)| {
        let mut v = vec![Tpl::Aloc { len: Val::Word(7) }, Tpl::Storage { op: StOp::Swrd, key: key_sel(e), key_ptr: None, p: Ptr { base: Base::Hp, off: 0 }, a: Val::Word(w), b: Val::Imm(0), imm: 0 }];
        if append {
            v.push(Tpl::Storage { op: StOp::Supi, key: key_sel(e), key_ptr: None, p: Ptr { base: Base::Raw, off: 0 }, a: Val::Max, b: Val::Imm(0), imm: 1 });
            v.push(Tpl::Storage { op: StOp::Spld, key: key_sel(e), key_ptr: None, p: Ptr { base: Base::HeapA, off: 0 }, a: Val::Imm(0), b: Val::Imm(0), imm: 0 });
        }
        v
    })
}

fn contract_body(max_slot: u64, can_call: bool) -> impl Strategy<Value = Vec<Tpl>> {
    let mut items: Vec<(u32, BoxedStrategy<Vec<Tpl>>)> = vec![(30, st_tpl(max_slot).prop_map(|t| vec![t]).boxed()), (2, setup_tpl().prop_map(|t| vec![t]).boxed())];
    if can_call {
        items.push((2, (0u8..3).prop_map(|call| vec![Tpl::Call { call, coins: Val::Imm(0), asset: 0, gas: Val::Reg(RegId::CGAS.to_u8()) }]).boxed()));
    }
    let item = proptest::strategy::Union::new_weighted(items);
    let big = if max_slot == BIG { prop::option::weighted(0.06, (big_seq(), any::<u16>())).boxed() } else { Just(None).boxed() };
    (prop::collection::vec(setup_tpl(), 0..3), prop::collection::vec(item, 1..14), big, prop_oneof![12 => Just(Tpl::Ret { v: Val::Imm(1) }), 1 => Just(Tpl::Rvrt { v: Val::Imm(7) }), 2 => Just(Tpl::Retd { p: Ptr { base: Base::HeapA, off: 0 }, len: Val::Imm(32) })]).prop_map(|(mut pre, mut items, big, end)| {
        // the 1 MiB sequence at most once per body (it allocates)
        if let Some((seq, sel)) = big {
            let at = crate::gens::pick(sel, items.len() + 1);
            items.insert(at, seq);
        }
        pre.extend(items.into_iter().flatten());
        pre.push(end);
        pre
    })
}

fn script_body(max_slot: u64) -> impl Strategy<Value = Vec<Tpl>> {
    let call = (0u8..3, prop_oneof![3 => Just(Val::Reg(RegId::CGAS.to_u8())), 2 => Just(Val::Max)]).prop_map(|(call, gas)| Tpl::Call { call, coins: Val::Imm(0), asset: 0, gas });
    (prop::collection::vec(call, 1..4), prop::option::weighted(0.08, (st_tpl(max_slot), any::<u16>()))).prop_map(|(mut v, extra)| {
        if let Some((t, sel)) = extra {
            let at = crate::gens::pick(sel, v.len() + 1);
            v.insert(at, t);
        }
        v.push(Tpl::Ret { v: Val::Imm(0) });
        v
    })
}

fn slot_value() -> impl Strategy<Value = HexBytes> {
    prop_oneof![
        5 => prop::collection::vec(any::<u8>(), 32..=32),
        1 => Just(vec![]),
        3 => prop::sample::select(vec![1usize, 7, 8, 9, 16, 24, 31, 33, 40, 64, 100]).prop_flat_map(|n| prop::collection::vec(any::<u8>(), n..=n)),
    ]
    .prop_map(HexBytes)
}

pub fn case() -> impl Strategy<Value = Case> {
    let max_slot = prop_oneof![5 => prop::sample::select(vec![64u64, 32, 33, 40, 100, 300]), 10 => Just(BIG), 1 => prop::sample::select(vec![0u64, 8, 31])];
    (world::world(prog::W_SCRIPT, 2, 3), max_slot).prop_flat_map(|(base, max_slot)| {
        let contract = move |can_call: bool| (contract_body(max_slot, can_call), prop::collection::vec((prop_oneof![3 => 0u8..4, 1 => 4u8..8], slot_value()), 2..9)).prop_map(|(body, slots)| world::ContractSpec { body, balances: vec![(0, 100)], slots, listed: true });
        (
            Just(base),
            Just(max_slot),
            prop_oneof![3 => (contract(false),).prop_map(|(a,)| vec![a]), 5 => (contract(true), contract(false)).prop_map(|(a, b)| vec![a, b]), 3 => (contract(true), contract(true), contract(false)).prop_map(|(a, b, c)| vec![a, b, c])],
            prop::collection::vec(script_body(max_slot), 1..4),
            keys_table(),
            prop_oneof![1 => 300u64..3000, 12 => 20_000u64..60_000],
            prop_oneof![3 => Just(0u64), 1 => 1u64..4],
            prop_oneof![6 => Just(Sched::Default), 1 => Just(Sched::Unit), 2 => any::<u64>().prop_map(Sched::Random)],
        )
            .prop_map(|(mut w, max_slot, contracts, mut scripts, keys, gas_limit, gas_price, sched)| {
                w.contracts = contracts;
                w.keys = keys;
                w.words = WORDS;
                w.calls = vec![(0, 1, 2), (1, 3, 4), (2, 5, 6)];
                w.dag = true;
                w.gas_limit = gas_limit;
                w.gas_price = gas_price;
                w.sched = sched;
                w.script = scripts.remove(0);
                Case { world: w, more: scripts, max_slot }
            })
    })
}

pub fn property() -> Property {
    Property {
        id: "C33",
        rule: "Worlds with 1–3 listed contracts whose bodies are sequences (1–13 items) of the 13 storage instructions over a colliding key table (four adjoining keys at a random base / at 1 / at 2^256−7, the keys 2^256−3..2^256−1, key 0). 80% of the instructions are tame (counts 0..4, windows inside a 32-byte value, lengths {0,1,8,24,32,33,40,64} clipped to the maximum, update offsets 0 / u64::MAX = append / 8 / 32) so that sequences get long; 20% are wild: counts 0..9/40/2^33/u64::MAX−1/u64::MAX (huge ranges aimed at the 2^256 boundary), lengths {0,1,7,8,9,..,64} ∪ max−1/max/max+1 ∪ 100000 ∪ u64::MAX, offsets incl. 2^32 and u64::MAX−1, SRW word index 0..63, SWRI up to 4095, sources in script data / heap / stack / anywhere, destinations owned, straddling the end of a buffer, or anywhere, 15% arbitrary key pointers. max_storage_slot_length ∈ {64,32,33,40,100,300} | 1 MiB (with a rare allocate-and-write max−1/max/max+1 sequence) | {0,8,31}; 2–8 pre-populated slots of length 0..100 (mostly 32); scripts calling 1–3 contracts (same and different, nested calls i→j>i), 8% with a storage instruction in script context; 1–3 transactions in sequence on the same storage and VM with client-style commit/revert. Every executed storage instruction is checked against model::kv (registers incl. status and $err, memory incl. zero fill, all_contract_state after the instruction, panic/no panic with admissible reasons); the sequence is re-run twice under the same schedule with storage_read_hot := storage_read_cold, once with the slot cache in use and once with the cache emptied before every instruction (the latter checked against the model again); the two must agree exactly (state, receipts, all registers before every step, live memory after every storage instruction and at the end, outputs). Non-trivial = some (contract,key) is addressed by both a legacy 32-byte instruction and a dynamic one; distinct by the sequence of (instruction, key tag, outcome).".into(),
        assumptions: vec![
            "C32: single-stepping does not change results (one instruction runs between two debugger events)".into(),
            "C23/C24: which memory ranges are readable / owned is taken from the pre-state ($ssp,$sp,$hp, stack extent, caller's $hp); ownership of empty ranges and validation of the destination when the slot is absent are don't-cares (counted in notes)".into(),
            "OutOfGas is admissible at every storage instruction (gas is C26's subject)".into(),
            "the cache differential runs under the world's gas schedule with storage_read_hot set to storage_read_cold, so that 'only the gas charged' becomes 'nothing at all'; that a cached read is charged storage_read_hot instead of storage_read_cold is the only gas effect of the cache".into(),
            "Interpreter::bench_storage_slot_cache_mut is the slot cache used by the storage instructions".into(),
        ],
        parts: vec![gen_part("kv-model", "storage worlds × 1–3 transactions, monitored per instruction, with and without slot cache", (8_000, 250_000), |_c: &Ctx| case(), check)],
        floors: vec![("kv-model", "mix-legacy-dynamic-same-key", 0.25), ("kv-model", "3+storage-instructions", 0.60), ("kv-model", "cache-diff:compared-tx", 0.60)],
    }
}
