//! C07 — DA compression round-trip preserves transaction identity.
//!
//! Sequences of G-TX transactions are compressed against one harness-side compression context
//! (`HCtx`: one registry per keyspace with wrap-around key allocation, key reuse, optional
//! default-key mode and optional eviction *between* transactions; coin / message side tables
//! and the Mint tx pointer filled from the specs) and decompressed immediately afterwards.
//! Oracles: transaction id, equality with the harness's own skip table, idempotent registration,
//! key-allocation model, and (without eviction) a final re-run of the whole sequence.
use crate::engine::*;
use crate::gens::pick;
use crate::gens::tx::*;
use crate::{ensure, ensure_eq};
use fuel_compression::{Compressible, CompressibleBy, ContextError, Decompress, DecompressibleBy, RegistryKey};
use fuel_tx::input::coin::{Coin, CoinSpecification};
use fuel_tx::input::message::{Message, MessageSpecification};
use fuel_tx::input::{AsField, PredicateCode};
use fuel_tx::{Cacheable, CompressedTransaction, CompressedUtxoId, Mint, ScriptCode, Transaction, TxPointer, UniqueIdentifier, UtxoId};
use fuel_types::bytes::Bytes;
use fuel_types::canonical::Serialize as _;
use fuel_types::{Address, AssetId, Bytes32, ChainId, ContractId};
use futures::executor::block_on;
use proptest::prelude::*;
use serde::{Deserialize, Serialize};
use std::collections::{BTreeMap, BTreeSet};

// ------------------------------------------------------------------------------------ case

#[derive(Debug, Clone, Serialize, Deserialize)]
pub struct Case {
    pub chain: u64,
    /// per keyspace (Address, AssetId, ContractId, ScriptCode, PredicateCode): the first key
    /// handed out is `MAX_WRITABLE - r`
    pub start_r: [u8; 5],
    /// the registry maps the type's default value to `RegistryKey::DEFAULT_VALUE` (never written)
    pub default_key: bool,
    /// 0 = never evict; n > 0 = after each transaction evict entries not used by the last n
    pub retain: u8,
    /// call `precompute` (cached id / offsets) on the transaction before compressing it
    pub precompute: bool,
    pub txs: Vec<AnyTx>,
}

const POOL: usize = 4;

fn pool_b32(j: usize, salt: u8) -> B32 {
    let mut a = [salt; 32];
    a[0] = j as u8;
    a[31] = (j as u8).wrapping_mul(2); // low bit free for the message has-data tag
    B32(a)
}

fn pool_code(j: usize, allow_empty: bool) -> Vec<u8> {
    match (j, allow_empty) {
        (0, true) => vec![],
        (0, false) => vec![0x24],
        (1, _) => vec![0x24, 0, 0, 0],
        (2, _) => vec![0x47, 0, 0, 0, 0x24, 0, 0, 0],
        _ => vec![0x5a; 9],
    }
}

/// Replace some poolable items (script code, predicate code, coin utxo ids, message nonces) by
/// elements of small pools so that the same value recurs across the sequence.
fn repool(tx: AnyTx, mix: &[u16]) -> AnyTx {
    let AnyTx::Charge(mut t) = tx else { return tx };
    let mut n = 0usize;
    let next = |n: &mut usize| -> Option<usize> {
        let s = if mix.is_empty() { u16::MAX } else { mix[*n % mix.len()] };
        *n += 1;
        if s < 0x8000 { Some(pick(s << 1, POOL)) } else { None }
    };
    if let BodySpec::Script { script, .. } = &mut t.body {
        if let Some(j) = next(&mut n) {
            *script = HexBytes(pool_code(j, true));
        }
    }
    for i in t.inputs.iter_mut() {
        match i {
            InSpec::CoinSigned { utxo, .. } => {
                if let Some(j) = next(&mut n) {
                    *utxo = UtxoSpec(pool_b32(j, 0xc0), (j % 2) as u16);
                }
            }
            InSpec::CoinPredicate { utxo, predicate, .. } => {
                if let Some(j) = next(&mut n) {
                    *utxo = UtxoSpec(pool_b32(j, 0xc0), (j % 2) as u16);
                }
                if let Some(j) = next(&mut n) {
                    *predicate = HexBytes(pool_code(j, false));
                }
            }
            InSpec::Contract { .. } => {}
            InSpec::MsgCoinSigned { nonce, .. } | InSpec::MsgDataSigned { nonce, .. } => {
                if let Some(j) = next(&mut n) {
                    *nonce = pool_b32(j, 0x90);
                }
            }
            InSpec::MsgCoinPredicate { nonce, predicate, .. } | InSpec::MsgDataPredicate { nonce, predicate, .. } => {
                if let Some(j) = next(&mut n) {
                    *nonce = pool_b32(j, 0x90);
                }
                if let Some(j) = next(&mut n) {
                    *predicate = HexBytes(pool_code(j, false));
                }
            }
        }
    }
    AnyTx::Charge(t)
}

type CoinRef = (B32, u64, B32);
type MsgRef = (B32, B32, u64, Vec<u8>);

/// Sound-domain normalisation ("a context holding the same referenced data"): a UTXO id names
/// one coin and a nonce names one message, over the whole sequence.  First occurrence wins; a
/// later input naming the same coin / message gets the referenced fields of the first.  The low
/// bit of the last nonce byte is set to "message carries data", so that a data-less and a
/// data-carrying message never share a nonce.  Idempotent.
fn canonicalise(txs: &mut [AnyTx]) {
    let mut coins: BTreeMap<(B32, u16), CoinRef> = BTreeMap::new();
    let mut msgs: BTreeMap<B32, MsgRef> = BTreeMap::new();
    fn tag(nonce: &mut B32, has_data: bool) {
        nonce.0[31] = (nonce.0[31] & 0xfe) | has_data as u8;
    }
    for tx in txs.iter_mut() {
        let AnyTx::Charge(t) = tx else { continue };
        for i in t.inputs.iter_mut() {
            match i {
                InSpec::CoinSigned { utxo, owner, amount, asset, .. } | InSpec::CoinPredicate { utxo, owner, amount, asset, .. } => {
                    let e = coins.entry((utxo.0, utxo.1)).or_insert((*owner, *amount, *asset));
                    (*owner, *amount, *asset) = *e;
                }
                InSpec::Contract { .. } => {}
                InSpec::MsgCoinSigned { sender, recipient, amount, nonce, .. } | InSpec::MsgCoinPredicate { sender, recipient, amount, nonce, .. } => {
                    tag(nonce, false);
                    let e = msgs.entry(*nonce).or_insert((*sender, *recipient, *amount, vec![]));
                    (*sender, *recipient, *amount) = (e.0, e.1, e.2);
                }
                InSpec::MsgDataSigned { sender, recipient, amount, nonce, data, .. } | InSpec::MsgDataPredicate { sender, recipient, amount, nonce, data, .. } => {
                    tag(nonce, true);
                    let e = msgs.entry(*nonce).or_insert((*sender, *recipient, *amount, data.0.clone()));
                    (*sender, *recipient, *amount) = (e.0, e.1, e.2);
                    data.0 = e.3.clone();
                }
            }
        }
    }
}

fn case_strategy(max_txs: usize) -> impl Strategy<Value = Case> {
    (
        prop_oneof![Just(0u64), any::<u64>()],
        prop::array::uniform5(0u8..=5),
        any::<bool>(),
        prop_oneof![3 => Just(0u8), 1 => 1u8..=3],
        any::<bool>(),
        prop::collection::vec((any_tx(), prop::collection::vec(any::<u16>(), 1..=12)), 1..=max_txs),
    )
        .prop_map(|(chain, start_r, default_key, retain, precompute, steps)| {
            let mut txs: Vec<AnyTx> = steps.into_iter().map(|(t, mix)| repool(t, &mix)).collect();
            canonicalise(&mut txs);
            Case { chain, start_r, default_key, retain, precompute, txs }
        })
}

// ------------------------------------------------------------------------------------ skip table

/// The harness's own statement of which fields DA compression deliberately drops and does not
/// restore from the context (they come back as their defaults).  Everything else — including
/// `predicate_gas_used`, coin owner/amount/asset (restored from the coin table), message
/// sender/recipient/amount/data (restored from the message table) and Mint's `tx_pointer`
/// (restored from the context) — must survive unchanged.
fn skip_in(i: &InSpec) -> InSpec {
    let mut i = i.clone();
    match &mut i {
        InSpec::CoinSigned { txp, .. } | InSpec::CoinPredicate { txp, .. } => *txp = TxpSpec(0, 0),
        InSpec::Contract { utxo, balance_root, state_root, txp, .. } => {
            *utxo = UtxoSpec(B32::default(), 0);
            *balance_root = B32::default();
            *state_root = B32::default();
            *txp = TxpSpec(0, 0);
        }
        InSpec::MsgCoinSigned { .. } | InSpec::MsgCoinPredicate { .. } | InSpec::MsgDataSigned { .. } | InSpec::MsgDataPredicate { .. } => {}
    }
    i
}

fn skip_out(o: &OutSpec) -> OutSpec {
    let mut o = o.clone();
    match &mut o {
        OutSpec::Coin { .. } | OutSpec::ContractCreated { .. } => {}
        OutSpec::Contract { balance_root, state_root, .. } => {
            *balance_root = B32::default();
            *state_root = B32::default();
        }
        OutSpec::Change { amount, .. } => *amount = 0,
        OutSpec::Variable { to, amount, asset } => {
            *to = B32::default();
            *amount = 0;
            *asset = B32::default();
        }
    }
    o
}

fn skip_tx(t: &AnyTx) -> AnyTx {
    match t {
        AnyTx::Charge(t) => {
            let mut t = t.clone();
            if let BodySpec::Script { receipts_root, .. } = &mut t.body {
                *receipts_root = B32::default();
            }
            t.inputs = t.inputs.iter().map(skip_in).collect();
            t.outputs = t.outputs.iter().map(skip_out).collect();
            AnyTx::Charge(t)
        }
        AnyTx::Mint(m) => {
            let mut m = m.clone();
            m.in_utxo = UtxoSpec(B32::default(), 0);
            m.in_balance_root = B32::default();
            m.in_state_root = B32::default();
            m.in_txp = TxpSpec(0, 0);
            m.out_balance_root = B32::default();
            m.out_state_root = B32::default();
            AnyTx::Mint(m)
        }
    }
}

// ------------------------------------------------------------------------------------ context

#[derive(Debug, Clone)]
pub struct CtxErr {
    key: String,
    msg: String,
}

impl CtxErr {
    fn new(key: impl Into<String>, msg: impl Into<String>) -> Self {
        CtxErr { key: key.into(), msg: msg.into() }
    }
}

const KS_NAMES: [&str; 5] = ["Address", "AssetId", "ContractId", "ScriptCode", "PredicateCode"];
const KS_ADDRESS: usize = 0;
const KS_ASSET: usize = 1;
const KS_CONTRACT: usize = 2;
const KS_SCRIPT: usize = 3;
const KS_PREDICATE: usize = 4;

/// 2^24 - 1: number of writable keys (0 ..= MAX_WRITABLE); the all-ones key is reserved.
const KEY_MODULUS: u32 = 0x00ff_ffff;

#[derive(Debug, Clone)]
struct Table {
    /// next key to hand out, advanced by the library's `RegistryKey::next`
    next: RegistryKey,
    /// the same, by the harness's arithmetic: (k + 1) mod (2^24 - 1)
    model_next: u32,
    by_key: BTreeMap<u32, Vec<u8>>,
    by_val: BTreeMap<Vec<u8>, u32>,
    /// key -> (tx index of allocation, tx index of last use, allocated before the wrap)
    meta: BTreeMap<u32, (usize, usize, bool)>,
    evicted_vals: BTreeSet<Vec<u8>>,
    wrapped: bool,
}

#[derive(Debug, Clone, Default)]
struct Stats {
    allocs: u64,
    reuse_within: u64,
    reuse_cross: u64,
    reuse_across_wrap: u64,
    default_hits: u64,
    rereg_after_evict: u64,
    evictions: u64,
    utxo_reuse: u64,
    /// cross-transaction reuse hits per keyspace
    reuse_ks: [u64; 5],
}

#[derive(Debug, Clone, PartialEq, Eq)]
struct View {
    tables: Vec<(u32, BTreeMap<u32, Vec<u8>>)>,
    utxos: BTreeMap<(u32, u16, u16), ([u8; 32], u16)>,
}

#[derive(Debug, Clone)]
pub struct HCtx {
    tables: Vec<Table>,
    default_key: bool,
    cur: usize,
    utxo_fwd: BTreeMap<([u8; 32], u16), (u32, u16, u16)>,
    utxo_rev: BTreeMap<(u32, u16, u16), ([u8; 32], u16)>,
    coins: BTreeMap<([u8; 32], u16), CoinRef>,
    msgs: BTreeMap<[u8; 32], MsgRef>,
    mint_ptr: Option<(u32, u16)>,
    /// taken on the first compression of a transaction only (`run` restores them after the
    /// idempotence re-run and the final history pass)
    stats: Stats,
    /// first model violation observed while the library was driving the context
    fault: Option<CtxErr>,
}

impl ContextError for HCtx {
    type Error = CtxErr;
}

fn ks_default(ks: usize) -> Vec<u8> {
    if ks <= KS_CONTRACT { vec![0u8; 32] } else { vec![] }
}

impl HCtx {
    fn new(start_r: [u8; 5], default_key: bool) -> Result<HCtx, CtxErr> {
        let mut tables = vec![];
        for r in start_r {
            let start = (KEY_MODULUS - 1).checked_sub(r as u32).expect("r small");
            let next = RegistryKey::try_from(start).map_err(|e| CtxErr::new("registry:start-key-rejected", e))?;
            tables.push(Table {
                next,
                model_next: start,
                by_key: BTreeMap::new(),
                by_val: BTreeMap::new(),
                meta: BTreeMap::new(),
                evicted_vals: BTreeSet::new(),
                wrapped: false,
            });
        }
        Ok(HCtx {
            tables,
            default_key,
            cur: 0,
            utxo_fwd: BTreeMap::new(),
            utxo_rev: BTreeMap::new(),
            coins: BTreeMap::new(),
            msgs: BTreeMap::new(),
            mint_ptr: None,
            stats: Stats::default(),
            fault: None,
        })
    }

    fn view(&self) -> View {
        View { tables: self.tables.iter().map(|t| (t.model_next, t.by_key.clone())).collect(), utxos: self.utxo_rev.clone() }
    }

    fn fault(&mut self, key: &str, msg: String) {
        if self.fault.is_none() {
            self.fault = Some(CtxErr::new(key, msg));
        }
    }

    /// Fill the side tables from the (plain) spec, as the in-repo test context does from the
    /// inputs: coin data by UTXO id, message data by nonce, and the pointer of a Mint.
    fn store_refs(&mut self, tx: &AnyTx) {
        match tx {
            AnyTx::Mint(m) => self.mint_ptr = Some((m.txp.0, m.txp.1)),
            AnyTx::Charge(t) => {
                for i in &t.inputs {
                    match i {
                        InSpec::CoinSigned { utxo, owner, amount, asset, .. } | InSpec::CoinPredicate { utxo, owner, amount, asset, .. } => {
                            self.coins.insert((utxo.0 .0, utxo.1), (*owner, *amount, *asset));
                        }
                        InSpec::Contract { .. } => {}
                        InSpec::MsgCoinSigned { sender, recipient, amount, nonce, .. } | InSpec::MsgCoinPredicate { sender, recipient, amount, nonce, .. } => {
                            self.msgs.insert(nonce.0, (*sender, *recipient, *amount, vec![]));
                        }
                        InSpec::MsgDataSigned { sender, recipient, amount, nonce, data, .. }
                        | InSpec::MsgDataPredicate { sender, recipient, amount, nonce, data, .. } => {
                            self.msgs.insert(nonce.0, (*sender, *recipient, *amount, data.0.clone()));
                        }
                    }
                }
            }
        }
    }

    fn register(&mut self, ks: usize, val: &[u8]) -> Result<RegistryKey, CtxErr> {
        if self.default_key && val == ks_default(ks).as_slice() {
            self.stats.default_hits += 1;
            return Ok(RegistryKey::DEFAULT_VALUE);
        }
        let cur = self.cur;
        let t = &mut self.tables[ks];
        if let Some(&k) = t.by_val.get(val) {
            let m = t.meta.get_mut(&k).expect("meta");
            if m.0 == cur {
                self.stats.reuse_within += 1;
            } else {
                self.stats.reuse_cross += 1;
                self.stats.reuse_ks[ks] += 1;
            }
            if m.2 && t.wrapped {
                self.stats.reuse_across_wrap += 1;
            }
            m.1 = cur;
            return RegistryKey::try_from(k).map_err(|e| CtxErr::new("registry:stored-key-rejected", e));
        }
        let key = t.next;
        let k = key.as_u32();
        if k != t.model_next {
            let (m, ksn) = (t.model_next, KS_NAMES[ks]);
            self.fault("registry:next-differs-from-model", format!("{ksn}: library key {k:#x}, model (k+1) mod (2^24-1) = {m:#x}"));
            return Err(self.fault.clone().expect("set"));
        }
        if key == RegistryKey::DEFAULT_VALUE || k >= KEY_MODULUS {
            self.fault("registry:allocated-reserved-key", format!("{}: key {k:#x} handed out", KS_NAMES[ks]));
            return Err(self.fault.clone().expect("set"));
        }
        if let Some(old) = t.by_key.insert(k, val.to_vec()) {
            // going once around the key space overwrites the oldest entry
            t.by_val.remove(&old);
        }
        t.by_val.insert(val.to_vec(), k);
        t.meta.insert(k, (cur, cur, !t.wrapped));
        if t.evicted_vals.contains(val) {
            self.stats.rereg_after_evict += 1;
        }
        self.stats.allocs += 1;
        t.model_next = (t.model_next + 1) % KEY_MODULUS;
        if t.model_next == 0 {
            t.wrapped = true;
        }
        // `next()` panics on the reserved key only, which was excluded above
        t.next = key.next();
        Ok(key)
    }

    fn lookup(&self, ks: usize, key: RegistryKey) -> Result<Vec<u8>, CtxErr> {
        if key == RegistryKey::DEFAULT_VALUE {
            if self.default_key {
                return Ok(ks_default(ks));
            }
            return Err(CtxErr::new("decompress:reserved-key-in-compressed-data", format!("{}: DEFAULT_VALUE key but the registry never hands it out", KS_NAMES[ks])));
        }
        self.tables[ks]
            .by_key
            .get(&key.as_u32())
            .cloned()
            .ok_or_else(|| CtxErr::new(format!("decompress:registry-key-missing:{}", KS_NAMES[ks]), format!("key {:#x}", key.as_u32())))
    }

    /// eviction happens only *between* transactions (entries touched by the transaction being
    /// processed are never dropped, as a real block-level registry guarantees)
    fn evict(&mut self, retain: u8) {
        if retain == 0 {
            return;
        }
        let cur = self.cur;
        for t in self.tables.iter_mut() {
            let dead: Vec<u32> = t.meta.iter().filter(|(_, m)| m.1 + (retain as usize) <= cur).map(|(k, _)| *k).collect();
            for k in dead {
                t.meta.remove(&k);
                if let Some(v) = t.by_key.remove(&k) {
                    t.by_val.remove(&v);
                    t.evicted_vals.insert(v);
                    self.stats.evictions += 1;
                }
            }
        }
    }
}

fn arr32(b: &[u8], what: &str) -> Result<[u8; 32], CtxErr> {
    <[u8; 32]>::try_from(b).map_err(|_| CtxErr::new("harness-registry-value-length", format!("{what}: {} bytes", b.len())))
}

macro_rules! registry_type {
    ($t:ty, $ks:expr, |$v:ident| $to_bytes:expr, |$b:ident| $from_bytes:expr) => {
        impl CompressibleBy<HCtx> for $t {
            async fn compress_with(&self, ctx: &mut HCtx) -> Result<RegistryKey, CtxErr> {
                let $v = self;
                let bytes: Vec<u8> = $to_bytes;
                ctx.register($ks, &bytes)
            }
        }
        impl DecompressibleBy<HCtx> for $t {
            async fn decompress_with(key: RegistryKey, ctx: &HCtx) -> Result<Self, CtxErr> {
                let $b = ctx.lookup($ks, key)?;
                Ok($from_bytes)
            }
        }
    };
}

registry_type!(Address, KS_ADDRESS, |v| v.as_ref().to_vec(), |b| Address::from(arr32(&b, "Address")?));
registry_type!(AssetId, KS_ASSET, |v| v.as_ref().to_vec(), |b| AssetId::from(arr32(&b, "AssetId")?));
registry_type!(ContractId, KS_CONTRACT, |v| v.as_ref().to_vec(), |b| ContractId::from(arr32(&b, "ContractId")?));
registry_type!(ScriptCode, KS_SCRIPT, |v| AsRef::<[u8]>::as_ref(v).to_vec(), |b| ScriptCode::from(b));
registry_type!(PredicateCode, KS_PREDICATE, |v| AsRef::<[u8]>::as_ref(v).to_vec(), |b| PredicateCode::from(b));

impl CompressibleBy<HCtx> for UtxoId {
    async fn compress_with(&self, ctx: &mut HCtx) -> Result<CompressedUtxoId, CtxErr> {
        let id: ([u8; 32], u16) = (**self.tx_id(), self.output_index());
        let c = match ctx.utxo_fwd.get(&id) {
            Some(c) => {
                ctx.stats.utxo_reuse += 1;
                *c
            }
            None => {
                // injective: the running number is the block height
                let n = ctx.utxo_fwd.len() as u32;
                let c = (n, (n % 7) as u16, id.1);
                ctx.utxo_fwd.insert(id, c);
                ctx.utxo_rev.insert(c, id);
                c
            }
        };
        Ok(CompressedUtxoId { tx_pointer: TxPointer::new(c.0.into(), c.1), output_index: c.2 })
    }
}

impl DecompressibleBy<HCtx> for UtxoId {
    async fn decompress_with(c: CompressedUtxoId, ctx: &HCtx) -> Result<UtxoId, CtxErr> {
        let k = (u32::from(c.tx_pointer.block_height()), c.tx_pointer.tx_index(), c.output_index);
        let id = ctx.utxo_rev.get(&k).ok_or_else(|| CtxErr::new("decompress:utxo-key-missing", format!("{k:?}")))?;
        Ok(UtxoId::new(Bytes32::from(id.0), id.1))
    }
}

impl<S> DecompressibleBy<HCtx> for Coin<S>
where
    S: CoinSpecification,
    S::Predicate: DecompressibleBy<HCtx>,
    S::PredicateData: DecompressibleBy<HCtx>,
    S::PredicateGasUsed: DecompressibleBy<HCtx>,
    S::Witness: DecompressibleBy<HCtx>,
{
    async fn decompress_with(c: <Coin<S> as Compressible>::Compressed, ctx: &HCtx) -> Result<Coin<S>, CtxErr> {
        let utxo_id = UtxoId::decompress_with(c.utxo_id, ctx).await?;
        let info = ctx
            .coins
            .get(&(**utxo_id.tx_id(), utxo_id.output_index()))
            .ok_or_else(|| CtxErr::new("decompress:coin-not-in-side-table", format!("{utxo_id:?}")))?;
        Ok(Coin {
            utxo_id,
            owner: info.0.into(),
            amount: info.1,
            asset_id: info.2.into(),
            tx_pointer: Default::default(),
            witness_index: c.witness_index.decompress(ctx).await?,
            predicate_gas_used: c.predicate_gas_used.decompress(ctx).await?,
            predicate: c.predicate.decompress(ctx).await?,
            predicate_data: c.predicate_data.decompress(ctx).await?,
        })
    }
}

impl<S> DecompressibleBy<HCtx> for Message<S>
where
    S: MessageSpecification,
    S::Data: DecompressibleBy<HCtx> + Default,
    S::Predicate: DecompressibleBy<HCtx>,
    S::PredicateData: DecompressibleBy<HCtx>,
    S::PredicateGasUsed: DecompressibleBy<HCtx>,
    S::Witness: DecompressibleBy<HCtx>,
{
    async fn decompress_with(c: <Message<S> as Compressible>::Compressed, ctx: &HCtx) -> Result<Message<S>, CtxErr> {
        let info = ctx.msgs.get(&*c.nonce).ok_or_else(|| CtxErr::new("decompress:message-not-in-side-table", format!("{:?}", c.nonce)))?;
        let mut m: Message<S> = Message {
            sender: info.0.into(),
            recipient: info.1.into(),
            amount: info.2,
            nonce: c.nonce,
            witness_index: c.witness_index.decompress(ctx).await?,
            predicate_gas_used: c.predicate_gas_used.decompress(ctx).await?,
            data: Default::default(),
            predicate: c.predicate.decompress(ctx).await?,
            predicate_data: c.predicate_data.decompress(ctx).await?,
        };
        if let Some(d) = m.data.as_mut_field() {
            *d = Bytes::new(info.3.clone());
        }
        Ok(m)
    }
}

impl DecompressibleBy<HCtx> for Mint {
    async fn decompress_with(c: Self::Compressed, ctx: &HCtx) -> Result<Self, CtxErr> {
        let p = ctx.mint_ptr.ok_or_else(|| CtxErr::new("harness-no-mint-pointer", "context has no Mint tx pointer"))?;
        Ok(Transaction::mint(
            TxPointer::new(p.0.into(), p.1),
            c.input_contract.decompress(ctx).await?,
            c.output_contract.decompress(ctx).await?,
            c.mint_amount.decompress(ctx).await?,
            c.mint_asset_id.decompress(ctx).await?,
            c.gas_price.decompress(ctx).await?,
        ))
    }
}

// ------------------------------------------------------------------------------------ oracle

const KIND_NAMES: [&str; 6] = ["Script", "Create", "Mint", "Upgrade", "Upload", "Blob"];

/// first differing leaf of two JSON trees: (path with array indices erased — the stable part of
/// the failure key —, the exact path, the two leaves)
fn first_diff(a: &serde_json::Value, b: &serde_json::Value, path: &str, exact: &str) -> Option<(String, String, String, String)> {
    use serde_json::Value::*;
    let short = |v: &serde_json::Value| {
        let mut s = v.to_string();
        if s.len() > 160 {
            let mut n = 160;
            while !s.is_char_boundary(n) {
                n -= 1;
            }
            s.truncate(n);
            s.push('…');
        }
        s
    };
    match (a, b) {
        (Object(x), Object(y)) => {
            for (k, va) in x {
                match y.get(k) {
                    None => return Some((format!("{path}.{k}(missing)"), format!("{exact}.{k}"), short(va), "-".into())),
                    Some(vb) => {
                        if let Some(p) = first_diff(va, vb, &format!("{path}.{k}"), &format!("{exact}.{k}")) {
                            return Some(p);
                        }
                    }
                }
            }
            y.iter().find(|(k, _)| !x.contains_key(*k)).map(|(k, vb)| (format!("{path}.{k}(extra)"), format!("{exact}.{k}"), "-".into(), short(vb)))
        }
        (Array(x), Array(y)) => {
            if x.len() != y.len() {
                return Some((format!("{path}[](len)"), exact.to_string(), x.len().to_string(), y.len().to_string()));
            }
            x.iter().zip(y).enumerate().find_map(|(i, (va, vb))| first_diff(va, vb, &format!("{path}[]"), &format!("{exact}[{i}]")))
        }
        _ => (a != b).then(|| (path.to_string(), exact.to_string(), short(a), short(b))),
    }
}

fn trunc(mut s: String) -> String {
    if s.len() > 600 {
        let mut n = 600;
        while !s.is_char_boundary(n) {
            n -= 1;
        }
        s.truncate(n);
        s.push('…');
    }
    s
}

fn ctx_fail(stage: &str, e: CtxErr) -> Failure {
    Failure::new(e.key.clone(), format!("{stage}: {}", e.msg))
}

fn compress(tx: &Transaction, ctx: &mut HCtx, stage: &str) -> Result<(CompressedTransaction, Vec<u8>), Failure> {
    let r = block_on(tx.compress_with(ctx));
    if let Some(f) = ctx.fault.take() {
        return Err(ctx_fail(stage, f));
    }
    let c = r.map_err(|e| ctx_fail(stage, e))?;
    let bytes = postcard::to_allocvec(&c).map_err(|e| Failure::new("postcard:serialize-error", format!("{stage}: {e}")))?;
    Ok((c, bytes))
}

/// compress, postcard round-trip, decompress, compare with `want` and the id of `tx`
fn round_trip(tx: &Transaction, want: &Transaction, kind: &str, ctx: &mut HCtx, chain: &ChainId, stage: &str) -> Result<Vec<u8>, Failure> {
    let (c, bytes) = compress(tx, ctx, stage)?;
    let c2: CompressedTransaction =
        postcard::from_bytes(&bytes).map_err(|e| Failure::new("postcard:deserialize-error", format!("{stage}: {e} ({} bytes)", bytes.len())))?;
    ensure!(c2 == c, "postcard:compressed-form-does-not-round-trip", "{stage}: {}", trunc(format!("{c:?} vs {c2:?}")));
    let d: Transaction = block_on(Transaction::decompress_with(c2, &*ctx)).map_err(|e| ctx_fail(stage, e))?;

    let (id_tx, id_d) = (tx.id(chain), d.id(chain));
    if &d != want {
        let (jd, jw) = (serde_json::to_value(&d).unwrap_or_default(), serde_json::to_value(want).unwrap_or_default());
        let (path, exact, w, g) = first_diff(&jw, &jd, "", "").unwrap_or_else(|| ("<not visible in serde form>".into(), "?".into(), "?".into(), "?".into()));
        return Err(Failure::new(
            format!("roundtrip:field-differs:{path}"),
            format!(
                "{stage}: decompressed {kind} differs from the transaction with the skip table applied at `{exact}`: want {w}, got {g} (transaction id {})",
                if id_tx == id_d { "unchanged" } else { "differs too" }
            ),
        ));
    }
    ensure!(d.to_bytes() == want.to_bytes(), format!("roundtrip:canonical-bytes-differ:{kind}"), "{stage}: values equal but canonical encodings differ");
    ensure_eq!(id_d, id_tx, format!("roundtrip:id-differs:{kind}"), "{stage}: transaction id changed by the round trip");
    Ok(bytes)
}

fn run(case: &Case, obs: &mut Obs) -> Check {
    let mut specs = case.txs.clone();
    canonicalise(&mut specs);
    let chain = ChainId::new(case.chain);

    // reading of key.rs the model relies on
    ensure_eq!(RegistryKey::MAX_WRITABLE.as_u32(), KEY_MODULUS - 1, "registry:constants", "MAX_WRITABLE");
    ensure_eq!(RegistryKey::DEFAULT_VALUE.as_u32(), KEY_MODULUS, "registry:constants", "DEFAULT_VALUE");
    ensure_eq!(RegistryKey::ZERO.as_u32(), 0u32, "registry:constants", "ZERO");

    let mut ctx = HCtx::new(case.start_r, case.default_key).map_err(|e| ctx_fail("init", e))?;
    let mut built: Vec<(Transaction, Transaction, Vec<u8>)> = vec![];
    let mut sig: Vec<(u8, u8, u8, u8)> = vec![];
    let mut precomputed = 0u32;

    for (i, spec) in specs.iter().enumerate() {
        let kind = KIND_NAMES[spec.kind() as usize];
        let stage = format!("tx {i} ({kind})");
        ctx.cur = i;
        ctx.store_refs(spec);
        let mut tx = spec.build();
        if case.precompute && tx.precompute(&chain).is_ok() {
            precomputed += 1;
        }
        let want = skip_tx(spec).build();
        let before = ctx.stats.clone();
        let wrapped_before: Vec<bool> = ctx.tables.iter().map(|t| t.wrapped).collect();

        // (1) + (2)
        let bytes = round_trip(&tx, &want, kind, &mut ctx, &chain, &stage)?;

        let s = &ctx.stats;
        let wrapped_now = ctx.tables.iter().zip(&wrapped_before).filter(|(t, w)| t.wrapped && !**w).count() as u8;
        sig.push((
            spec.kind(),
            (s.reuse_cross - before.reuse_cross).min(3) as u8,
            (s.reuse_within - before.reuse_within).min(2) as u8,
            wrapped_now.min(2) | (((s.default_hits > before.default_hits) as u8) << 2) | (((s.rereg_after_evict > before.rereg_after_evict) as u8) << 3),
        ));

        // (3) idempotent registration, same compressed bytes
        let view = ctx.view();
        let stats = ctx.stats.clone();
        let (_, again) = compress(&tx, &mut ctx, &format!("{stage} again"))?;
        ctx.stats = stats;
        ensure!(ctx.view() == view, format!("idempotence:registry-changed:{kind}"), "{stage}: compressing the same transaction again changed the registry: {}", trunc(format!("{:?} -> {:?}", view, ctx.view())));
        ensure!(again == bytes, format!("idempotence:compressed-bytes-differ:{kind}"), "{stage}: second compression gives different bytes");

        built.push((tx, want, bytes));
        ctx.evict(case.retain);
    }

    // without eviction the context is append-only: the whole history must still round-trip,
    // to the same bytes, without touching the registry (keys allocated before a wrap included)
    if case.retain == 0 {
        let view = ctx.view();
        let stats = ctx.stats.clone();
        for (i, ((tx, want, bytes), spec)) in built.iter().zip(&specs).enumerate() {
            let kind = KIND_NAMES[spec.kind() as usize];
            let stage = format!("final pass tx {i} ({kind})");
            ctx.cur = specs.len() + i;
            if let AnyTx::Mint(m) = spec {
                ctx.mint_ptr = Some((m.txp.0, m.txp.1));
            }
            let b = round_trip(tx, want, kind, &mut ctx, &chain, &stage).map_err(|f| Failure::new(format!("history:{}", f.key), f.msg))?;
            ensure!(&b == bytes, format!("history:compressed-bytes-differ:{kind}"), "{stage}: compressed bytes differ from the first time");
        }
        ensure!(ctx.view() == view, "history:registry-changed", "re-compressing the history changed the registry");
        ctx.stats = stats;
    }

    // ---- classification
    let s = &ctx.stats;
    let wrap = ctx.tables.iter().any(|t| t.wrapped);
    let kinds: BTreeSet<u8> = specs.iter().map(|s| s.kind()).collect();
    for k in kinds {
        obs.class(&format!("has-kind:{}", KIND_NAMES[k as usize]));
    }
    if s.reuse_cross > 0 {
        obs.class("key-reuse-across-txs");
    }
    if s.reuse_within > 0 {
        obs.class("key-reuse-within-tx");
    }
    if wrap {
        obs.class("counter-wrap");
    }
    for (ks, t) in ctx.tables.iter().enumerate() {
        if t.wrapped {
            obs.class(&format!("wrap:{}", KS_NAMES[ks]));
        }
        if s.reuse_ks[ks] > 0 {
            obs.class(&format!("reuse-across-txs:{}", KS_NAMES[ks]));
        }
    }
    if s.reuse_across_wrap > 0 {
        obs.class("reuse-after-wrap-of-key-allocated-before");
    }
    if s.default_hits > 0 {
        obs.class("default-key-hit");
    }
    if s.evictions > 0 {
        obs.class("eviction");
    }
    if s.rereg_after_evict > 0 {
        obs.class("re-registered-after-eviction");
    }
    if s.utxo_reuse > 0 {
        obs.class("utxo-key-reuse");
    }
    if precomputed > 0 {
        obs.class("precomputed-metadata");
    }
    if case.retain == 0 {
        obs.class("final-history-pass");
    }
    obs.class(&format!("len:{}", specs.len()));
    obs.note("transactions", specs.len() as u64);
    obs.note("registry-allocations", s.allocs);
    obs.note("registry-reuse-hits", s.reuse_cross + s.reuse_within);
    if s.reuse_cross > 0 || wrap {
        obs.class("nontrivial:reuse-or-wrap");
        obs.nontrivial(&(sig, case.start_r, case.default_key, case.retain));
    }
    Ok(())
}

/// stretch one vector of the first chargeable transaction of the case to `n` elements
fn stretch(c: &mut Case, which: u8, n: usize) {
    for t in c.txs.iter_mut() {
        if let AnyTx::Charge(t) = t {
            match which {
                0 => {
                    let mut k = 0u16;
                    while t.inputs.len() < n {
                        k = k.wrapping_add(1);
                        let mut id = [0x5a; 32];
                        id[0] = (k >> 8) as u8;
                        id[1] = k as u8;
                        t.inputs.push(InSpec::CoinSigned { utxo: UtxoSpec(B32(id), k), owner: B32([3; 32]), amount: k as u64, asset: B32([0; 32]), txp: TxpSpec(0, 0), wit: 0 });
                    }
                }
                1 => {
                    while t.outputs.len() < n {
                        let k = t.outputs.len() as u64;
                        t.outputs.push(OutSpec::Coin { to: B32([4; 32]), amount: k, asset: B32([0; 32]) });
                    }
                }
                2 => {
                    while t.witnesses.len() < n {
                        let k = t.witnesses.len() as u8;
                        t.witnesses.push(HexBytes(vec![k]));
                    }
                }
                _ => match &mut t.body {
                    BodySpec::Create { slots, .. } => {
                        let mut k = 0u16;
                        while slots.len() < n {
                            k += 1;
                            let mut key = [0u8; 32];
                            key[30] = (k >> 8) as u8;
                            key[31] = k as u8;
                            slots.push((B32(key), B32([k as u8; 32])));
                        }
                        slots.sort();
                        slots.dedup_by(|a, b| a.0 == b.0);
                    }
                    BodySpec::Upload { proof, .. } => {
                        while proof.len() < n {
                            let k = proof.len() as u8;
                            proof.push(B32([k; 32]));
                        }
                    }
                    _ => {
                        while t.witnesses.len() < n {
                            let k = t.witnesses.len() as u8;
                            t.witnesses.push(HexBytes(vec![k, 1]));
                        }
                    }
                },
            }
            return;
        }
    }
}

pub fn property() -> Property {
    Property {
        id: "C07",
        rule: "sequences of 1..=8 G-TX transactions (all six kinds; script/predicate code, coin UTXO ids and message nonces re-drawn from pools of 4 with p=1/2, addresses/assets/contracts from G-TX's pool) sharing one harness compression context: per-keyspace registry whose keys are allocated by RegistryKey::next() from MAX_WRITABLE-r (r in 0..=5 per keyspace) with value->key reuse, optional default-value key, optional eviction between transactions; coin/message side tables and Mint pointer filled from the specs; referenced data made consistent per UTXO id / nonce over the sequence. After each compress: postcard round-trip, decompress, (1) same id, (2) equal to tx with the harness skip table applied (value and canonical bytes), (3) second compression leaves registry and bytes unchanged, key allocation equals (k+1) mod (2^24-1); without eviction the whole history is re-run at the end (same bytes, registry untouched). Non-trivial = sequence with a cross-transaction key reuse or a counter wrap; distinct by per-tx (kind, reuse, wrap/default/re-registration flags) and context parameters".into(),
        assumptions: vec![
            "the harness context (registry, side tables) is a faithful 'context holding the same referenced data'; a UTXO id names one coin and a nonce one message".into(),
            "Transaction PartialEq / canonical to_bytes / serde_json form are used to compare values (metadata is not part of the value)".into(),
            "postcard and futures::executor::block_on are correct; async context methods never pend".into(),
        ],
        // GenPart built directly: a sequence of transactions has hundreds of scalar leaves and
        // proptest shrinks tuple components in order, so the default 4000 iterations run out
        // before inputs / outputs are deleted
        parts: vec![Box::new(GenPart {
            name: "sequences".into(),
            rule: "sequences of transactions sharing one compression context".into(),
            cases: (60_000, 1_000_000),
            strat: Box::new(|_c: &Ctx| case_strategy(8).boxed()),
            check: Box::new(run),
            shrink_iters: 30_000,
        }),
        // vectors longer than 255 elements (chain-configurable limits are u16 / u64): one vector of
        // the first transaction is stretched to 255 / 256 / 257 / 300 / 700 cheap elements
        Box::new(GenPart {
            name: "long-vectors".into(),
            rule: "a sequence whose first transaction has one vector (inputs, outputs, witnesses, storage slots or proof set) of 255..=700 elements".into(),
            cases: (600, 20_000),
            strat: Box::new(|_c: &Ctx| {
                (case_strategy(2), 0u8..5, prop::sample::select(vec![255usize, 256, 257, 300, 700]))
                    .prop_map(|(mut c, which, n)| {
                        stretch(&mut c, which, n);
                        canonicalise(&mut c.txs);
                        c
                    })
                    .boxed()
            }),
            check: Box::new(|c: &Case, obs: &mut Obs| {
                obs.class("long-vector");
                run(c, obs)
            }),
            shrink_iters: 200,
        })],
        floors: vec![("sequences", "key-reuse-across-txs", 0.30), ("sequences", "counter-wrap", 0.30), ("sequences", "has-kind:Mint", 0.10)],
    }
}
