//! C23 — VM memory behaves like a zero-initialised 64 MiB array with two regions.
//!
//! Model-based histories on ONE `MemoryInstance` (the memory of a bare `Interpreter`, so that the
//! owner-checked entry points `write`/`write_bytes`/`memcopy`, whose `OwnershipRegisters`
//! argument cannot be built outside the crate, are reached through `SB`/`SW`/`MCL`/`MCP` with
//! planted `$ssp/$sp/$hp`). Everything else goes through the public `MemoryInstance` API.
//! Oracle: `model::flatmem` (DESIGN.md Appendix D).
use crate::engine::*;
use crate::model::flatmem::{FlatMem, MemErr, Owner, MEM_SIZE, MEM_SIZE_W};
use crate::{ensure, ensure_eq};
use fuel_asm::{op, PanicReason, RegId};
use fuel_tx::{ConsensusParameters, Finalizable, GasCosts, Script, TransactionBuilder};
use fuel_vm::constraints::reg_key::{Reg, RegMut, HP, SP};
use fuel_vm::error::InterpreterError;
use fuel_vm::interpreter::diff::{Diff, InitialVmState};
use fuel_vm::interpreter::{Interpreter, InterpreterParams, MemoryInstance};
use fuel_vm::prelude::IntoChecked;
use fuel_vm::state::{ExecuteState, ProgramState};
use fuel_vm::storage::MemoryStorage;
use proptest::prelude::*;
use serde::{Deserialize, Serialize};

type Vm = Interpreter<MemoryInstance, MemoryStorage, Script>;

// ---------------------------------------------------------------- case description

/// Symbolic address, resolved against the model state at execution time (so boundaries are hit
/// by construction and shrinking keeps them meaningful).
#[derive(Debug, Clone, Copy, Serialize, Deserialize, Hash)]
pub enum Addr {
    Abs(u64),
    /// stack_len + d
    Stack(i64),
    /// hp + d
    Hp(i64),
    /// MEM_SIZE + d
    Top(i64),
    /// u64::MAX - d
    Max(u8),
}

#[derive(Debug, Clone, Copy, Serialize, Deserialize, Hash)]
pub enum Len {
    Abs(u64),
    /// stack_len - start + d   (ends d bytes beyond the stack extent)
    ToStack(i64),
    /// MEM_SIZE - start + d
    ToTop(i64),
    /// hp - start + d
    ToHp(i64),
}

#[derive(Debug, Clone, Copy, Serialize, Deserialize, Hash)]
pub enum Amount {
    Abs(u64),
    /// hp - stack_len + d : the heap reaches d bytes into the stack extent (d > 0 overtakes it)
    ToStack(i64),
    /// hp - sp + d : the heap reaches down to $sp (+d would cross it)
    ToSp(i64),
    /// hp + d : everything (+d more than everything)
    All(i64),
}

/// `$ssp`/`$sp` chosen inside `[0, stack_len]` by monotone selectors (`0xFFFF` = the maximum).
#[derive(Debug, Clone, Copy, Serialize, Deserialize, Hash)]
pub struct OwnerSel {
    pub ssp: u16,
    pub sp: u16,
}

#[derive(Debug, Clone, Serialize, Deserialize, Hash)]
pub enum Store {
    Byte(u8),
    Word(u64),
    Clear(Len),
}

#[derive(Debug, Clone, Copy, Serialize, Deserialize, Hash)]
pub enum Src {
    At(Addr),
    /// dst + d
    Near(i16),
}

#[derive(Debug, Clone, Serialize, Deserialize, Hash)]
pub enum Op {
    GrowStack(Addr),
    GrowHeapBy { sp: u16, amount: Amount },
    Verify(Addr, Len),
    Read(Addr, Len),
    ReadWord(Addr),
    WriteNoOwner(Addr, Vec<u8>),
    WriteWordNoOwner(Addr, u64),
    Store { owner: OwnerSel, addr: Addr, what: Store },
    Memcopy { owner: OwnerSel, dst: Addr, src: Src, len: Len },
    Reset,
    Snapshot,
    Rollback(u16),
}

#[derive(Debug, Clone, Serialize, Deserialize)]
pub struct Case {
    /// false: operations that would allocate more than `SMALL_HEAP`/`SMALL_STACK` are skipped
    pub big: bool,
    pub ops: Vec<Op>,
}

const SMALL_HEAP: usize = 1 << 20;
const SMALL_STACK: usize = 1 << 18;

// ---------------------------------------------------------------- strategies

fn delta() -> impl Strategy<Value = i64> {
    prop_oneof![
        4 => prop::sample::select(vec![0i64, 1, -1, 2, -2, 7, -7, 8, -8, 9, -9]),
        2 => -300i64..300,
        1 => prop::sample::select(vec![255i64, 256, 257, -255, -256, -257, 1024, -1024, 4096, -4096]),
    ]
}

fn abs_addr() -> impl Strategy<Value = u64> {
    prop_oneof![
        3 => prop::sample::select(vec![0u64, 1, 7, 8, 9, 255, 256, 257, 1023, 1024, 1025, 4095, 4096, 65535, 65536]),
        2 => 0u64..2048,
        1 => (0u32..27, 0u64..3).prop_map(|(k, d)| ((1u64 << k) + d).saturating_sub(1)),
        1 => prop::sample::select(vec![MEM_SIZE_W - 1, MEM_SIZE_W, MEM_SIZE_W + 1, u32::MAX as u64, 1 << 32, u64::MAX - 1, u64::MAX]),
    ]
}

fn addr() -> impl Strategy<Value = Addr> {
    prop_oneof![
        3 => abs_addr().prop_map(Addr::Abs),
        3 => delta().prop_map(Addr::Stack),
        3 => delta().prop_map(Addr::Hp),
        2 => delta().prop_map(Addr::Top),
        1 => (0u8..3).prop_map(Addr::Max),
    ]
}

fn len() -> impl Strategy<Value = Len> {
    prop_oneof![
        4 => prop::sample::select(vec![0u64, 1, 2, 7, 8, 9, 31, 32, 33, 255, 256, 257]).prop_map(Len::Abs),
        2 => (0u64..600).prop_map(Len::Abs),
        1 => prop::sample::select(vec![4096u64, 65536, MEM_SIZE_W - 1, MEM_SIZE_W, MEM_SIZE_W + 1, u64::MAX]).prop_map(Len::Abs),
        1 => delta().prop_map(Len::ToStack),
        1 => delta().prop_map(Len::ToTop),
        1 => delta().prop_map(Len::ToHp),
    ]
}

fn amount(big: bool) -> BoxedStrategy<Amount> {
    if big {
        prop_oneof![
            3 => prop::sample::select(vec![0u64, 1, 8, 255, 256, 257, 4096, 1 << 16, 1 << 20, (1 << 20) + 1, 1 << 24, 1 << 25]).prop_map(Amount::Abs),
            1 => (0u64..5000).prop_map(Amount::Abs),
            4 => prop_oneof![3 => 1i64..600, 1 => delta()].prop_map(Amount::ToStack),
            2 => delta().prop_map(Amount::ToSp),
            1 => delta().prop_map(Amount::All),
            1 => prop::sample::select(vec![MEM_SIZE_W - 1, MEM_SIZE_W, MEM_SIZE_W + 1, u64::MAX]).prop_map(Amount::Abs),
        ]
        .boxed()
    } else {
        prop_oneof![
            4 => prop::sample::select(vec![0u64, 1, 7, 8, 9, 31, 32, 33, 255, 256, 257, 511, 512, 513, 1024, 4096, 1 << 16]).prop_map(Amount::Abs),
            3 => (0u64..3000).prop_map(Amount::Abs),
            1 => prop::sample::select(vec![1u64 << 19, (1 << 20) - 1, 1 << 20]).prop_map(Amount::Abs),
            1 => delta().prop_map(Amount::ToStack),
            1 => delta().prop_map(Amount::ToSp),
            1 => delta().prop_map(Amount::All),
            1 => prop::sample::select(vec![MEM_SIZE_W - 1, MEM_SIZE_W, MEM_SIZE_W + 1, u64::MAX]).prop_map(Amount::Abs),
        ]
        .boxed()
    }
}

fn sel_hi() -> impl Strategy<Value = u16> {
    prop_oneof![3 => Just(u16::MAX), 1 => any::<u16>(), 1 => Just(0u16)]
}
fn sel_lo() -> impl Strategy<Value = u16> {
    prop_oneof![3 => Just(0u16), 1 => any::<u16>(), 1 => Just(u16::MAX)]
}

fn owner() -> impl Strategy<Value = OwnerSel> {
    (sel_lo(), sel_hi()).prop_map(|(ssp, sp)| OwnerSel { ssp, sp })
}

fn data() -> impl Strategy<Value = Vec<u8>> {
    prop_oneof![
        4 => prop::collection::vec(1u8..=255, 0..=40),
        2 => prop::collection::vec(any::<u8>(), 0..=40),
        1 => prop::collection::vec(1u8..=255, 250..=260),
        1 => prop::collection::vec(any::<u8>(), 0..=1200),
    ]
}

fn stack_target(big: bool) -> BoxedStrategy<Addr> {
    if big {
        prop_oneof![
            3 => prop::sample::select(vec![8u64, 256, 1000, 4096, 65536, 1 << 20]).prop_map(Addr::Abs),
            1 => prop::sample::select(vec![1u64 << 24, 1 << 25, (1 << 26) - 4096]).prop_map(Addr::Abs),
            4 => (0u64..70000).prop_map(Addr::Abs),
            2 => delta().prop_map(Addr::Hp),
            1 => delta().prop_map(Addr::Stack),
            1 => delta().prop_map(Addr::Top),
            1 => (0u8..2).prop_map(Addr::Max),
        ]
        .boxed()
    } else {
        prop_oneof![
            4 => (0u64..3000).prop_map(Addr::Abs),
            2 => prop::sample::select(vec![0u64, 1, 7, 8, 9, 255, 256, 257, 4096, 65535, 65536, 65537, 1 << 18]).prop_map(Addr::Abs),
            2 => delta().prop_map(Addr::Stack),
            1 => delta().prop_map(Addr::Hp),
            1 => delta().prop_map(Addr::Top),
            1 => (0u8..2).prop_map(Addr::Max),
        ]
        .boxed()
    }
}

fn store() -> impl Strategy<Value = Store> {
    prop_oneof![
        2 => (1u8..=255).prop_map(Store::Byte),
        2 => any::<u64>().prop_map(Store::Word),
        2 => len().prop_map(Store::Clear),
    ]
}

fn op_strategy(big: bool) -> impl Strategy<Value = Op> {
    prop_oneof![
        4 => stack_target(big).prop_map(Op::GrowStack),
        5 => (sel_lo(), amount(big)).prop_map(|(sp, amount)| Op::GrowHeapBy { sp, amount }),
        2 => (addr(), len()).prop_map(|(a, n)| Op::Verify(a, n)),
        4 => (addr(), len()).prop_map(|(a, n)| Op::Read(a, n)),
        1 => addr().prop_map(Op::ReadWord),
        6 => (addr(), data()).prop_map(|(a, d)| Op::WriteNoOwner(a, d)),
        1 => (addr(), any::<u64>()).prop_map(|(a, w)| Op::WriteWordNoOwner(a, w)),
        3 => (owner(), addr(), store()).prop_map(|(owner, addr, what)| Op::Store { owner, addr, what }),
        5 => (owner(), addr(), prop_oneof![2 => addr().prop_map(Src::At), 1 => (-40i16..40).prop_map(Src::Near)], len())
            .prop_map(|(owner, dst, src, len)| Op::Memcopy { owner, dst, src, len }),
        3 => aimed_memcopy(),
        2 => aimed_write(),
        2 => Just(Op::Reset),
        2 => Just(Op::Snapshot),
        2 => any::<u16>().prop_map(Op::Rollback),
    ]
}

/// aimed write: inside the stack extent or inside the heap (so that non-zero data exists)
fn aimed_write() -> impl Strategy<Value = Op> {
    (prop_oneof![(-64i64..-1).prop_map(Addr::Stack), (0i64..64).prop_map(Addr::Hp), (-64i64..-1).prop_map(Addr::Top), (0u64..64).prop_map(Addr::Abs)],
     prop::collection::vec(1u8..=255, 1..=24))
        .prop_map(|(a, d)| Op::WriteNoOwner(a, d))
}

/// aimed copy: owned destination inside the stack extent or the heap, source somewhere accessible
fn aimed_memcopy() -> impl Strategy<Value = Op> {
    (
        prop_oneof![(-80i64..-1).prop_map(Addr::Stack), (0i64..80).prop_map(Addr::Hp), (0u64..64).prop_map(Addr::Abs)],
        prop_oneof![
            2 => (0u64..64).prop_map(|a| Src::At(Addr::Abs(a))),
            2 => (0i64..64).prop_map(|a| Src::At(Addr::Hp(a))),
            2 => (-80i64..-1).prop_map(|a| Src::At(Addr::Stack(a))),
            3 => (-40i16..40).prop_map(Src::Near),
        ],
        1u64..40,
    )
        .prop_map(|(dst, src, n)| Op::Memcopy { owner: OwnerSel { ssp: 0, sp: u16::MAX }, dst, src, len: Len::Abs(n) })
}

fn case_small(max_ops: usize) -> impl Strategy<Value = Case> {
    let random = prop::collection::vec(op_strategy(false), 0..max_ops);
    // template: dirty heap, reset, regrow (possibly in several steps), read
    let regrow = (
        prop::collection::vec(op_strategy(false), 0..6),
        amount(false),
        prop::collection::vec(aimed_write(), 1..4),
        amount(false),
        prop::collection::vec(op_strategy(false), 0..8),
    )
        .prop_map(|(pre, a1, w, a2, post)| {
            let mut ops = pre;
            ops.push(Op::GrowHeapBy { sp: 0, amount: a1 });
            ops.extend(w);
            ops.push(Op::Reset);
            ops.push(Op::GrowHeapBy { sp: 0, amount: a2 });
            ops.push(Op::Read(Addr::Hp(0), Len::ToTop(0)));
            ops.extend(post);
            ops
        });
    prop_oneof![3 => random, 1 => regrow].prop_map(|ops| Case { big: false, ops })
}

fn case_big(max_ops: usize) -> impl Strategy<Value = Case> {
    let random = prop::collection::vec(op_strategy(true), 0..max_ops);
    // template: stack extent, snapshot, heap overtakes it, rollback
    let overtake = (
        prop::collection::vec(op_strategy(true), 0..4),
        stack_target(true),
        prop::collection::vec(aimed_write(), 0..3),
        prop::collection::vec(op_strategy(true), 0..3),
        1i64..5000,
        prop::collection::vec(aimed_write(), 0..3),
        prop::collection::vec(op_strategy(true), 0..5),
    )
        .prop_map(|(pre, st, w1, mid, d, w2, post)| {
            let mut ops = pre;
            ops.push(Op::GrowStack(st));
            ops.extend(w1);
            ops.push(Op::Snapshot);
            ops.extend(mid);
            ops.push(Op::GrowHeapBy { sp: 0, amount: Amount::ToStack(d) });
            ops.extend(w2);
            ops.push(Op::Rollback(u16::MAX));
            ops.push(Op::Read(Addr::Abs(0), Len::ToStack(0)));
            ops.extend(post);
            ops
        });
    prop_oneof![1 => random, 3 => overtake].prop_map(|ops| Case { big: true, ops })
}

// ---------------------------------------------------------------- resolution helpers

fn off(base: u64, d: i64) -> u64 {
    if d >= 0 { base.saturating_add(d as u64) } else { base.saturating_sub(d.unsigned_abs()) }
}

fn resolve(a: Addr, m: &FlatMem) -> u64 {
    match a {
        Addr::Abs(x) => x,
        Addr::Stack(d) => off(m.stack_len as u64, d),
        Addr::Hp(d) => off(m.hp as u64, d),
        Addr::Top(d) => off(MEM_SIZE_W, d),
        Addr::Max(d) => u64::MAX - d as u64,
    }
}

fn resolve_len(l: Len, start: u64, m: &FlatMem) -> u64 {
    let rel = |to: u64, d: i64| off(to.saturating_sub(start), d);
    match l {
        Len::Abs(x) => x,
        Len::ToStack(d) => rel(m.stack_len as u64, d),
        Len::ToTop(d) => rel(MEM_SIZE_W, d),
        Len::ToHp(d) => rel(m.hp as u64, d),
    }
}

/// monotone selector -> 0..=max  (0xFFFF = max)
fn pick_incl(sel: u16, max: u64) -> u64 {
    if sel == u16::MAX { max } else { ((sel as u128 * (max as u128 + 1)) >> 16) as u64 }
}

fn reason_to_err(r: PanicReason) -> Option<MemErr> {
    Some(match r {
        PanicReason::MemoryOverflow => MemErr::Overflow,
        PanicReason::UninitalizedMemoryAccess => MemErr::Uninit,
        PanicReason::MemoryGrowthOverlap => MemErr::GrowthOverlap,
        PanicReason::MemoryWriteOverlap => MemErr::WriteOverlap,
        PanicReason::MemoryOwnership => MemErr::Ownership,
        _ => return None,
    })
}

fn conv<T>(what: &str, r: Result<T, PanicReason>) -> Result<Result<T, MemErr>, Failure> {
    match r {
        Ok(v) => Ok(Ok(v)),
        Err(p) => match reason_to_err(p) {
            Some(e) => Ok(Err(e)),
            None => Err(Failure::new(format!("{what}:foreign-reason"), format!("{what} refused with {p:?}, which is not a memory reason"))),
        },
    }
}

// ---------------------------------------------------------------- the lock-step interpreter

struct Snap {
    mem: MemoryInstance,
    model: FlatMem,
    hp_reg: u64,
}

struct Run {
    vm: Vm,
    model: FlatMem,
    hp_reg: u64,
    snaps: Vec<Snap>,
    /// a violation the search continues behind (reported at the end unless another one is found)
    pending: Option<Failure>,
    after_reset: bool,
    dirty_heap_at_reset: Option<(usize, usize)>,
    sig: Vec<u8>,
    /// class labels of this case (each counted once per case)
    cls: std::collections::BTreeSet<&'static str>,
}

fn new_vm() -> Vm {
    let mut params = InterpreterParams::default();
    params.gas_costs = GasCosts::free();
    Interpreter::with_storage(MemoryInstance::new(), MemoryStorage::default(), params)
}

impl Run {
    fn mem(&self) -> &MemoryInstance {
        self.vm.memory()
    }

    /// compare every accessible byte with the model
    fn compare_all(&self, key: &str) -> Check {
        let m = &self.model;
        if m.stack_len > 0 {
            let got = match self.mem().read(0u64, m.stack_len as u64) {
                Ok(s) => s,
                Err(e) => return Err(Failure::new(format!("{key}:stack-unreadable"), format!("stack [0,{}) not readable: {e:?}", m.stack_len))),
            };
            if let Some((a, g, w)) = m.diff_slice(0, got) {
                return Err(Failure::new(format!("{key}:stack-byte"), format!("stack byte {a}: got {g} want {w} (stack_len {}, hp {})", m.stack_len, m.hp)));
            }
        }
        let got = match self.mem().read(m.hp as u64, (MEM_SIZE - m.hp) as u64) {
            Ok(s) => s,
            Err(e) => return Err(Failure::new(format!("{key}:heap-unreadable"), format!("heap [{}, MEM_SIZE) not readable: {e:?}", m.hp))),
        };
        if let Some((a, g, w)) = m.diff_slice(m.hp, got) {
            return Err(Failure::new(format!("{key}:heap-byte"), format!("heap byte {a}: got {g} want {w} (stack_len {}, hp {})", m.stack_len, m.hp)));
        }
        Ok(())
    }

    /// accessibility predicate probed around both marks
    fn probe(&self, obs: &mut Obs) -> Check {
        let m = &self.model;
        let mut pts = vec![];
        for base in [m.stack_len as u64, m.hp as u64] {
            for d in [-2i64, -1, 0, 1] {
                pts.push(off(base, d));
            }
        }
        for a in pts {
            for n in [0u64, 1, 2] {
                if m.is_empty_in_gap(a, n) {
                    obs.note("dont-care:empty-range-in-gap", 1);
                    continue;
                }
                let want = m.accessible(a, n).map(|_| ());
                let got = conv("verify", self.mem().verify(a, n))?.map(|r| (r.start(), r.len()));
                match (&got, &want) {
                    (Ok((s, l)), Ok(())) => {
                        ensure!(*s as u64 == a && *l as u64 == n, "verify:range", "verify({a},{n}) returned range {s}+{l}");
                    }
                    (Err(g), Err(w)) if g == w => {}
                    _ => {
                        return Err(Failure::new(
                            "probe:accessibility",
                            format!("verify({a},{n}) = {got:?}, model {want:?} (stack_len {}, hp {})", m.stack_len, m.hp),
                        ))
                    }
                }
            }
        }
        Ok(())
    }

    fn owner(&self, sel: OwnerSel) -> Owner {
        let sp = pick_incl(sel.sp, self.model.stack_len as u64);
        let ssp = pick_incl(sel.ssp, sp);
        Owner { ssp, sp, hp: self.hp_reg, prev_hp: MEM_SIZE_W }
    }

    /// run one instruction on the bare VM with planted registers; Ok(Err(e)) = VM panic reason
    fn instr(&mut self, o: &Owner, regs: [u64; 3], ins: fuel_asm::Instruction) -> Result<Result<(), MemErr>, Failure> {
        {
            let r = self.vm.registers_mut();
            r[RegId::SSP.to_u8() as usize] = o.ssp;
            r[RegId::SP.to_u8() as usize] = o.sp;
            r[RegId::HP.to_u8() as usize] = o.hp;
            r[RegId::PC.to_u8() as usize] = 0;
            r[RegId::CGAS.to_u8() as usize] = 1 << 62;
            r[RegId::GGAS.to_u8() as usize] = 1 << 62;
            r[0x10] = regs[0];
            r[0x11] = regs[1];
            r[0x12] = regs[2];
        }
        match self.vm.instruction::<_, false>(ins) {
            Ok(ExecuteState::Proceed) => Ok(Ok(())),
            Ok(other) => Err(Failure::new("harness-vm", format!("{ins:?} did not proceed: {other:?}"))),
            Err(InterpreterError::PanicInstruction(pi)) => match reason_to_err(*pi.reason()) {
                Some(e) => Ok(Err(e)),
                None => Err(Failure::new("vm-instruction:foreign-reason", format!("{ins:?} panicked with {:?}", pi.reason()))),
            },
            Err(e) => Err(Failure::new("vm-instruction:error", format!("{ins:?} failed with {e:?}"))),
        }
    }

    fn readback(&self, key: &str, a: u64, n: u64) -> Check {
        let want = self.model.read(a, n).map_err(|e| Failure::new("harness-model", format!("readback of inaccessible range {a}+{n}: {e:?}")))?;
        let got = conv("read", self.mem().read(a, n))?;
        match got {
            Ok(g) => {
                if g != &want[..] {
                    let i = g.iter().zip(want.iter()).position(|(x, y)| x != y).unwrap_or(0);
                    return Err(Failure::new(key.to_string(), format!("bytes at {a}+{n} differ at +{i}: got {} want {}", g[i], want[i])));
                }
                Ok(())
            }
            Err(e) => Err(Failure::new(key.to_string(), format!("read({a},{n}) refused with {e:?} right after a successful write"))),
        }
    }

    fn step(&mut self, big: bool, o: &Op, obs: &mut Obs) -> Check {
        match o {
            Op::GrowStack(a) => {
                let s = resolve(*a, &self.model);
                let mut next = self.model.clone();
                let want = next.grow_stack(s);
                if want.is_ok() && !big && next.stack_len > SMALL_STACK {
                    self.cls.insert("skipped:budget");
                    self.sig.push(0);
                    return Ok(());
                }
                let got = conv("grow_stack", self.vm.memory_mut().grow_stack(s))?;
                ensure_eq!(got, want, "grow_stack:result", "grow_stack({s}) with stack_len {} hp {}", self.model.stack_len, self.model.hp);
                let old = self.model.stack_len;
                self.model = next;
                self.sig.push(2 + got.is_ok() as u8);
                if got.is_ok() && self.model.stack_len > old {
                    self.cls.insert("stack-grown");
                    let (lo, hi) = (old as u64, self.model.stack_len as u64);
                    // new stack bytes must read as zero (nothing non-zero can live in the gap)
                    let g = conv("read", self.mem().read(lo, hi - lo))?;
                    match g {
                        Ok(sl) => {
                            if let Some((a, g, w)) = self.model.diff_slice(lo as usize, sl) {
                                return Err(Failure::new("grow_stack:new-bytes-not-zero", format!("stack byte {a} is {g}, want {w}, after growing {lo}->{hi}")));
                            }
                        }
                        Err(e) => return Err(Failure::new("grow_stack:new-range-unreadable", format!("[{lo},{hi}) unreadable after grow_stack: {e:?}"))),
                    }
                }
            }
            Op::GrowHeapBy { sp, amount } => {
                let m = &self.model;
                let sp = pick_incl(*sp, m.stack_len as u64);
                let n = match amount {
                    Amount::Abs(x) => *x,
                    Amount::ToStack(d) => off((m.hp - m.stack_len.min(m.hp)) as u64, *d),
                    Amount::ToSp(d) => off(m.hp as u64 - sp.min(m.hp as u64), *d),
                    Amount::All(d) => off(m.hp as u64, *d),
                };
                let mut next = self.model.clone();
                let want = next.grow_heap_by(sp, n);
                if want.is_ok() && !big && MEM_SIZE - next.hp > SMALL_HEAP {
                    self.cls.insert("skipped:budget");
                    self.sig.push(1);
                    return Ok(());
                }
                let mut hp_reg = self.hp_reg;
                let got = conv(
                    "grow_heap_by",
                    self.vm.memory_mut().grow_heap_by(Reg::<SP>::new(&sp), RegMut::<HP>::new(&mut hp_reg), n),
                )?;
                ensure_eq!(got, want, "grow_heap:result", "grow_heap_by(sp={sp}, {n}) with stack_len {} hp {}", self.model.stack_len, self.model.hp);
                self.sig.push(4 + got.is_ok() as u8);
                let (old_hp, old_stack) = (self.model.hp, self.model.stack_len);
                self.model = next;
                if got.is_ok() {
                    self.hp_reg = hp_reg;
                    ensure_eq!(hp_reg, self.model.hp as u64, "grow_heap:hp-register", "$hp after grow_heap_by({n})");
                    if self.model.stack_len < old_stack {
                        self.cls.insert("heap-overtook-stack");
                    }
                    if n > 0 {
                        self.cls.insert("heap-grown");
                        let (lo, hi) = (self.model.hp, old_hp);
                        let g = conv("read", self.mem().read(lo as u64, (hi - lo) as u64))?;
                        match g {
                            Ok(sl) => {
                                if let Some(p) = crate::model::flatmem::first_nonzero(sl) {
                                    let key = if self.after_reset { "grow_heap:new-bytes-not-zero:after-reset" } else { "grow_heap:new-bytes-not-zero" };
                                    return Err(Failure::new(key, format!("new heap byte {} is {} after allocating [{lo},{hi})", lo + p, sl[p])));
                                }
                            }
                            Err(e) => return Err(Failure::new("grow_heap:new-range-unreadable", format!("[{lo},{hi}) unreadable after allocation: {e:?}"))),
                        }
                        if let Some((dlo, dhi)) = self.dirty_heap_at_reset {
                            if lo < dhi && dlo < hi {
                                self.cls.insert("reset-regrow-read-dirty");
                                let s = self.sig.clone();
                                obs.nontrivial(&("regrow", s));
                            }
                        }
                    }
                } else {
                    ensure_eq!(hp_reg, self.hp_reg, "grow_heap:hp-register-on-error", "$hp changed by a refused allocation");
                }
            }
            Op::Verify(a, l) => {
                let a = resolve(*a, &self.model);
                let n = resolve_len(*l, a, &self.model);
                if self.model.is_empty_in_gap(a, n) {
                    obs.note("dont-care:empty-range-in-gap", 1);
                    self.sig.push(6);
                    return Ok(());
                }
                let want = self.model.accessible(a, n);
                let got = conv("verify", self.mem().verify(a, n))?.map(|r| (r.start(), r.len()));
                ensure_eq!(got, want, "verify:result", "verify({a},{n}) with stack_len {} hp {}", self.model.stack_len, self.model.hp);
                self.sig.push(6 + got.is_ok() as u8);
            }
            Op::Read(a, l) => {
                let a = resolve(*a, &self.model);
                let n = resolve_len(*l, a, &self.model);
                if self.model.is_empty_in_gap(a, n) {
                    obs.note("dont-care:empty-range-in-gap", 1);
                    self.sig.push(8);
                    return Ok(());
                }
                let want = self.model.accessible(a, n);
                let got = conv("read", self.mem().read(a, n))?;
                match (got, want) {
                    (Ok(g), Ok((s, len))) => {
                        ensure_eq!(g.len(), len, "read:length", "read({a},{n}) length");
                        if let Some((at, gb, wb)) = self.model.diff_slice(s, g) {
                            return Err(Failure::new("read:bytes", format!("read({a},{n}): byte {at} is {gb}, model {wb}")));
                        }
                        self.cls.insert("read-ok");
                        self.sig.push(9);
                    }
                    (Err(g), Err(w)) => {
                        ensure_eq!(g, w, "read:reason", "read({a},{n}) refusal reason");
                        self.sig.push(8);
                    }
                    (g, w) => {
                        return Err(Failure::new(
                            "read:result",
                            format!("read({a},{n}) = {:?}, model {:?} (stack_len {}, hp {})", g.map(|s| s.len()), w, self.model.stack_len, self.model.hp),
                        ))
                    }
                }
            }
            Op::ReadWord(a) => {
                let a = resolve(*a, &self.model);
                let want = self.model.read(a, 8);
                let got = conv("read_bytes", self.mem().read_bytes::<_, 8>(a))?;
                ensure_eq!(got.map(|b| b.to_vec()), want, "read_bytes:result", "read_bytes::<8>({a})");
                self.sig.push(10);
            }
            Op::WriteNoOwner(a, d) => {
                let a = resolve(*a, &self.model);
                if self.model.is_empty_in_gap(a, d.len() as u64) {
                    obs.note("dont-care:empty-range-in-gap", 1);
                    return Ok(());
                }
                let want = self.model.write(a, d);
                let got = conv("write_noownerchecks", self.vm.memory_mut().write_noownerchecks(a, d.len() as u64).map(|s| s.copy_from_slice(d)))?;
                ensure_eq!(got, want, "write:result", "write_noownerchecks({a},{}) with stack_len {} hp {}", d.len(), self.model.stack_len, self.model.hp);
                self.sig.push(12 + got.is_ok() as u8);
                if got.is_ok() {
                    self.cls.insert("write-ok");
                    self.readback("write:readback", a, d.len() as u64)?;
                }
            }
            Op::WriteWordNoOwner(a, w) => {
                let a = resolve(*a, &self.model);
                let d = w.to_be_bytes();
                let want = self.model.write(a, &d);
                let got = conv("write_bytes_noownerchecks", self.vm.memory_mut().write_bytes_noownerchecks(a, d))?;
                ensure_eq!(got, want, "write_bytes:result", "write_bytes_noownerchecks({a})");
                self.sig.push(14 + got.is_ok() as u8);
                if got.is_ok() {
                    self.readback("write_bytes:readback", a, 8)?;
                }
            }
            Op::Store { owner, addr, what } => {
                let o = self.owner(*owner);
                let a = resolve(*addr, &self.model);
                let (n, ins, regs, data): (u64, fuel_asm::Instruction, [u64; 3], Vec<u8>) = match what {
                    Store::Byte(b) => (1, op::sb(0x10, 0x11, 0), [a, *b as u64, 0], vec![*b]),
                    Store::Word(w) => (8, op::sw(0x10, 0x11, 0), [a, *w, 0], w.to_be_bytes().to_vec()),
                    Store::Clear(l) => {
                        let n = resolve_len(*l, a, &self.model);
                        (n, op::mcl(0x10, 0x11), [a, n, 0], vec![])
                    }
                };
                if n == 0 {
                    // ownership/accessibility of empty ranges: conventions outside the statement
                    obs.note("dont-care:empty-owned-write", 1);
                    return Ok(());
                }
                let viol = self.model.write_owned_violations(&o, a, n);
                let got = self.instr(&o, regs, ins)?;
                self.sig.push(16 + got.is_ok() as u8);
                match got {
                    Ok(()) => {
                        ensure!(viol.is_empty(), "store:accepted", "{ins:?} at {a}+{n} accepted although {viol:?} (owner {o:?}, stack_len {}, hp {})", self.model.stack_len, self.model.hp);
                        let d = if data.is_empty() { vec![0u8; n as usize] } else { data };
                        self.model.write(a, &d).map_err(|e| Failure::new("harness-model", format!("{e:?}")))?;
                        self.cls.insert("store-ok");
                        self.readback("store:readback", a, n)?;
                    }
                    Err(e) => {
                        ensure!(viol.contains(&e), "store:refused", "{ins:?} at {a}+{n} refused with {e:?}, admissible {viol:?} (owner {o:?}, stack_len {}, hp {})", self.model.stack_len, self.model.hp);
                    }
                }
            }
            Op::Memcopy { owner, dst, src, len } => {
                let o = self.owner(*owner);
                let d = resolve(*dst, &self.model);
                let s = match src {
                    Src::At(a) => resolve(*a, &self.model),
                    Src::Near(k) => off(d, *k as i64),
                };
                let n = resolve_len(*len, d, &self.model);
                if n == 0 {
                    obs.note("dont-care:empty-memcopy", 1);
                    return Ok(());
                }
                let viol = self.model.memcopy_violations(&o, d, s, n);
                let got = self.instr(&o, [d, s, n], op::mcp(0x10, 0x11, 0x12))?;
                self.sig.push(18 + got.is_ok() as u8);
                if FlatMem::share_a_byte(d, s, n) {
                    self.cls.insert("memcopy-overlapping");
                }
                match got {
                    Ok(()) => {
                        if viol == vec![MemErr::WriteOverlap] {
                            return Err(Failure::new("memcopy:overlap-accepted", format!("memcopy(dst={d}, src={s}, {n}) accepted although the ranges share a byte")));
                        }
                        ensure!(viol.is_empty(), "memcopy:accepted", "memcopy(dst={d}, src={s}, {n}) accepted although {viol:?} (owner {o:?}, stack_len {}, hp {})", self.model.stack_len, self.model.hp);
                        let before_src = self.model.peek(s as usize, n as usize);
                        self.model.memcopy_apply(d, s, n);
                        self.cls.insert("memcopy-ok");
                        self.readback("memcopy:readback", d, n)?;
                        // the source is untouched
                        let after_src = conv("read", self.mem().read(s, n))?.map(|x| x.to_vec());
                        ensure_eq!(after_src, Ok(before_src), "memcopy:source-changed", "source {s}+{n} after memcopy");
                    }
                    Err(e) => {
                        ensure!(viol.contains(&e), "memcopy:refused", "memcopy(dst={d}, src={s}, {n}) refused with {e:?}, admissible {viol:?} (owner {o:?}, stack_len {}, hp {})", self.model.stack_len, self.model.hp);
                    }
                }
            }
            Op::Reset => {
                let dirty = {
                    let m = &self.model;
                    let mut it = m.nonzero_in(m.hp, MEM_SIZE);
                    it.next().map(|(lo, _)| (lo, m.nonzero_in(m.hp, MEM_SIZE).last().map(|(k, _)| k + 1).unwrap_or(lo + 1)))
                };
                self.vm.memory_mut().reset();
                self.model.reset();
                self.hp_reg = MEM_SIZE_W;
                self.snaps.clear();
                self.after_reset = true;
                self.dirty_heap_at_reset = dirty;
                if dirty.is_some() {
                    self.cls.insert("reset-with-dirty-heap");
                }
                self.sig.push(20);
                ensure!(self.mem() == &MemoryInstance::new(), "reset:not-equal-fresh", "a reset instance does not compare equal to a fresh one");
            }
            Op::Snapshot => {
                let cap = if big { 2 } else { 4 };
                if self.snaps.len() >= cap {
                    self.cls.insert("skipped:snapshot-cap");
                    return Ok(());
                }
                self.snaps.push(Snap { mem: self.mem().clone(), model: self.model.clone(), hp_reg: self.hp_reg });
                self.sig.push(21);
            }
            Op::Rollback(sel) => {
                if self.snaps.is_empty() {
                    self.cls.insert("skipped:rollback-without-snapshot");
                    return Ok(());
                }
                let j = pick_incl(*sel, self.snaps.len() as u64 - 1) as usize;
                let overtook = self.model.stack_len < self.snaps[j].model.stack_len;
                if self.snaps[j].model.hp < self.model.hp {
                    return Err(Failure::new("harness-precondition", "snapshot hp below current hp inside the ancestor discipline".to_string()));
                }
                self.cls.insert("rollback");
                if overtook {
                    self.cls.insert("rollback-after-heap-overtook-stack");
                    let s = self.sig.clone();
                    obs.nontrivial(&("overtake", s));
                }
                self.sig.push(22 + overtook as u8);
                let data = {
                    let snap = &self.snaps[j].mem;
                    let mem = self.vm.memory();
                    catch_panic(|| mem.collect_rollback_data(snap))
                };
                let data = match data {
                    Ok(d) => d,
                    Err((loc, msg)) => {
                        let f = if overtook {
                            Failure::new(
                                "rollback:panic-heap-overtook-stack",
                                format!(
                                    "collect_rollback_data panicked at {loc} ({msg}): current stack extent {} < snapshot's {} because the heap (hp {}) grew over it",
                                    self.model.stack_len, self.snaps[j].model.stack_len, self.model.hp
                                ),
                            )
                        } else {
                            return Err(Failure::new(format!("rollback:panic@{loc}"), format!("collect_rollback_data panicked: {msg}")));
                        };
                        // the rollback did not happen; go on with the history behind it
                        if self.pending.is_none() {
                            self.pending = Some(f);
                        }
                        return Ok(());
                    }
                };
                match data {
                    None => {
                        ensure!(self.model == self.snaps[j].model, "rollback:no-data-but-different", "collect_rollback_data returned None although the accessible contents differ from the snapshot");
                    }
                    Some(d) => {
                        let r = {
                            let mem = self.vm.memory_mut();
                            catch_panic(|| mem.rollback(&d))
                        };
                        if let Err((loc, msg)) = r {
                            return Err(Failure::new(format!("rollback:apply-panic@{loc}"), format!("rollback panicked: {msg}")));
                        }
                    }
                }
                self.model = self.snaps[j].model.clone();
                self.hp_reg = self.snaps[j].hp_reg;
                ensure!(self.mem() == &self.snaps[j].mem, "rollback:not-equal-snapshot", "instance != snapshot {j} after rollback (stack_len {}, hp {})", self.model.stack_len, self.model.hp);
                self.snaps.truncate(j + 1);
                self.compare_all("rollback:contents")?;
            }
        }
        Ok(())
    }
}

thread_local! {
    /// evaluations of 64 MiB cases during the shrinking phase of this shard (see `shrink_budget`)
    static SHRINK_EVALS: std::cell::Cell<u32> = const { std::cell::Cell::new(0) };
}

/// Every evaluation of a 64 MiB case costs seconds in the harness profile (a 64 MiB `Vec::resize`
/// inside the library takes ~1.2 s with debug assertions on) and the engine shrinks for up to
/// 4000 iterations; once the engine is in its shrinking phase (`obs.frozen`) only the first
/// `limit` candidates of this shard are really evaluated, later ones are answered "passes", which
/// merely stops the simplification early (the reported case is always one that really failed;
/// `--replay` and the search phase are not affected).
fn shrink_budget(obs: &Obs, limit: u32) -> bool {
    if !obs.frozen {
        return true;
    }
    SHRINK_EVALS.with(|c| {
        c.set(c.get() + 1);
        c.get() <= limit
    })
}

fn run_case(case: &Case, obs: &mut Obs) -> Check {
    if case.big && !shrink_budget(obs, 16) {
        return Ok(());
    }
    let mut r = Run {
        vm: new_vm(),
        model: FlatMem::new(),
        hp_reg: MEM_SIZE_W,
        snaps: vec![],
        pending: None,
        after_reset: false,
        dirty_heap_at_reset: None,
        sig: vec![],
        cls: Default::default(),
    };
    let res = run_ops(&mut r, case, obs);
    for c in &r.cls {
        obs.class(c);
    }
    res?;
    if r.model.hp < MEM_SIZE - SMALL_HEAP {
        obs.class("heap>1MiB");
    }
    match r.pending {
        Some(f) => Err(f),
        None => Ok(()),
    }
}

fn run_ops(r: &mut Run, case: &Case, obs: &mut Obs) -> Check {
    for (i, o) in case.ops.iter().enumerate() {
        let tag = |f: Failure| Failure::new(f.key, format!("step {i} ({o:?}): {}", f.msg));
        r.step(case.big, o, obs).map_err(tag)?;
        ensure!(r.model.gap_is_zero(), "harness-model", "model gap invariant broken at step {i}");
        r.probe(obs).map_err(tag)?;
        let accessible = r.model.stack_len + (MEM_SIZE - r.model.hp);
        if accessible <= 16 << 10 {
            r.compare_all("contents").map_err(tag)?;
        }
    }
    r.compare_all("final:contents")
}

// ---------------------------------------------------------------- VM-level rollback (real caller sequence)

/// A script extends the stack (`CFEI`), the embedding caller snapshots the VM (`clone`), the
/// script shrinks the stack (`CFSI`) and allocates the heap down into the former stack extent
/// (`ALOC`), then the caller asks for `rollback_to(&snapshot)` + `reset_vm_state`.
#[derive(Debug, Clone, Serialize, Deserialize)]
pub struct VmCase {
    /// CFEI amount (bytes)
    pub ext: u32,
    /// CFSI amount, <= ext
    pub shrink: u32,
    /// the allocation leaves `slack` bytes above $sp (0 = down to $sp); the heap overtakes the
    /// former extent iff slack < shrink
    pub slack: u32,
    /// bytes written below old $sp before the snapshot
    pub fill: u8,
}

fn vm_case() -> impl Strategy<Value = VmCase> {
    (prop_oneof![Just(8u32), Just(64), 8u32..5000], any::<u16>(), prop_oneof![Just(0u32), 0u32..6000], any::<u8>()).prop_map(|(ext, s, slack, fill)| {
        let shrink = pick_incl(s, ext as u64) as u32;
        VmCase { ext, shrink, slack, fill }
    })
}

fn run_vm_case(c: &VmCase, obs: &mut Obs) -> Check {
    if !shrink_budget(obs, 10) {
        return Ok(());
    }
    ensure!(c.shrink <= c.ext && c.ext < (1 << 23), "harness-case", "bad case");
    let mut params = ConsensusParameters::standard();
    params.set_gas_costs(GasCosts::free());
    let script: Vec<u8> = vec![
        op::cfei(c.ext),
        op::movi(0x13, c.fill as u32),
        op::subi(0x14, RegId::SP, 1),
        op::sb(0x14, 0x13, 0), // one byte at the top of the extended frame
        op::noop(),            // <- snapshot is taken before this instruction
        op::cfsi(c.shrink),
        op::sub(0x10, RegId::HP, RegId::SP),
        op::movi(0x11, c.slack),
        op::sub(0x10, 0x10, 0x11),
        op::aloc(0x10),
        op::ret(RegId::ONE),
    ]
    .into_iter()
    .collect();
    let tx = TransactionBuilder::script(script, vec![])
        .script_gas_limit(1_000_000)
        .add_fee_input()
        .finalize()
        .into_checked(Default::default(), &params)
        .map_err(|e| Failure::new("harness-tx", format!("{e:?}")))?;
    let ready = tx
        .into_ready(0, params.gas_costs(), params.fee_params(), None)
        .map_err(|e| Failure::new("harness-tx", format!("{e:?}")))?;
    let mut vm: Vm = Interpreter::with_storage(MemoryInstance::new(), MemoryStorage::default(), InterpreterParams::new(0, &params));
    vm.set_single_stepping(true);
    let mut state = vm.transact(ready).map(|s| *s.state()).map_err(|e| Failure::new("harness-vm", format!("{e:?}")))?;
    let mut snapshot: Option<Vm> = None;
    let mut steps = 0;
    let mut sp_at_snapshot = 0;
    loop {
        match state {
            ProgramState::RunProgram(_) => {
                if steps == 4 {
                    sp_at_snapshot = vm.registers()[RegId::SP.to_u8() as usize];
                    snapshot = Some(vm.clone());
                }
                steps += 1;
                ensure!(steps < 64, "harness-vm", "script does not end");
                state = vm.resume().map_err(|e| Failure::new("harness-vm", format!("{e:?}")))?;
            }
            ProgramState::Return(1) => break,
            other => {
                // slack so large that the subtraction wrapped or ALOC was refused: not a case
                obs.class(&format!("vm:script-ended-{}", match other { ProgramState::Revert(_) => "revert", _ => "other" }));
                return Ok(());
            }
        }
    }
    let snapshot = snapshot.ok_or_else(|| Failure::new("harness-vm", "no snapshot taken".to_string()))?;
    let hp = vm.registers()[RegId::HP.to_u8() as usize];
    let overtook = hp < sp_at_snapshot;
    obs.class(if overtook { "vm:rollback-after-heap-overtook-stack" } else { "vm:rollback-plain" });
    if overtook {
        obs.nontrivial(&(c.ext, c.shrink, c.slack));
    }
    ensure!(hp <= snapshot.registers()[RegId::HP.to_u8() as usize], "harness-vm", "heap did not grow");
    let diff = catch_panic(|| vm.rollback_to(&snapshot));
    let diff: Diff<InitialVmState> = match diff {
        Ok(d) => d.into(),
        Err((loc, msg)) => {
            let key = if overtook { "rollback:panic-heap-overtook-stack".to_string() } else { format!("rollback:panic@{loc}") };
            return Err(Failure::new(
                key,
                format!("Interpreter::rollback_to(&earlier clone) panicked at {loc} ({msg}) after CFEI {} / snapshot / CFSI {} / ALOC down to $sp+{} (hp {hp} < former stack extent {sp_at_snapshot})", c.ext, c.shrink, c.slack),
            ));
        }
    };
    if let Err((loc, msg)) = catch_panic(|| vm.reset_vm_state(&diff)) {
        return Err(Failure::new(format!("rollback:apply-panic@{loc}"), format!("reset_vm_state panicked: {msg}")));
    }
    ensure!(vm.memory() == snapshot.memory(), "rollback:not-equal-snapshot", "VM memory != snapshot memory after rollback_to + reset_vm_state");
    let top = sp_at_snapshot - 1;
    let b = vm.memory().read(top, 1u64).map(|s| s[0]);
    ensure_eq!(b, Ok(c.fill), "rollback:contents", "byte at the top of the restored stack frame");
    Ok(())
}

pub fn property() -> Property {
    Property {
        id: "C23",
        rule: "histories vec(Op) on one MemoryInstance (the memory of a bare Interpreter) run in lock-step with model::flatmem: GrowStack, GrowHeapBy(sp,amount), Verify, Read, ReadWord, WriteNoOwner, WriteWordNoOwner, Store(owner regs; SB/SW/MCL), Memcopy(owner regs; MCP), Reset, Snapshot(clone), Rollback(j). Addresses/lengths/amounts are symbolic (Abs | stack_len+d | hp+d | MEM_SIZE+d | u64::MAX-d), so both marks, 0/8/256/2^k, MEM_SIZE+-1 and u64::MAX are hit by construction. After every op: result/reason vs model, read-back of written ranges, zero-ness of newly allocated bytes, accessibility probes at both marks, full content comparison (always when <=16 KiB accessible, after rollback and at the end otherwise). Part flat-small keeps heap <=1 MiB / stack <=256 KiB; part flat-64M is unbounded and aims at heap-overtakes-stack + rollback; part vm-rollback drives the same scenario through Interpreter::{transact(single-step), clone, rollback_to, reset_vm_state}. Rollback domain: snapshot is an ancestor state (taken since the last Reset, not abandoned by a rollback to an older snapshot). Non-trivial = reset with dirty heap followed by regrowth over the dirty bytes (read back), or rollback after the heap overtook the snapshot's stack extent; distinct by op-kind/outcome signature".into(),
        assumptions: vec![
            "model::flatmem is the flat-array semantics of DESIGN.md Appendix D".into(),
            "owner-checked writes/copies are reached through SB/SW/MCL/MCP on a bare Interpreter with free gas costs (OwnershipRegisters cannot be constructed outside fuel-vm); prev_hp is always MEM_SIZE".into(),
            "empty ranges strictly inside the gap and empty owned writes/copies are don't-care (counted in notes)".into(),
        ],
        parts: vec![
            gen_part("flat-small", "heap <= 1 MiB, stack <= 256 KiB; 1/4 of the cases carry the dirty-heap/reset/regrow/read template", (40_000, 2_000_000), |c: &Ctx| case_small(c.tier.pick(40, 80)), run_case),
            gen_part("flat-64M", "unbounded sizes; 3/4 of the cases carry the stack/snapshot/heap-overtakes/rollback template", (32, 800), |c: &Ctx| case_big(c.tier.pick(14, 24)), run_case),
            gen_part("vm-rollback", "CFEI/snapshot/CFSI/ALOC/rollback_to through the Interpreter API", (16, 200), |_c: &Ctx| vm_case(), run_vm_case),
        ],
        floors: vec![
            ("flat-small", "reset-regrow-read-dirty", 0.03),
            ("flat-small", "memcopy-ok", 0.05),
            ("flat-small", "memcopy-overlapping", 0.05),
            ("flat-64M", "rollback-after-heap-overtook-stack", 0.10),
        ],
    }
}
