//! C24 — Programs can only write memory they own.
//!
//! A whole-memory write monitor over single-stepped G-PROG worlds: after every executed
//! instruction the accessible memory (stack extent + heap from `$hp`) is diffed against a shadow
//! copy and every changed byte must lie in memory the running frame owned before or after the
//! instruction, or in the documented set of the VM's own writes. For the plain memory
//! instructions the outcome (success / panic reason) is predicted from the pre-state with
//! `model::flatmem`.
use crate::engine::*;
use crate::ensure;
use crate::model::flatmem::{FlatMem, MemErr, Owned, Owner, MEM_SIZE, MEM_SIZE_W};
use crate::vm::prog::{self, Base, MemOp, Ptr, Tpl, Val};
use crate::vm::world::{self, run_stepping, Built, Vm, WorldSpec};
use fuel_asm::{Instruction, PanicReason, RegId};
use fuel_tx::field::Outputs;
use fuel_tx::Receipt;
use fuel_vm::interpreter::MemoryInstance;
use proptest::prelude::*;
use serde::{Deserialize, Serialize};
use std::cell::RefCell;

#[derive(Debug, Clone, Serialize, Deserialize)]
pub struct Case {
    pub world: WorldSpec,
}

// ---- call frame layout (specification: to, asset id, 64 registers, code size, a, b)
const FRAME_REGS_OFF: u64 = 64;
const FRAME_CODE_SIZE_OFF: u64 = 64 + 8 * 64;
/// balance table: entries of (asset id: 32, value: 8) behind tx id and base asset id
const BAL_OFF: u64 = 64;
const BAL_ENTRY: u64 = 40;

/// heaps up to this size are monitored completely, larger ones through two windows
const HEAP_CAP: usize = 1 << 20;
const HEAP_WIN: usize = 1 << 18;

static ZEROS: [u8; 4096] = [0u8; 4096];

/// Shadow copy of the accessible memory: the stack extent and the heap from `hp`.
#[derive(Default)]
struct Shadow {
    stack: Vec<u8>,
    hp: usize,
    /// bytes of `[hp, hp + lo.len())`
    lo: Vec<u8>,
    /// bytes of `[MEM_SIZE - hi.len(), MEM_SIZE)` (empty when `lo` covers the whole heap)
    hi: Vec<u8>,
}

enum Back<'a> {
    Bytes(&'a [u8]),
    Zero,
    Skip,
}

fn heap_windows(hp: usize) -> (usize, usize) {
    let total = MEM_SIZE - hp;
    if total <= HEAP_CAP { (total, 0) } else { (HEAP_WIN, HEAP_WIN) }
}

fn push_run(runs: &mut Vec<(u64, u64)>, a: usize) {
    let a = a as u64;
    match runs.last_mut() {
        Some((_, e)) if *e == a => *e = a + 1,
        _ => runs.push((a, a + 1)),
    }
}

impl Shadow {
    fn capture(&mut self, mem: &MemoryInstance, hp: u64) -> Result<(), String> {
        let hp = hp as usize;
        self.stack.clear();
        self.stack.extend_from_slice(mem.stack_raw());
        self.hp = hp;
        let (lo, hi) = heap_windows(hp);
        self.lo.clear();
        self.lo.extend_from_slice(mem.read(hp, lo).map_err(|e| format!("heap read lo: {e:?}"))?);
        self.hi.clear();
        if hi > 0 {
            self.hi.extend_from_slice(mem.read(MEM_SIZE - hi, hi).map_err(|e| format!("heap read hi: {e:?}"))?);
        }
        Ok(())
    }

    /// bring the shadow up to date: patch the changed runs when the shape is unchanged
    fn update(&mut self, mem: &MemoryInstance, hp: u64, runs: &[(u64, u64)]) -> Result<(), String> {
        if hp as usize != self.hp || mem.stack_raw().len() != self.stack.len() || !self.hi.is_empty() {
            return self.capture(mem, hp);
        }
        let s = self.stack.len() as u64;
        for (a, e) in runs {
            if *e <= s {
                self.stack[*a as usize..*e as usize].copy_from_slice(&mem.stack_raw()[*a as usize..*e as usize]);
            } else if *a >= hp {
                let src = mem.read(*a, *e - *a).map_err(|x| format!("heap read: {x:?}"))?;
                self.lo[(*a - hp) as usize..(*e - hp) as usize].copy_from_slice(src);
            } else {
                return self.capture(mem, hp);
            }
        }
        Ok(())
    }

    /// what the old view holds at address `p` and up to where
    fn backing(&self, p: usize) -> (usize, Back<'_>) {
        let s = self.stack.len();
        let lo_end = self.hp + self.lo.len();
        let hi_start = MEM_SIZE - self.hi.len();
        if p < s {
            (s, Back::Bytes(&self.stack[p..]))
        } else if p < self.hp {
            (self.hp, Back::Zero)
        } else if p < lo_end {
            (lo_end, Back::Bytes(&self.lo[p - self.hp..]))
        } else if p < hi_start {
            (hi_start, Back::Skip)
        } else {
            (MEM_SIZE, Back::Bytes(&self.hi[p - hi_start..]))
        }
    }

    fn cmp_slice(&self, base: usize, new: &[u8], runs: &mut Vec<(u64, u64)>) {
        let end = base + new.len();
        let mut p = base;
        while p < end {
            let (seg_end, back) = self.backing(p);
            let seg_end = seg_end.min(end);
            let cur = &new[p - base..seg_end - base];
            match back {
                Back::Skip => {}
                Back::Bytes(old) => {
                    let old = &old[..cur.len()];
                    if old != cur {
                        for (i, (x, y)) in old.iter().zip(cur.iter()).enumerate() {
                            if x != y {
                                push_run(runs, p + i);
                            }
                        }
                    }
                }
                Back::Zero => {
                    let mut off = 0;
                    for chunk in cur.chunks(4096) {
                        if chunk != &ZEROS[..chunk.len()] {
                            for (i, x) in chunk.iter().enumerate() {
                                if *x != 0 {
                                    push_run(runs, p + off + i);
                                }
                            }
                        }
                        off += chunk.len();
                    }
                }
            }
            p = seg_end;
        }
    }

    /// byte runs whose value differs between the shadow (unallocated = zero) and the memory now
    fn diff(&self, mem: &MemoryInstance, hp: u64) -> Result<Vec<(u64, u64)>, String> {
        let hp = hp as usize;
        let mut runs = vec![];
        self.cmp_slice(0, mem.stack_raw(), &mut runs);
        let (lo, hi) = heap_windows(hp);
        self.cmp_slice(hp, mem.read(hp, lo).map_err(|e| format!("heap read lo: {e:?}"))?, &mut runs);
        if hi > 0 {
            self.cmp_slice(MEM_SIZE - hi, mem.read(MEM_SIZE - hi, hi).map_err(|e| format!("heap read hi: {e:?}"))?, &mut runs);
        }
        Ok(runs)
    }
}

#[derive(Clone, Copy, Debug, PartialEq, Eq)]
enum Viol {
    Mem(MemErr),
    RegNotWritable,
}

impl Viol {
    fn matches(&self, r: PanicReason) -> bool {
        match self {
            Viol::Mem(MemErr::Overflow) => r == PanicReason::MemoryOverflow,
            Viol::Mem(MemErr::Uninit) => r == PanicReason::UninitalizedMemoryAccess,
            Viol::Mem(MemErr::Ownership) => r == PanicReason::MemoryOwnership,
            Viol::Mem(MemErr::WriteOverlap) => r == PanicReason::MemoryWriteOverlap,
            Viol::Mem(MemErr::GrowthOverlap) => r == PanicReason::MemoryGrowthOverlap,
            Viol::RegNotWritable => r == PanicReason::ReservedRegisterNotWritable,
        }
    }
}

/// Prediction for a plain memory instruction.
struct Expect {
    op: &'static str,
    viol: Vec<Viol>,
    /// the statement does not decide the case (empty ranges)
    dont_care: bool,
    /// destination range of a writing instruction
    dst: Option<(u64, u64)>,
}

struct MemView {
    fm: FlatMem,
    owner: Owner,
}

impl MemView {
    fn read(&self, v: &mut Vec<Viol>, dc: &mut bool, a: Option<u64>, n: u64) {
        let Some(a) = a else {
            v.push(Viol::Mem(MemErr::Overflow));
            return;
        };
        if self.fm.is_empty_in_gap(a, n) {
            *dc = true;
        }
        if let Err(e) = self.fm.accessible(a, n) {
            if !v.contains(&Viol::Mem(e)) {
                v.push(Viol::Mem(e));
            }
        }
    }
    fn write(&self, v: &mut Vec<Viol>, dc: &mut bool, a: Option<u64>, n: u64) {
        self.read(v, dc, a, n);
        let Some(a) = a else { return };
        if n == 0 {
            // ownership of an empty range is a convention the statement does not talk about
            *dc = true;
        }
        if self.owner.owns(a, n) == Owned::No {
            v.push(Viol::Mem(MemErr::Ownership));
        }
    }
}

fn expect_for(i: &Instruction, regs: &[u64; 64], view: &MemView) -> Option<Expect> {
    let gas_operand = std::cell::Cell::new(false);
    let r = |x: RegId| {
        if x == RegId::CGAS || x == RegId::GGAS {
            gas_operand.set(true);
        }
        regs[x.to_u8() as usize]
    };
    let mut v = vec![];
    let mut dc = false;
    let mut dst = None;
    let wr = |v: &mut Vec<Viol>, ra: RegId| {
        if ra.to_u8() < 16 {
            v.push(Viol::RegNotWritable);
        }
    };
    let op: &'static str = match i {
        Instruction::LB(x) => {
            let (a, b, imm) = x.unpack();
            wr(&mut v, a);
            view.read(&mut v, &mut dc, r(b).checked_add(imm.to_u16() as u64), 1);
            "LB"
        }
        Instruction::LQW(x) => {
            let (a, b, imm) = x.unpack();
            wr(&mut v, a);
            view.read(&mut v, &mut dc, r(b).checked_add(imm.to_u16() as u64 * 2), 2);
            "LQW"
        }
        Instruction::LHW(x) => {
            let (a, b, imm) = x.unpack();
            wr(&mut v, a);
            view.read(&mut v, &mut dc, r(b).checked_add(imm.to_u16() as u64 * 4), 4);
            "LHW"
        }
        Instruction::LW(x) => {
            let (a, b, imm) = x.unpack();
            wr(&mut v, a);
            view.read(&mut v, &mut dc, r(b).checked_add(imm.to_u16() as u64 * 8), 8);
            "LW"
        }
        Instruction::SB(x) => {
            let (a, _b, imm) = x.unpack();
            let at = r(a).checked_add(imm.to_u16() as u64);
            view.write(&mut v, &mut dc, at, 1);
            dst = at.map(|p| (p, 1));
            "SB"
        }
        Instruction::SQW(x) => {
            let (a, _b, imm) = x.unpack();
            let at = r(a).checked_add(imm.to_u16() as u64 * 2);
            view.write(&mut v, &mut dc, at, 2);
            dst = at.map(|p| (p, 2));
            "SQW"
        }
        Instruction::SHW(x) => {
            let (a, _b, imm) = x.unpack();
            let at = r(a).checked_add(imm.to_u16() as u64 * 4);
            view.write(&mut v, &mut dc, at, 4);
            dst = at.map(|p| (p, 4));
            "SHW"
        }
        Instruction::SW(x) => {
            let (a, _b, imm) = x.unpack();
            let at = r(a).checked_add(imm.to_u16() as u64 * 8);
            view.write(&mut v, &mut dc, at, 8);
            dst = at.map(|p| (p, 8));
            "SW"
        }
        Instruction::MCL(x) => {
            let (a, b) = x.unpack();
            view.write(&mut v, &mut dc, Some(r(a)), r(b));
            dst = Some((r(a), r(b)));
            "MCL"
        }
        Instruction::MCLI(x) => {
            let (a, imm) = x.unpack();
            view.write(&mut v, &mut dc, Some(r(a)), imm.to_u32() as u64);
            dst = Some((r(a), imm.to_u32() as u64));
            "MCLI"
        }
        Instruction::MCP(x) => {
            let (a, b, c) = x.unpack();
            let n = r(c);
            view.write(&mut v, &mut dc, Some(r(a)), n);
            view.read(&mut v, &mut dc, Some(r(b)), n);
            if FlatMem::share_a_byte(r(a), r(b), n) {
                v.push(Viol::Mem(MemErr::WriteOverlap));
            }
            dst = Some((r(a), n));
            "MCP"
        }
        Instruction::MCPI(x) => {
            let (a, b, imm) = x.unpack();
            let n = imm.to_u16() as u64;
            view.write(&mut v, &mut dc, Some(r(a)), n);
            view.read(&mut v, &mut dc, Some(r(b)), n);
            if FlatMem::share_a_byte(r(a), r(b), n) {
                v.push(Viol::Mem(MemErr::WriteOverlap));
            }
            dst = Some((r(a), n));
            "MCPI"
        }
        Instruction::MEQ(x) => {
            let (a, b, c, d) = x.unpack();
            wr(&mut v, a);
            view.read(&mut v, &mut dc, Some(r(b)), r(d));
            view.read(&mut v, &mut dc, Some(r(c)), r(d));
            "MEQ"
        }
        _ => return None,
    };
    // operands naming a gas register are read after the instruction's own gas was charged: the
    // pre-state value is not the operand
    if gas_operand.get() {
        dc = true;
    }
    Some(Expect { op, viol: v, dont_care: dc, dst })
}

/// Pre-state of one step.
struct Pre {
    regs: [u64; 64],
    pc: u64,
    instr: Option<Instruction>,
    depth: usize,
    owner: Owner,
    stack_len: usize,
    /// VM writes that can be named from the pre-state (balance word, variable output)
    extra: Vec<(u64, u64, &'static str)>,
    expect: Option<Expect>,
    n_receipts: usize,
}

struct Regions {
    /// end of the transaction bytes = `$ssp` of the script before any code ran
    tx_end: u64,
    outputs: Option<(u64, u64)>,
}

fn region_of(a: u64, pre: &Pre, reg: &Regions) -> &'static str {
    let fp = pre.regs[RegId::FP];
    if a >= MEM_SIZE_W {
        "beyond-memory"
    } else if a < reg.tx_end {
        "tx-bytes"
    } else if pre.depth > 0 && a < fp {
        "caller-stack"
    } else if pre.depth > 0 && a < pre.owner.ssp {
        "own-frame-or-code"
    } else if a < pre.owner.ssp {
        "script-code"
    } else if a < pre.owner.sp {
        "own-stack"
    } else if a < pre.owner.hp {
        "above-sp"
    } else if a < pre.owner.prev_hp {
        "own-heap"
    } else {
        "caller-heap"
    }
}

struct Mon<'b> {
    b: &'b Built,
    shadow: Shadow,
    pre: Option<Pre>,
    regions: Regions,
    fail: Option<Failure>,
    classes: std::collections::BTreeSet<String>,
    seen: std::collections::HashSet<u64>,
    in_call: bool,
    steps: u64,
    mem_instrs: u64,
    dont_care: u64,
    oog: u64,
    window_only: bool,
    budget: u64,
    monitor_off: bool,
    sig: u64,
}

fn owner_of<S>(vm: &Vm<S>, depth: usize) -> Result<Owner, String> {
    let r = vm.registers();
    let prev_hp = if depth == 0 {
        MEM_SIZE_W
    } else {
        let at = r[RegId::FP] + FRAME_REGS_OFF + 8 * RegId::HP.to_u8() as u64;
        u64::from_be_bytes(vm.memory().read_bytes::<_, 8>(at).map_err(|e| format!("saved $hp unreadable at {at}: {e:?}"))?)
    };
    Ok(Owner { ssp: r[RegId::SSP], sp: r[RegId::SP], hp: r[RegId::HP], prev_hp })
}

fn add_owned(allowed: &mut Vec<(u64, u64)>, o: &Owner) {
    if o.ssp < o.sp {
        allowed.push((o.ssp, o.sp));
    }
    if o.hp < o.prev_hp {
        allowed.push((o.hp, o.prev_hp));
    }
}

impl<'b> Mon<'b> {
    fn class3(&mut self, a: &str, b: &str, c: &str) {
        if self.seen.insert(hash64(&(a, b, c))) {
            let mut s = a.to_string();
            for x in [b, c] {
                if !x.is_empty() {
                    s.push(':');
                    s.push_str(x);
                }
            }
            self.classes.insert(s);
        }
    }

    fn balance_word(&self, mem: &MemoryInstance, asset: &[u8; 32]) -> Option<(u64, u64)> {
        let n = self.b.params.tx_params().max_inputs() as u64;
        for i in 0..n {
            let off = BAL_OFF + i * BAL_ENTRY;
            let e = mem.read_bytes::<_, 32>(off).ok()?;
            if &e == asset {
                return Some((off + 32, off + 40));
            }
        }
        None
    }

    fn before<S>(&mut self, vm: &Vm<S>, pc: u64, raw: Option<u32>) {
        if self.fail.is_some() {
            return;
        }
        let res: Result<(), Failure> = (|| {
            let regs: [u64; 64] = vm.registers().try_into().expect("64 registers");
            let depth = vm.verif_call_depth();
            ensure!((depth > 0) == (regs[RegId::FP] != 0), "harness:depth-vs-fp", "call depth {} but $fp = {}", depth, regs[RegId::FP]);
            let owner = owner_of(vm, depth).map_err(|e| Failure::new("harness:prev-hp", e))?;
            let mem = vm.memory();
            if self.steps == 0 {
                self.regions.tx_end = regs[RegId::SSP];
                self.shadow.capture(mem, regs[RegId::HP]).map_err(|e| Failure::new("harness:shadow", e))?;
            }
            let instr = raw.and_then(|w| Instruction::try_from(w).ok());
            let mut extra = vec![];
            let rv = |x: RegId| regs[x.to_u8() as usize];
            let mut asset_ptr = None;
            match &instr {
                Some(Instruction::CALL(x)) => asset_ptr = Some(rv(x.unpack().2)),
                Some(Instruction::TR(x)) => asset_ptr = Some(rv(x.unpack().2)),
                Some(Instruction::TRO(x)) => {
                    let (_, o, _, d) = x.unpack();
                    asset_ptr = Some(rv(d));
                    // the variable output rewritten by TRO (any context)
                    let tx = self.b.checked.transaction();
                    if let Ok(idx) = usize::try_from(rv(o)) {
                        if let (Some(off), Some(out)) = (tx.outputs_offset_at(idx), tx.outputs().get(idx)) {
                            use fuel_types::canonical::Serialize as _;
                            let lo = (vm.tx_offset() + off) as u64;
                            extra.push((lo, lo + out.size() as u64, "tro-output"));
                        }
                    }
                }
                _ => {}
            }
            // an operand naming a gas register is read after the instruction's gas was charged, so the
            // pre-state does not tell which asset / output is meant: allow every balance word and
            // every variable output for such (rare) instructions
            let gas_reg = |x: RegId| x == RegId::CGAS || x == RegId::GGAS;
            let vague = match &instr {
                Some(Instruction::CALL(x)) => gas_reg(x.unpack().2),
                Some(Instruction::TR(x)) => gas_reg(x.unpack().2),
                Some(Instruction::TRO(x)) => gas_reg(x.unpack().1) || gas_reg(x.unpack().3),
                _ => false,
            };
            if vague {
                if depth == 0 {
                    for i in 0..self.b.params.tx_params().max_inputs() as u64 {
                        let off = BAL_OFF + i * BAL_ENTRY;
                        extra.push((off + 32, off + 40, "balance-word"));
                    }
                }
                if matches!(&instr, Some(Instruction::TRO(_))) {
                    use fuel_types::canonical::Serialize as _;
                    let tx = self.b.checked.transaction();
                    for (idx, out) in tx.outputs().iter().enumerate() {
                        if let (true, Some(off)) = (matches!(out, fuel_tx::Output::Variable { .. }), tx.outputs_offset_at(idx)) {
                            let lo = (vm.tx_offset() + off) as u64;
                            extra.push((lo, lo + out.size() as u64, "tro-output"));
                        }
                    }
                }
            }
            if depth == 0 {
                let asset: Option<[u8; 32]> = match &instr {
                    Some(Instruction::SMO(_)) => Some(**self.b.params.base_asset_id()),
                    _ => asset_ptr.and_then(|p| mem.read_bytes::<_, 32>(p).ok()),
                };
                if let Some(a) = asset {
                    if let Some((lo, hi)) = self.balance_word(mem, &a) {
                        extra.push((lo, hi, "balance-word"));
                    }
                }
            }
            let stack_len = mem.stack_raw().len();
            let expect = instr.as_ref().and_then(|i| {
                let mut fm = FlatMem::new();
                fm.stack_len = stack_len;
                fm.hp = owner.hp as usize;
                expect_for(i, &regs, &MemView { fm, owner })
            });
            self.pre = Some(Pre { regs, pc, instr, depth, owner, stack_len, extra, expect, n_receipts: vm.receipts().len() });
            Ok(())
        })();
        if let Err(f) = res {
            self.fail = Some(f);
        }
    }

    fn after<S>(&mut self, vm: &Vm<S>, ended: bool) {
        if self.fail.is_some() {
            return;
        }
        let Some(pre) = self.pre.take() else { return };
        self.steps += 1;
        if let Err(f) = self.after_inner(vm, ended, &pre) {
            self.fail = Some(f);
        }
    }

    fn after_inner<S>(&mut self, vm: &Vm<S>, ended: bool, pre: &Pre) -> Check {
        let regs = vm.registers();
        let mem = vm.memory();
        let depth = vm.verif_call_depth();
        let opname = || -> String { pre.instr.as_ref().map(|i| format!("{:?}", i.opcode())).unwrap_or_else(|| "INVALID".into()) };
        // panic raised by this instruction, if any
        let panic: Option<PanicReason> = if ended {
            vm.receipts()[pre.n_receipts.min(vm.receipts().len())..].iter().find_map(|r| match r {
                Receipt::Panic { reason, pc, .. } if *pc == pre.pc => Some(*reason.reason()),
                _ => None,
            })
        } else {
            None
        };

        // ---- (1) write monitor (bounded work: a run that keeps megabytes of stack alive for tens of
        // thousands of steps is monitored until the byte budget is used up)
        let cost = (mem.stack_raw().len() + (MEM_SIZE - regs[RegId::HP] as usize).min(HEAP_CAP)) as u64;
        if !self.monitor_off && self.budget < cost {
            self.monitor_off = true;
        }
        if self.monitor_off {
            return self.access_predicate(vm, ended, pre, panic);
        }
        self.budget -= cost;
        let runs = self.shadow.diff(mem, regs[RegId::HP]).map_err(|e| Failure::new("harness:shadow", e))?;
        if MEM_SIZE - regs[RegId::HP] as usize > HEAP_CAP {
            self.window_only = true;
        }
        let mut allowed: Vec<(u64, u64)> = vec![];
        add_owned(&mut allowed, &pre.owner);
        // ownership after the instruction: a frame pushed/popped by the instruction changes the owner
        let after_owner = owner_of(vm, depth).map_err(|e| Failure::new("harness:prev-hp", e))?;
        add_owned(&mut allowed, &after_owner);
        let n_owned = allowed.len();
        match &pre.instr {
            Some(Instruction::CALL(_)) => {
                if regs[RegId::SSP] > pre.regs[RegId::SP] {
                    allowed.push((pre.regs[RegId::SP], regs[RegId::SSP]));
                }
            }
            Some(Instruction::LDC(_)) => {
                if regs[RegId::SSP] > pre.regs[RegId::SSP] {
                    allowed.push((pre.regs[RegId::SSP], regs[RegId::SSP]));
                }
                if pre.depth > 0 {
                    let p = pre.regs[RegId::FP] + FRAME_CODE_SIZE_OFF;
                    allowed.push((p, p + 8));
                }
            }
            _ => {}
        }
        for (lo, hi, _) in &pre.extra {
            allowed.push((*lo, *hi));
        }
        if ended {
            if let Some(o) = self.regions.outputs {
                allowed.push(o);
            }
        }
        for (a, e) in &runs {
            let mut p = *a;
            while p < *e {
                match allowed.iter().filter(|(lo, hi)| *lo <= p && p < *hi).map(|(_, hi)| *hi).max() {
                    Some(hi) => p = hi,
                    None => {
                        let region = region_of(p, pre, &self.regions);
                        let grown = p as usize >= pre.stack_len && p < pre.owner.hp;
                        return Err(Failure::new(
                            format!("unowned-write:{}:{}{}", opname(), region, if grown { ":fresh-stack-not-zero" } else { "" }),
                            format!(
                                "step {} pc={} {:?}: byte {} changed outside owned memory (changed run [{},{}), owner before {:?}, after {:?}, depth {}->{}, ended={}, panic={:?})",
                                self.steps, pre.pc, pre.instr, p, a, e, pre.owner, after_owner, pre.depth, depth, ended, panic
                            ),
                        ));
                    }
                }
            }
            // which exception covered a change that ownership does not cover
            let mut q = *a;
            while q < *e {
                match allowed[..n_owned].iter().filter(|(lo, hi)| *lo <= q && q < *hi).map(|(_, hi)| *hi).max() {
                    Some(hi) => q = hi,
                    None => break,
                }
            }
            if q < *e {
                let what = if pre.extra.iter().any(|(lo, hi, _)| *lo <= q && q < *hi) {
                    pre.extra.iter().find(|(lo, hi, _)| *lo <= q && q < *hi).map(|x| x.2).unwrap_or("")
                } else if matches!(&pre.instr, Some(Instruction::CALL(_))) {
                    "frame+code"
                } else if matches!(&pre.instr, Some(Instruction::LDC(_))) {
                    "loaded-code"
                } else {
                    "outputs-at-end"
                };
                let on = opname();
                self.class3("vm-write", if what == "outputs-at-end" { "" } else { &on }, what);
            }
        }
        // pure allocation instructions write nothing
        match &pre.instr {
            Some(Instruction::CFEI(_) | Instruction::CFE(_) | Instruction::CFSI(_) | Instruction::CFS(_)) => {
                if let Some((a, e)) = runs.first().filter(|_| !ended) {
                    return Err(Failure::new(format!("alloc-instr-changed-memory:{}", opname()), format!("step {} pc={}: {:?} changed bytes [{},{})", self.steps, pre.pc, pre.instr, a, e)));
                }
                if regs[RegId::SP] as usize > pre.stack_len {
                    self.class3("stack-extent-grew", "", "");
                } else if regs[RegId::SP] > pre.regs[RegId::SP] {
                    self.class3("stack-regrow-within-extent", "", "");
                }
            }
            Some(Instruction::ALOC(_)) => {
                let (new_hp, old_hp) = (regs[RegId::HP], pre.regs[RegId::HP]);
                if new_hp < old_hp && (old_hp - new_hp) as usize <= HEAP_CAP {
                    let fresh = mem.read(new_hp, old_hp - new_hp).map_err(|e| Failure::new("harness:fresh-heap", format!("{e:?}")))?;
                    if let Some(i) = crate::model::flatmem::first_nonzero(fresh) {
                        return Err(Failure::new("fresh-heap-not-zero", format!("step {} pc={}: ALOC left byte {} non-zero", self.steps, pre.pc, new_hp as usize + i)));
                    }
                    if (new_hp as usize) < pre.stack_len {
                        self.class3("heap-overtook-stack-extent", "", "");
                    }
                }
            }
            _ => {}
        }

        self.shadow.update(mem, regs[RegId::HP], &runs).map_err(|e| Failure::new("harness:shadow", e))?;
        self.access_predicate(vm, ended, pre, panic)
    }

    /// (2) access predicate of the plain memory instructions
    fn access_predicate<S>(&mut self, vm: &Vm<S>, ended: bool, pre: &Pre, panic: Option<PanicReason>) -> Check {
        let regs = vm.registers();
        if let Some(ex) = &pre.expect {
            self.mem_instrs += 1;
            let internal = pre.depth > 0;
            if let Some((a, n)) = ex.dst {
                let region = region_of(a, pre, &self.regions);
                self.class3("store-aim", if internal { "in-call" } else { "script" }, region);
                if internal && matches!(region, "tx-bytes" | "caller-stack" | "own-frame-or-code" | "caller-heap") {
                    self.class3("in-call-write-aimed-at-unowned", "", "");
                    self.sig = self.sig.wrapping_mul(31).wrapping_add(hash64(&(ex.op, region, n, a, pre.pc)));
                }
                // a range that starts in owned heap and runs past the caller's $hp
                if internal && a >= pre.owner.hp && a < pre.owner.prev_hp && a.saturating_add(n) > pre.owner.prev_hp {
                    self.class3("in-call-write-straddles-prev-hp", "", "");
                }
            }
            let succeeded = !ended && regs[RegId::PC] == pre.pc + 4;
            match (succeeded, panic) {
                (true, _) => {
                    if !ex.viol.is_empty() && !ex.dont_care {
                        return Err(Failure::new(
                            format!("access:{}:succeeded-despite:{:?}", ex.op, ex.viol[0]),
                            format!("step {} pc={} {:?} succeeded although {:?} (owner {:?}, stack extent {})", self.steps, pre.pc, pre.instr, ex.viol, pre.owner, pre.stack_len),
                        ));
                    }
                    self.class3("mem", ex.op, "ok");
                }
                (false, Some(PanicReason::OutOfGas)) => {
                    self.oog += 1;
                }
                (false, Some(r)) => {
                    let applicable = ex.viol.iter().any(|v| v.matches(r));
                    if !applicable && !ex.dont_care {
                        let key = if ex.viol.is_empty() { format!("access:{}:spurious-panic:{:?}", ex.op, r) } else { format!("access:{}:wrong-reason:{:?}", ex.op, r) };
                        return Err(Failure::new(key, format!("step {} pc={} {:?} panicked with {:?}, applicable {:?} (owner {:?}, stack extent {})", self.steps, pre.pc, pre.instr, r, ex.viol, pre.owner, pre.stack_len)));
                    }
                    if ex.dont_care && !applicable {
                        // still has to be a memory reason
                        ensure!(
                            matches!(r, PanicReason::MemoryOverflow | PanicReason::UninitalizedMemoryAccess | PanicReason::MemoryOwnership | PanicReason::MemoryWriteOverlap),
                            format!("access:{}:wrong-reason:{:?}", ex.op, r),
                            "step {} pc={} {:?} (empty range) panicked with {:?}",
                            self.steps,
                            pre.pc,
                            pre.instr,
                            r
                        );
                    }
                    self.class3("mem", ex.op, &format!("panic:{r:?}"));
                }
                (false, None) => {
                    return Err(Failure::new(format!("access:{}:no-outcome", ex.op), format!("step {} pc={} {:?}: neither advanced $pc by 4 nor left a panic receipt (ended={}, pc now {})", self.steps, pre.pc, pre.instr, ended, regs[RegId::PC])));
                }
            }
            if ex.dont_care {
                self.dont_care += 1;
            }
        }
        if pre.depth > 0 {
            self.in_call = true;
        }
        Ok(())
    }
}

fn check(case: &Case, obs: &mut Obs) -> Check {
    let b = match case.world.build() {
        Ok(b) => b,
        Err(_) => {
            obs.class("world-invalid");
            return Ok(());
        }
    };
    let ready = match b.ready() {
        Ok(r) => r,
        Err(_) => {
            obs.class("world-not-ready");
            return Ok(());
        }
    };
    let mut vm = b.new_vm(b.storage.clone());
    // output region of the transaction in VM memory (rewritten when the script ends)
    let outputs = {
        use fuel_types::canonical::Serialize as _;
        let tx = b.checked.transaction();
        let n = tx.outputs().len();
        if n == 0 {
            None
        } else {
            let lo = vm.tx_offset() + tx.outputs_offset_at(0).unwrap_or(0);
            let hi = vm.tx_offset() + tx.outputs_offset_at(n - 1).unwrap_or(0) + tx.outputs()[n - 1].size();
            Some((lo as u64, hi as u64))
        }
    };
    let mon = RefCell::new(Mon {
        b: &b,
        shadow: Shadow::default(),
        pre: None,
        regions: Regions { tx_end: 0, outputs },
        fail: None,
        classes: Default::default(),
        seen: Default::default(),
        in_call: false,
        steps: 0,
        mem_instrs: 0,
        dont_care: 0,
        oog: 0,
        window_only: false,
        budget: 1 << 28,
        monitor_off: false,
        sig: 0,
    });
    let out = run_stepping(&mut vm, ready, b.gas_limit + 16, |s| mon.borrow_mut().before(s.vm, s.pc, s.raw), |vm, ended| mon.borrow_mut().after(vm, ended));
    let mon = mon.into_inner();
    if let Some(f) = mon.fail {
        return Err(f);
    }
    let out = out.map_err(|e| Failure::new("harness-step-budget", e))?;
    let cl = mon.classes;
    for c in &cl {
        obs.class(c);
    }
    if mon.in_call {
        obs.class("step-in-call");
    }
    obs.note("steps", mon.steps);
    obs.note("mem-instrs", mon.mem_instrs);
    obs.note("empty-range-dont-care", mon.dont_care);
    obs.note("mem-instr-out-of-gas", mon.oog);
    if mon.monitor_off {
        obs.class("monitor-budget-exhausted");
    }
    if mon.window_only {
        obs.class("heap-window-only");
    }
    if out.receipts.iter().any(|r| matches!(r, Receipt::Call { .. })) {
        obs.class("has-call");
    }
    if cl.contains("in-call-write-aimed-at-unowned") {
        obs.nontrivial(&(mon.sig, mon.steps));
    }
    Ok(())
}

// ------------------------------------------------------------------ generator

const W_MEM: prog::Weights = prog::Weights([3, 12, 2, 2, 7, 0, 1, 3, 3, 2]);
const W_MEM_CONTRACT: prog::Weights = prog::Weights([3, 12, 2, 2, 4, 1, 1, 3, 3, 2]);

/// destinations a frame must not be able to write: caller stack, own frame / code, tx bytes,
/// balance table, caller heap (behind the prelude's 768 bytes), across the caller's `$hp`
fn aimed_ptr() -> impl Strategy<Value = Ptr> {
    let fp = RegId::FP.to_u8();
    prop_oneof![
        3 => (-700i16..0).prop_map(move |off| Ptr { base: Base::Reg(fp), off }),
        3 => (0i16..620).prop_map(|off| Ptr { base: Base::Fp, off }),
        2 => (-64i16..400).prop_map(|off| Ptr { base: Base::Code, off }),
        2 => (0i16..2000).prop_map(|off| Ptr { base: Base::Data, off }),
        1 => (0i16..600).prop_map(|off| Ptr { base: Base::Bal, off }),
        1 => (0i16..2000).prop_map(|off| Ptr { base: Base::Zero, off }),
        4 => (768i16..1600).prop_map(|off| Ptr { base: Base::Hp, off }),
        3 => (700i16..768).prop_map(|off| Ptr { base: Base::Hp, off }),
        1 => (-64i16..0).prop_map(|off| Ptr { base: Base::Ssp, off }),
        1 => (0i16..64).prop_map(|off| Ptr { base: Base::Sp, off }),
        1 => (-64i16..0).prop_map(|off| Ptr { base: Base::Hp, off }),
    ]
}

fn aimed_store() -> impl Strategy<Value = Tpl> {
    (
        prop::sample::select(vec![MemOp::Sb, MemOp::Sw, MemOp::Sqw, MemOp::Shw, MemOp::Mcl, MemOp::Mcli, MemOp::Mcp, MemOp::Mcpi]),
        0x20u8..0x25,
        aimed_ptr(),
        prog::good_ptr(),
        prop_oneof![3 => (1u32..100).prop_map(Val::Imm), 1 => Just(Val::Imm(0)), 1 => (100u32..2000).prop_map(Val::Imm)],
        prop_oneof![3 => Just(0u16), 1 => 0u16..10],
    )
        .prop_map(|(op, d, p, q, len, imm)| {
            // MCPI takes its length from the immediate
            let imm = if op == MemOp::Mcpi { 1 + (imm * 13) % 90 } else { imm };
            Tpl::Mem { op, d, p, q, len, imm }
        })
}

/// stack shrink / regrow and heap allocation in the callee
fn shape_tpl() -> impl Strategy<Value = Tpl> {
    prop_oneof![
        (1u32..64).prop_map(|n| Tpl::Stack { op: prog::StackOp::Cfsi, n: n * 8, r: Val::Imm(0) }),
        (1u32..64).prop_map(|n| Tpl::Stack { op: prog::StackOp::Cfei, n: n * 8, r: Val::Imm(0) }),
        (0u32..2000).prop_map(|n| Tpl::Aloc { len: Val::Imm(n) }),
        (0u32..64).prop_map(|n| Tpl::Stack { op: prog::StackOp::Cfe, n: 0, r: Val::Imm(n * 8) }),
    ]
}

fn insert_at(body: &mut Vec<Tpl>, sel: u16, t: Tpl) {
    // keep the explicit end template last
    let n = body.len().saturating_sub(1);
    let i = crate::gens::pick(sel, n + 1);
    body.insert(i, t);
}

type Extra = (Vec<(u16, Tpl)>, Vec<(u16, Tpl)>);

fn extras() -> impl Strategy<Value = Extra> {
    (prop::collection::vec((any::<u16>(), aimed_store()), 0..=2), prop::collection::vec((any::<u16>(), shape_tpl()), 0..=3))
}

pub fn case() -> impl Strategy<Value = Case> {
    (
        world::world(W_MEM, 36, 3),
        prop::collection::vec((prog::body(W_MEM_CONTRACT, true, 24), extras()), 3),
        prop::option::weighted(0.25, extras()),
        0u8..10,
        prop::option::weighted(0.7, (any::<u16>(), 0u8..4)),
    )
        .prop_map(|(mut world, bodies, script_extra, clamp, early_call)| {
            // unguarded loops run until the gas is gone: keep the step count (monitor cost) bounded
            match clamp {
                0..=5 => world.gas_limit = world.gas_limit.min(1500),
                6..=8 => world.gas_limit = world.gas_limit.min(5000),
                _ => {}
            }
            // most scripts reach a contract early
            if let Some((sel, call)) = early_call {
                let n = world.script.len().saturating_sub(1).min(5);
                world.script.insert(crate::gens::pick(sel, n + 1), Tpl::Call { call, coins: Val::Imm(0), asset: 0, gas: Val::Reg(RegId::CGAS.to_u8()) });
            }
            // unbounded recursion only burns gas; keep a small share of cyclic call graphs
            if !world.dag && world.gas_limit > 2500 {
                world.gas_limit = 2500;
            }
            for (c, (mut body, (aimed, shape))) in world.contracts.iter_mut().zip(bodies) {
                for (sel, t) in shape {
                    insert_at(&mut body, sel, t);
                }
                for (sel, t) in aimed {
                    insert_at(&mut body, sel, t);
                }
                c.body = body;
            }
            if let Some((aimed, shape)) = script_extra {
                for (sel, t) in shape {
                    insert_at(&mut world.script, sel, t);
                }
                // the script runs first: an aimed store there ends the run, keep it towards the end
                for (sel, t) in aimed.into_iter().take(1) {
                    insert_at(&mut world.script, sel | 0xc000, t);
                }
            }
            Case { world }
        })
}

pub fn property() -> Property {
    Property {
        id: "C24",
        rule: "G-PROG worlds with memory-heavy script and contract bodies (plain loads/stores/MCL/MCP/MEQ, stack shrink/regrow, ALOC, LDC, nested calls) plus aimed stores whose destination is the caller's stack, the own call frame / code, the transaction bytes, the balance table, the caller's heap or a range across the caller's $hp; every world is single-stepped under a whole-memory write monitor (shadow of stack extent and heap, diffed after every instruction) and every plain memory instruction's outcome is predicted from the pre-state with model::flatmem. Non-trivial = a store / clear / copy executed inside a call whose destination starts in tx bytes, caller stack, own frame/code or caller heap; distinct by the sequence of (opcode, region, destination, length, $pc) of those attempts and the step count".into(),
        assumptions: vec![
            "single-stepping does not change execution results (C32)".into(),
            "fuel_asm::Instruction::try_from decodes instruction words correctly (C08)".into(),
            "Interpreter::tx_offset / Script::outputs_offset_at locate the transaction outputs in VM memory (C04)".into(),
            "the repository's verification hook verif_call_depth() reports the number of active call frames".into(),
            "MemoryInstance::stack_raw / read expose the memory contents faithfully (C23)".into(),
            "heaps larger than 1 MiB are monitored through their lowest and highest 256 KiB only (class heap-window-only)".into(),
        ],
        parts: vec![gen_part("write-monitor", "memory-heavy world, single-stepped", (6_000, 200_000), |_c: &Ctx| case(), check)],
        floors: vec![("write-monitor", "has-call", 0.30), ("write-monitor", "in-call-write-aimed-at-unowned", 0.10), ("write-monitor", "step-in-call", 0.30)],
    }
}
