//! C35 — Bytecode upload, blob, deployment and upgrade state evolve as specified.
//!
//! Histories of valid Create / Blob / Upload / Upgrade transactions (plus the block producer's
//! version bumps) over a small universe run against `model::tables` in lock-step, on three
//! execution paths (`Interpreter::{deploy,blob,upload,upgrade}`, `Interpreter::<_, _, Tx>::transact`,
//! `Transactor::{deploy,blob,upload,upgrade}`), each on its own `MemoryStorage`.
use crate::engine::*;
use crate::gens::tx::{b32, HexBytes, B32};
use crate::model::rfc6962;
use crate::model::tables::{Expect, Id, Op, Reason, Tables, Upload as MUpload};
use crate::vm::world::storage_fingerprint;
use crate::{ensure, ensure_eq};
use fuel_asm::PanicReason;
use fuel_crypto::{PublicKey, SecretKey};
use fuel_storage::{StorageAsRef, StorageInspect, StorageWrite};
use fuel_tx::{
    field::Outputs, Finalizable, Blob, BlobBody, BlobIdExt, ConsensusParameters, Create, Input, Output, StorageSlot, TransactionBuilder, TxPointer,
    Upgrade, UpgradePurpose, Upload, UploadBody, UploadSubsection, UtxoId, Witness,
};
use fuel_types::{AssetId, BlobId, BlockHeight, Bytes32, ContractId, Salt};
use fuel_vm::checked_transaction::{Checked, IntoChecked};
use fuel_vm::error::InterpreterError;
use fuel_vm::interpreter::{Interpreter, InterpreterParams, MemoryInstance};
use fuel_vm::state::ProgramState;
use fuel_vm::storage::{BlobData, ContractsRawCode, InterpreterStorage, MemoryStorage, UploadedBytecode};
use fuel_vm::transactor::Transactor;
use proptest::prelude::*;
use serde::{Deserialize, Serialize};
use sha2::{Digest, Sha256};
use std::collections::BTreeMap;
use std::convert::Infallible;

// ------------------------------------------------------------------ case

#[derive(Debug, Clone, PartialEq, Eq, Hash, Serialize, Deserialize)]
pub struct BytecodeSpec {
    pub bytes: HexBytes,
    /// requested number of subsections (1..=4); the split yields `ceil(len / ceil(len / parts))`
    pub parts: u8,
}

#[derive(Debug, Clone, PartialEq, Eq, Hash, Serialize, Deserialize)]
pub struct ContractDef {
    pub code: HexBytes,
    pub salt: B32,
    pub slots: Vec<(B32, B32)>,
}

#[derive(Debug, Clone, PartialEq, Eq, Hash, Serialize, Deserialize)]
pub struct Universe {
    pub bytecodes: Vec<BytecodeSpec>,
    pub blobs: Vec<HexBytes>,
    pub contracts: Vec<ContractDef>,
    /// parameter set i = standard parameters with `block_gas_limit = params[i]`
    pub params: Vec<u64>,
}

#[derive(Debug, Clone, Copy, PartialEq, Eq, Hash, Serialize, Deserialize)]
pub enum Idx {
    /// the subsection the model expects next (0 once the upload is complete)
    Next,
    /// subsection `k mod total`
    Exact(u8),
}

#[derive(Debug, Clone, Copy, PartialEq, Eq, Hash, Serialize, Deserialize)]
pub enum RootSel {
    Bytecode(u8),
    /// the k-th completely uploaded root of the model (falls back to `Bytecode(k)` when there is none)
    Complete(u8),
    Unknown,
}

#[derive(Debug, Clone, Copy, PartialEq, Eq, Hash, Serialize, Deserialize)]
pub enum TxOp {
    Deploy(u8),
    Blob(u8),
    Upload { bc: u8, idx: Idx },
    UpgradeConsensus(u8),
    UpgradeState(RootSel),
    BumpConsensus,
    BumpState,
}

#[derive(Debug, Clone, PartialEq, Eq, Hash, Serialize, Deserialize)]
pub struct Case {
    pub uni: Universe,
    pub consensus_version: u32,
    pub state_version: u32,
    pub gas_price: u64,
    /// the harness plays the client: `commit()` after a successful and `revert()` after a failed transaction
    pub commit_revert: bool,
    pub ops: Vec<TxOp>,
}

// ------------------------------------------------------------------ world: keys, params, tx builders

fn secret() -> SecretKey {
    let mut b = [0x37u8; 32];
    b[0] = 0x01;
    SecretKey::try_from(&b[..]).expect("valid scalar")
}

fn chain_params() -> ConsensusParameters {
    let mut p = ConsensusParameters::standard();
    p.set_privileged_address(Input::owner(&PublicKey::from(&secret())));
    p
}

fn param_set(tweak: u64) -> ConsensusParameters {
    let mut p = chain_params();
    p.set_block_gas_limit(tweak);
    p
}

const HEIGHT: u32 = 7;
const FUNDS: u64 = 1 << 40;

struct Env {
    params: ConsensusParameters,
    n: u16,
    gas_price: u64,
}

impl Env {
    fn fund<Tx>(&mut self, tb: &mut TransactionBuilder<Tx>)
    where
        TransactionBuilder<Tx>: FundBuilder,
    {
        self.n += 1;
        let utxo = UtxoId::new(Bytes32::from([(self.n & 0xff) as u8; 32]), self.n);
        tb.fund(&self.params, utxo);
    }
}

/// the three builder calls every transaction of the history needs (kept generic over the kind)
trait FundBuilder {
    fn fund(&mut self, params: &ConsensusParameters, utxo: UtxoId);
}
macro_rules! fund_impl {
    ($($t:ty),*) => {$(
        impl FundBuilder for TransactionBuilder<$t> {
            fn fund(&mut self, params: &ConsensusParameters, utxo: UtxoId) {
                self.with_params(params.clone());
                self.max_fee_limit(FUNDS / 2);
                self.add_unsigned_coin_input(secret(), utxo, FUNDS, AssetId::BASE, TxPointer::default());
                self.add_output(Output::change(Input::owner(&PublicKey::from(&secret())), 0, AssetId::BASE));
            }
        }
    )*};
}
fund_impl!(Create, Blob, Upload, Upgrade);

macro_rules! checked {
    ($tx:expr, $params:expr, $what:expr) => {
        $tx.into_checked(BlockHeight::from(HEIGHT), $params)
            .map_err(|e| Failure::new("harness-tx-invalid", format!("{}: generated transaction is not valid: {e:?}", $what)))
    };
}

/// a transaction of the history, built and checked
enum BuiltTx {
    Create(Checked<Create>),
    Blob(Checked<Blob>),
    Upload(Checked<Upload>),
    Upgrade(Checked<Upgrade>),
}

impl BuiltTx {
    fn kind(&self) -> &'static str {
        match self {
            BuiltTx::Create(_) => "deploy",
            BuiltTx::Blob(_) => "blob",
            BuiltTx::Upload(_) => "upload",
            BuiltTx::Upgrade(_) => "upgrade",
        }
    }
}

fn sha256(d: &[u8]) -> Id {
    Sha256::digest(d).into()
}

/// universe realised: subsections (with proofs), ids
struct Realized {
    /// per bytecode: the library's split
    subs: Vec<Vec<UploadSubsection>>,
    unknown_root: Id,
    psets: Vec<ConsensusParameters>,
}

fn realize(u: &Universe) -> Result<Realized, Failure> {
    let mut subs = vec![];
    for b in &u.bytecodes {
        let len = b.bytes.0.len().max(1);
        let parts = (b.parts.clamp(1, 4)) as usize;
        let size = len.div_ceil(parts).max(1);
        let s = UploadSubsection::split_bytecode(&b.bytes.0, size).map_err(|e| Failure::new("harness-split", format!("{e:?}")))?;
        // independent root: RFC 6962 tree hash over the subsections
        if !s.is_empty() {
            let leaves: Vec<&[u8]> = s.iter().map(|x| x.subsection.as_slice()).collect();
            let root = rfc6962::mth(&leaves);
            ensure_eq!(*s[0].root, root, "upload:split-root-differs-from-rfc6962", "bytecode root of split_bytecode");
            for (i, x) in s.iter().enumerate() {
                ensure_eq!(x.subsection_index as usize, i, "upload:split-index", "subsection index");
                ensure_eq!(x.subsections_number as usize, s.len(), "upload:split-number", "subsections number");
            }
            let cat: Vec<u8> = s.iter().flat_map(|x| x.subsection.iter().copied()).collect();
            ensure_eq!(cat, b.bytes.0, "upload:split-concatenation", "concatenation of the subsections");
        }
        subs.push(s);
    }
    Ok(Realized { subs, unknown_root: [0x5e; 32], psets: u.params.iter().map(|t| param_set(*t)).collect() })
}

// ------------------------------------------------------------------ implementation side

type Vm<Tx> = Interpreter<MemoryInstance, MemoryStorage, Tx>;

#[derive(Debug, Clone, PartialEq, Eq)]
enum Outcome {
    Ok,
    Panic(PanicReason),
    Other(String),
}

fn outcome<T>(r: Result<T, InterpreterError<Infallible>>) -> Outcome {
    match r {
        Ok(_) => Outcome::Ok,
        Err(InterpreterError::Panic(p)) => Outcome::Panic(p),
        Err(e) => Outcome::Other(format!("{e:?}")),
    }
}

fn ready_err<T>(e: fuel_vm::checked_transaction::CheckError) -> Result<T, Failure> {
    Err(Failure::new("harness-into-ready", format!("{e:?}")))
}

/// path 1: one script interpreter, `deploy/blob/upload/upgrade`
fn run_direct(vm: &mut Vm<fuel_tx::Script>, tx: &BuiltTx, gas_price: u64) -> Result<Outcome, Failure> {
    let gc = vm.gas_costs().clone();
    let fp = *vm.fee_params();
    Ok(match tx {
        BuiltTx::Create(c) => match c.clone().into_ready(gas_price, &gc, &fp, None) {
            Ok(r) => outcome(vm.deploy(r)),
            Err(e) => return ready_err(e),
        },
        BuiltTx::Blob(c) => match c.clone().into_ready(gas_price, &gc, &fp, None) {
            Ok(r) => outcome(vm.blob(r)),
            Err(e) => return ready_err(e),
        },
        BuiltTx::Upload(c) => match c.clone().into_ready(gas_price, &gc, &fp, None) {
            Ok(r) => outcome(vm.upload(r)),
            Err(e) => return ready_err(e),
        },
        BuiltTx::Upgrade(c) => match c.clone().into_ready(gas_price, &gc, &fp, None) {
            Ok(r) => outcome(vm.upgrade(r)),
            Err(e) => return ready_err(e),
        },
    })
}

/// path 2: a fresh `Interpreter<_, _, Kind>` over the storage, `transact`
fn run_transact(storage: &mut MemoryStorage, tx: &BuiltTx, gas_price: u64, params: &ConsensusParameters) -> Result<Outcome, Failure> {
    fn go<Tx>(storage: &mut MemoryStorage, c: &Checked<Tx>, gas_price: u64, params: &ConsensusParameters) -> Result<Outcome, Failure>
    where
        Tx: fuel_vm::interpreter::ExecutableTransaction + IntoChecked,
        <Tx as IntoChecked>::Metadata: fuel_vm::interpreter::CheckedMetadata,
        Checked<Tx>: Clone,
    {
        let ip = InterpreterParams::new(gas_price, params);
        let st = std::mem::take(storage);
        let mut vm: Vm<Tx> = Interpreter::with_storage(MemoryInstance::new(), st, ip);
        let ready = match c.clone().into_ready(gas_price, params.gas_costs(), params.fee_params(), None) {
            Ok(r) => r,
            Err(e) => return ready_err(e),
        };
        let out = match vm.transact(ready) {
            Ok(s) => {
                let st = *s.state();
                if st == ProgramState::Return(1) { Outcome::Ok } else { Outcome::Other(format!("state {st:?}")) }
            }
            Err(InterpreterError::Panic(p)) => Outcome::Panic(p),
            Err(e) => Outcome::Other(format!("{e:?}")),
        };
        *storage = std::mem::take(vm.as_mut());
        Ok(out)
    }
    match tx {
        BuiltTx::Create(c) => go(storage, c, gas_price, params),
        BuiltTx::Blob(c) => go(storage, c, gas_price, params),
        BuiltTx::Upload(c) => go(storage, c, gas_price, params),
        BuiltTx::Upgrade(c) => go(storage, c, gas_price, params),
    }
}

/// path 3: `Transactor::{deploy, blob, upload, upgrade}`
fn run_transactor(t: &mut Transactor<MemoryInstance, MemoryStorage, fuel_tx::Script>, tx: &BuiltTx) -> Outcome {
    match tx {
        BuiltTx::Create(c) => outcome(t.deploy(c.clone())),
        BuiltTx::Blob(c) => outcome(t.blob(c.clone())),
        BuiltTx::Upload(c) => outcome(t.upload(c.clone())),
        BuiltTx::Upgrade(c) => outcome(t.upgrade(c.clone())),
    }
}

fn reason_of(r: Reason) -> PanicReason {
    match r {
        Reason::ContractIdAlreadyDeployed => PanicReason::ContractIdAlreadyDeployed,
        Reason::BlobIdAlreadyUploaded => PanicReason::BlobIdAlreadyUploaded,
        Reason::BytecodeAlreadyUploaded => PanicReason::BytecodeAlreadyUploaded,
        Reason::ThePartIsNotSequentiallyConnected => PanicReason::ThePartIsNotSequentiallyConnected,
        Reason::OverridingConsensusParameters => PanicReason::OverridingConsensusParameters,
        Reason::OverridingStateTransactionBytecode => PanicReason::OverridingStateTransactionBytecode,
        Reason::UnknownStateTransactionBytecodeRoot => PanicReason::UnknownStateTransactionBytecodeRoot,
    }
}

// ------------------------------------------------------------------ table comparison

type Model = Tables<usize>;

/// names of the tables of `st` that differ from the model
fn diff_tables(st: &mut MemoryStorage, m: &Model, r: &Realized, ids: &Ids) -> Vec<(&'static str, String)> {
    let mut d = vec![];
    // version numbers (only the block producer changes them)
    let cv = st.consensus_parameters_version().unwrap_or(u32::MAX);
    let sv = st.state_transition_version().unwrap_or(u32::MAX);
    if (cv, sv) != (m.consensus_version, m.state_version) {
        d.push(("version-numbers", format!("storage ({cv},{sv}) model ({},{})", m.consensus_version, m.state_version)));
    }
    // consensus parameter versions
    {
        let imp = st.consensus_parameters_versions_mut().clone();
        let same = imp.len() == m.consensus_versions.len() && m.consensus_versions.iter().all(|(v, pi)| imp.get(v) == Some(&r.psets[*pi]));
        if !same {
            let ik: Vec<(u32, Option<usize>)> = imp.iter().map(|(v, p)| (*v, r.psets.iter().position(|q| q == p))).collect();
            d.push(("consensus", format!("storage versions->set {ik:?} model {:?}", m.consensus_versions)));
        }
    }
    // state transition versions
    {
        let imp: BTreeMap<u32, Id> = st.state_transition_bytecodes_versions_mut().iter().map(|(v, b)| (*v, **b)).collect();
        if imp != m.state_versions {
            d.push(("state-transition", format!("storage {:?} model {:?}", short_map(&imp), short_map(&m.state_versions))));
        }
    }
    // uploaded bytecodes
    {
        let imp: BTreeMap<Id, MUpload> = st
            .state_transition_bytecodes_mut()
            .iter()
            .map(|(k, v)| {
                (**k, match v {
                    UploadedBytecode::Uncompleted { bytecode, uploaded_subsections_number } => MUpload::Uncompleted { bytes: bytecode.clone(), n: *uploaded_subsections_number },
                    UploadedBytecode::Completed(b) => MUpload::Completed(b.clone()),
                })
            })
            .collect();
        if imp != m.uploads {
            d.push(("uploads", format!("storage {:?} model {:?}", imp.values().collect::<Vec<_>>(), m.uploads.values().collect::<Vec<_>>())));
        }
        // the trait-level view must agree with the table
        for root in ids.roots.iter() {
            let t = st.contains_state_transition_bytecode_root(&Bytes32::from(*root)).unwrap_or(false);
            if t != m.is_complete(root) {
                d.push(("uploads", format!("contains_state_transition_bytecode_root({}) = {t}", hex::encode(&root[..4]))));
            }
        }
    }
    // contracts and their slots
    for id in ids.contracts.iter() {
        let imp = StorageInspect::<ContractsRawCode>::get(st, &ContractId::from(*id)).ok().flatten().map(|c| c.as_ref().as_ref().to_vec());
        if imp.as_ref() != m.contracts.get(id) {
            d.push(("contracts", format!("contract {}: storage {:?} model {:?}", hex::encode(&id[..4]), imp.map(HexBytes), m.contracts.get(id).cloned().map(HexBytes))));
        }
    }
    {
        let imp: BTreeMap<(Id, Id), Vec<u8>> = st.all_contract_state().map(|(k, v)| ((**k.contract_id(), **k.state_key()), v.as_ref().to_vec())).collect();
        if imp != m.slots {
            d.push(("slots", format!("storage has {} slots, model {}", imp.len(), m.slots.len())));
        }
    }
    // blobs
    for id in ids.blobs.iter() {
        let imp = st.storage_as_ref::<BlobData>().get(&BlobId::from(*id)).ok().flatten().map(|c| c.as_ref().as_ref().to_vec());
        if imp.as_ref() != m.blobs.get(id) {
            d.push(("blobs", format!("blob {}: storage {:?} model {:?}", hex::encode(&id[..4]), imp.map(HexBytes), m.blobs.get(id).cloned().map(HexBytes))));
        }
    }
    // everything else (stray entries, balances): Debug rendering of a storage built from the model
    if d.is_empty() {
        let exp = render(m, r);
        if storage_fingerprint(st) != storage_fingerprint(&exp) {
            d.push(("other", "Debug rendering of the live tables differs from the rendering of the model".into()));
        }
    }
    d
}

fn short_map(m: &BTreeMap<u32, Id>) -> Vec<(u32, String)> {
    m.iter().map(|(k, v)| (*k, hex::encode(&v[..4]))).collect()
}

/// a `MemoryStorage` holding exactly the model's tables (used for its Debug rendering only)
fn render(m: &Model, r: &Realized) -> MemoryStorage {
    let mut s = MemoryStorage::new_with_versions(BlockHeight::from(HEIGHT), ContractId::zeroed(), m.consensus_version, m.state_version);
    for (id, code) in &m.contracts {
        let _ = StorageWrite::<ContractsRawCode>::write_bytes(&mut s, &ContractId::from(*id), code);
    }
    for ((id, k), v) in &m.slots {
        let _ = s.contract_state_insert(&ContractId::from(*id), &Bytes32::from(*k), v);
    }
    for (id, data) in &m.blobs {
        let _ = StorageWrite::<BlobData>::write_bytes(&mut s, &BlobId::from(*id), data);
    }
    for (root, u) in &m.uploads {
        let v = match u {
            MUpload::Uncompleted { bytes, n } => UploadedBytecode::Uncompleted { bytecode: bytes.clone(), uploaded_subsections_number: *n },
            MUpload::Completed(b) => UploadedBytecode::Completed(b.clone()),
        };
        s.state_transition_bytecodes_mut().insert(Bytes32::from(*root), v);
    }
    for (v, pi) in &m.consensus_versions {
        s.consensus_parameters_versions_mut().insert(*v, r.psets[*pi].clone());
    }
    for (v, root) in &m.state_versions {
        s.state_transition_bytecodes_versions_mut().insert(*v, Bytes32::from(*root));
    }
    s
}

/// put the version maps of `st` back to the model's (used after a deferred F6-class deviation,
/// so that the rest of the history is still compared against an aligned state)
fn repair_versions(st: &mut MemoryStorage, m: &Model, r: &Realized) {
    let cp = st.consensus_parameters_versions_mut();
    cp.clear();
    for (v, pi) in &m.consensus_versions {
        cp.insert(*v, r.psets[*pi].clone());
    }
    let sv = st.state_transition_bytecodes_versions_mut();
    sv.clear();
    for (v, root) in &m.state_versions {
        sv.insert(*v, Bytes32::from(*root));
    }
}

struct Ids {
    contracts: Vec<Id>,
    blobs: Vec<Id>,
    roots: Vec<Id>,
}

// ------------------------------------------------------------------ the check

const DEFERRED: [&str; 2] = ["upgrade:failed-tx-changed-tables:consensus", "upgrade:failed-tx-changed-tables:state-transition"];

fn check(case: &Case, obs: &mut Obs) -> Check {
    let u = &case.uni;
    ensure!(!u.bytecodes.is_empty() && !u.blobs.is_empty() && !u.contracts.is_empty() && !u.params.is_empty(), "harness-empty-universe", "universe tables must not be empty");
    let r = realize(u)?;
    let mut env = Env { params: chain_params(), n: 0, gas_price: case.gas_price };
    let gas_price = env.gas_price;

    // ids of the universe
    let mut ids = Ids { contracts: vec![], blobs: vec![], roots: vec![r.unknown_root] };
    for s in &r.subs {
        if let Some(x) = s.first() {
            ids.roots.push(*x.root);
        }
    }
    for b in &u.blobs {
        let id = sha256(&b.0);
        ensure_eq!(*BlobId::compute(&b.0), id, "blob:id-is-not-sha256", "BlobId::compute");
        ids.blobs.push(id);
    }

    let new_storage = || MemoryStorage::new_with_versions(BlockHeight::from(HEIGHT), ContractId::zeroed(), case.consensus_version, case.state_version);
    let ip = InterpreterParams::new(gas_price, &env.params);
    let mut vm1: Vm<fuel_tx::Script> = Interpreter::with_storage(MemoryInstance::new(), new_storage(), ip.clone());
    let mut st2 = new_storage();
    let mut tr3: Transactor<MemoryInstance, MemoryStorage, fuel_tx::Script> = Transactor::new(MemoryInstance::new(), new_storage(), ip);
    let mut model: Model = Tables::new(case.consensus_version, case.state_version);

    let mut deferred: Option<Failure> = None;
    let mut sig: Vec<(u8, u8, u8)> = vec![];
    let mut interleaved = false;
    let mut stale = false;

    for (step, op) in case.ops.iter().enumerate() {
        // ---- lower the op: model operation + transaction
        let (mop, tx): (Op<usize>, Option<BuiltTx>) = match *op {
            TxOp::Deploy(c) => {
                let c = &u.contracts[c as usize % u.contracts.len()];
                let mut slots: BTreeMap<Id, Id> = BTreeMap::new();
                for (k, v) in &c.slots {
                    slots.entry(k.0).or_insert(v.0);
                }
                let sl: Vec<StorageSlot> = slots.iter().map(|(k, v)| StorageSlot::new(Bytes32::from(*k), Bytes32::from(*v))).collect();
                let mut tb = TransactionBuilder::create(Witness::from(c.code.0.clone()), Salt::from(c.salt.0), sl);
                env.fund(&mut tb);
                tb.add_contract_created();
                let tx = tb.finalize();
                let id = tx
                    .outputs()
                    .iter()
                    .find_map(|o| match o {
                        Output::ContractCreated { contract_id, .. } => Some(<[u8; 32]>::from(*contract_id)),
                        _ => None,
                    })
                    .ok_or_else(|| Failure::new("harness-no-contract-created", "no ContractCreated output"))?;
                if !ids.contracts.contains(&id) {
                    ids.contracts.push(id);
                }
                (Op::Deploy { id, code: c.code.0.clone(), slots: slots.iter().map(|(k, v)| (*k, v.to_vec())).collect() }, Some(BuiltTx::Create(checked!(tx, &env.params, "create")?)))
            }
            TxOp::Blob(b) => {
                let i = b as usize % u.blobs.len();
                let data = u.blobs[i].0.clone();
                let id = ids.blobs[i];
                let mut tb = TransactionBuilder::blob(BlobBody { id: BlobId::from(id), witness_index: 0 });
                tb.add_witness(Witness::from(data.clone()));
                env.fund(&mut tb);
                (Op::Blob { id, data }, Some(BuiltTx::Blob(checked!(tb.finalize(), &env.params, "blob")?)))
            }
            TxOp::Upload { bc, idx } => {
                let subs = &r.subs[bc as usize % r.subs.len()];
                if subs.is_empty() {
                    obs.class("op:upload-of-empty-bytecode-skipped");
                    continue;
                }
                let root: Id = *subs[0].root;
                let i = match idx {
                    Idx::Next => model.next_index(&root).unwrap_or(0) as usize,
                    Idx::Exact(k) => k as usize % subs.len(),
                };
                let s = &subs[i];
                let mut tb = TransactionBuilder::upload(UploadBody {
                    root: s.root,
                    witness_index: 0,
                    subsection_index: s.subsection_index,
                    subsections_number: s.subsections_number,
                    proof_set: s.proof_set.clone(),
                });
                tb.add_witness(Witness::from(s.subsection.clone()));
                env.fund(&mut tb);
                (Op::Upload { root, idx: s.subsection_index, total: s.subsections_number, part: s.subsection.clone() }, Some(BuiltTx::Upload(checked!(tb.finalize(), &env.params, "upload")?)))
            }
            TxOp::UpgradeConsensus(p) => {
                let pi = p as usize % r.psets.len();
                let ser = postcard::to_allocvec(&r.psets[pi]).map_err(|e| Failure::new("harness-postcard", format!("{e}")))?;
                let mut tb = TransactionBuilder::upgrade(UpgradePurpose::ConsensusParameters { witness_index: 0, checksum: Bytes32::from(sha256(&ser)) });
                tb.add_witness(Witness::from(ser));
                env.fund(&mut tb);
                (Op::UpgradeConsensus { params: pi }, Some(BuiltTx::Upgrade(checked!(tb.finalize(), &env.params, "upgrade-consensus")?)))
            }
            TxOp::UpgradeState(sel) => {
                let root = match sel {
                    RootSel::Unknown => r.unknown_root,
                    RootSel::Bytecode(b) => r.subs[b as usize % r.subs.len()].first().map(|s| *s.root).unwrap_or(r.unknown_root),
                    RootSel::Complete(k) => {
                        let done: Vec<Id> = model.uploads.iter().filter(|(_, v)| matches!(v, MUpload::Completed(_))).map(|(k, _)| *k).collect();
                        if done.is_empty() {
                            r.subs[k as usize % r.subs.len()].first().map(|s| *s.root).unwrap_or(r.unknown_root)
                        } else {
                            done[k as usize % done.len()]
                        }
                    }
                };
                let mut tb = TransactionBuilder::upgrade(UpgradePurpose::StateTransition { root: Bytes32::from(root) });
                env.fund(&mut tb);
                (Op::UpgradeState { root }, Some(BuiltTx::Upgrade(checked!(tb.finalize(), &env.params, "upgrade-state")?)))
            }
            TxOp::BumpConsensus => (Op::BumpConsensus, None),
            TxOp::BumpState => (Op::BumpState, None),
        };

        // ---- classification (before the model moves)
        let code: u8 = match &mop {
            Op::Deploy { id, .. } => {
                if model.contracts.contains_key(id) { obs.class("op:redeploy"); 1 } else { 0 }
            }
            Op::Blob { id, .. } => {
                if model.blobs.contains_key(id) { obs.class("op:blob-duplicate"); 3 } else { 2 }
            }
            Op::Upload { root, idx, .. } => {
                let others_open = model.uploads.iter().any(|(k, v)| k != root && matches!(v, MUpload::Uncompleted { .. }));
                match model.next_index(root) {
                    None => { obs.class("op:upload-after-completion"); 4 }
                    Some(n) if n == *idx => {
                        if others_open {
                            interleaved = true;
                            obs.class("op:upload-accepted-while-other-root-open");
                        }
                        5
                    }
                    Some(n) if *idx < n => { obs.class("op:upload-duplicate"); 6 }
                    Some(_) => { obs.class("op:upload-ahead"); 7 }
                }
            }
            Op::UpgradeConsensus { .. } => {
                if model.consensus_versions.contains_key(&(model.consensus_version + 1)) { stale = true; obs.class("op:upgrade-consensus-stale"); 9 } else { 8 }
            }
            Op::UpgradeState { root } => {
                let taken = model.state_versions.contains_key(&(model.state_version + 1));
                let known = model.is_complete(root);
                if taken && known { stale = true; obs.class("op:upgrade-state-stale"); }
                if !known {
                    obs.class(if *root == r.unknown_root { "op:upgrade-state-unknown-root" } else { "op:upgrade-state-incomplete-root" });
                }
                10 + (taken as u8) * 2 + (known as u8)
            }
            Op::BumpConsensus => 14,
            Op::BumpState => 15,
        };

        // ---- model
        let before = model.clone();
        let exp = model.step(&mop);
        sig.push((code, matches!(exp, Expect::Ok) as u8, model.uploads.len() as u8));

        let Some(tx) = tx else {
            // block producer: bump the version on all three storages
            match mop {
                Op::BumpConsensus => {
                    vm1.as_mut().set_consensus_parameters_version(model.consensus_version);
                    st2.set_consensus_parameters_version(model.consensus_version);
                    tr3.as_mut().set_consensus_parameters_version(model.consensus_version);
                }
                _ => {
                    vm1.as_mut().set_state_transition_version(model.state_version);
                    st2.set_state_transition_version(model.state_version);
                    tr3.as_mut().set_state_transition_version(model.state_version);
                }
            }
            continue;
        };
        let kind = tx.kind();
        let ukind = match &mop {
            Op::UpgradeConsensus { .. } => "upgrade-consensus",
            Op::UpgradeState { .. } => "upgrade-state",
            _ => kind,
        };
        match &exp {
            Expect::Ok => obs.class(&format!("result:{ukind}:ok")),
            Expect::Panic(v) => obs.class(&format!("result:{ukind}:{:?}", v[0])),
        }

        // ---- implementation, three paths
        let o1 = run_direct(&mut vm1, &tx, gas_price)?;
        let o2 = run_transact(&mut st2, &tx, gas_price, &env.params)?;
        let o3 = run_transactor(&mut tr3, &tx);
        let name = |o: &Outcome| match o {
            Outcome::Ok => "ok".to_string(),
            Outcome::Panic(p) => format!("{p:?}"),
            Outcome::Other(_) => "other-error".to_string(),
        };
        for (path, o) in [("interpreter", &o1), ("transact", &o2), ("transactor", &o3)] {
            let good = match (&exp, o) {
                (Expect::Ok, Outcome::Ok) => true,
                (Expect::Panic(set), Outcome::Panic(p)) => set.iter().any(|x| reason_of(*x) == *p),
                _ => false,
            };
            if !good {
                let e = match &exp {
                    Expect::Ok => "ok".to_string(),
                    Expect::Panic(set) => set.iter().map(|x| format!("{x:?}")).collect::<Vec<_>>().join("|"),
                };
                return Err(Failure::new(
                    format!("{ukind}:expected-{e}:got-{}", name(o)),
                    format!("step {step} {op:?} via {path}: model expects {exp:?}, implementation returned {o:?}"),
                ));
            }
        }

        // ---- tables, three storages
        let failed = !matches!(exp, Expect::Ok);
        if failed {
            debug_assert_eq!(before, model);
        }
        let mut storages: [(&str, &mut MemoryStorage); 3] = [("interpreter", vm1.as_mut()), ("transact", &mut st2), ("transactor", tr3.as_mut())];
        for (path, st) in storages.iter_mut() {
            let d = diff_tables(st, &model, &r, &ids);
            if let Some((table, detail)) = d.first() {
                let key = if failed { format!("{kind}:failed-tx-changed-tables:{table}") } else { format!("{kind}:tables-differ-after-success:{table}") };
                let f = Failure::new(key.clone(), format!("step {step} {op:?} via {path} ({}): {detail}", if failed { "transaction failed as expected, but the tables changed" } else { "transaction succeeded" }));
                if DEFERRED.contains(&key.as_str()) && d.iter().all(|(t, _)| *t == "consensus" || *t == "state-transition") {
                    // F6 class: remember it, realign the version maps and keep checking the rest of the history
                    obs.class("deviation:failed-upgrade-overwrote-version-entry");
                    if deferred.is_none() {
                        deferred = Some(f);
                    }
                    repair_versions(st, &model, &r);
                    let again = diff_tables(st, &model, &r, &ids);
                    if let Some((t, detail)) = again.first() {
                        return Err(Failure::new(format!("{kind}:failed-tx-changed-tables:{t}"), format!("step {step} {op:?} via {path}: {detail}")));
                    }
                } else {
                    return Err(f);
                }
            }
            if case.commit_revert {
                if failed {
                    st.revert();
                } else {
                    st.commit();
                }
                let d = diff_tables(st, &model, &r, &ids);
                if let Some((table, detail)) = d.first() {
                    return Err(Failure::new(
                        format!("{kind}:tables-differ-after-{}:{table}", if failed { "revert" } else { "commit" }),
                        format!("step {step} {op:?} via {path}: {detail}"),
                    ));
                }
            }
        }
    }

    // ---- classes
    if interleaved {
        obs.class("interleaved-uploads");
    }
    if stale {
        obs.class("upgrade-against-stale-version");
    }
    if model.uploads.values().any(|v| matches!(v, MUpload::Completed(_))) {
        obs.class("some-upload-completed");
    }
    if !model.state_versions.is_empty() {
        obs.class("state-transition-installed");
    }
    if interleaved || stale {
        obs.class("nontrivial");
        obs.nontrivial(&(&sig, case.commit_revert));
    }
    match deferred {
        Some(f) => Err(f),
        None => Ok(()),
    }
}

// ------------------------------------------------------------------ strategies

fn small_code() -> impl Strategy<Value = HexBytes> {
    prop_oneof![
        3 => prop::collection::vec(any::<u8>(), 1..=12),
        2 => prop::collection::vec(any::<u8>(), 13..=70),
        1 => (1usize..=9).prop_map(|n| vec![0xab; n]),
    ]
    .prop_map(HexBytes)
}

fn universe() -> impl Strategy<Value = Universe> {
    (
        prop::collection::vec((small_code(), 1u8..=4), 2..=3),
        prop::bool::weighted(0.15),
        prop::collection::vec(prop_oneof![4 => small_code(), 1 => Just(HexBytes(vec![]))], 2..=2),
        prop::collection::vec((small_code(), b32(), prop::collection::vec((b32(), b32()), 0..4)), 2..=2),
        prop::bool::weighted(0.2),
        prop::collection::vec(prop_oneof![Just(1000u64), Just(30_000_000u64), any::<u64>()], 2..=2),
    )
        .prop_map(|(bcs, same_bytes, blobs, contracts, same_code, params)| {
            let mut bytecodes: Vec<BytecodeSpec> = bcs.into_iter().map(|(bytes, parts)| BytecodeSpec { bytes, parts }).collect();
            if same_bytes {
                // the same bytes under a different (or the same) split
                bytecodes[1].bytes = bytecodes[0].bytes.clone();
            }
            let mut contracts: Vec<ContractDef> = contracts.into_iter().map(|(code, salt, slots)| ContractDef { code, salt, slots }).collect();
            if same_code {
                contracts[1].code = contracts[0].code.clone();
            }
            Universe { bytecodes, blobs, contracts, params }
        })
}

fn tx_op() -> impl Strategy<Value = TxOp> {
    prop_oneof![
        3 => (0u8..2).prop_map(TxOp::Deploy),
        3 => (0u8..2).prop_map(TxOp::Blob),
        10 => (0u8..3, prop_oneof![5 => Just(Idx::Next), 3 => (0u8..4).prop_map(Idx::Exact)]).prop_map(|(bc, idx)| TxOp::Upload { bc, idx }),
        4 => (0u8..2).prop_map(TxOp::UpgradeConsensus),
        5 => prop_oneof![3 => (0u8..3).prop_map(RootSel::Bytecode), 4 => (0u8..3).prop_map(RootSel::Complete), 1 => Just(RootSel::Unknown)].prop_map(TxOp::UpgradeState),
        1 => Just(TxOp::BumpConsensus),
        1 => Just(TxOp::BumpState),
    ]
}

fn version() -> impl Strategy<Value = u32> {
    prop_oneof![3 => Just(0u32), 2 => 0u32..200, 1 => Just(u32::MAX - 40)]
}

pub fn case() -> impl Strategy<Value = Case> {
    (universe(), version(), version(), 0u64..3, any::<bool>(), prop::collection::vec(tx_op(), 0..=12))
        .prop_map(|(uni, consensus_version, state_version, gas_price, commit_revert, ops)| Case { uni, consensus_version, state_version, gas_price, commit_revert, ops })
}

pub fn property() -> Property {
    Property {
        id: "C35",
        rule: "histories vec(TxOp, 0..=12) over a universe of 2-3 bytecodes (1..=70 bytes, split into 1-4 subsections by UploadSubsection::split_bytecode; occasionally equal bytes), 2 blobs, 2 contracts (occasionally equal code, different salt), 2 consensus-parameter sets; ops Deploy/Blob/Upload(bytecode, next|exact index)/UpgradeConsensus/UpgradeState(root of a bytecode|a completed root|unknown)/BumpConsensus/BumpState; every op is a valid signed transaction executed on three paths (Interpreter::{deploy,blob,upload,upgrade}, Interpreter<_,_,Kind>::transact, Transactor::{deploy,..}) each over its own MemoryStorage, compared after every op with model::tables (result or admissible panic reasons; contracts+slots, blobs, uploaded bytecodes, both version maps, version numbers, plus the Debug rendering for stray entries); optionally the harness commits/reverts like a client and compares again. Non-trivial = an upload accepted while another root is partially uploaded, or an upgrade against a version that is already taken; distinct by the sequence of (op class, expected result, number of roots)".into(),
        assumptions: vec![
            "model::tables (written from the statement) and model::rfc6962".into(),
            "transactions are built with TransactionBuilder and accepted by into_checked (C19 covers validity)".into(),
            "MemoryStorage Debug output is a faithful rendering of its tables; the test-helper accessors return the live tables".into(),
            "contract ids are taken from the ContractCreated output (C15 covers the id formula); blob ids are checked against sha2".into(),
            "versions stay below u32::MAX (saturating_add at the top is outside the domain)".into(),
        ],
        parts: vec![gen_part("histories", "universe × op history", (40_000, 1_000_000), |_c: &Ctx| case(), check)],
        floors: vec![("histories", "nontrivial", 0.25), ("histories", "interleaved-uploads", 0.10), ("histories", "upgrade-against-stale-version", 0.10), ("histories", "some-upload-completed", 0.15)],
    }
}
