//! C28 — Execution outcomes and receipts are well formed.
//!
//! Parts:
//! * `outcomes`        failure-heavy G-PROG worlds, single-stepped: receipt grammar, result vs last
//!                     executed instruction, receipts root, Call/Return nesting, outputs after
//!                     revert/panic, and the same world through `MemoryClient` (contracts present and
//!                     committed in the client's storage): storage after a failed script == before.
//! * `receipt-limit`   hand-built LOG loops around the 65 535 receipt limit, in the script and in a
//!                     called contract, ended by RET / RETD / RVRT / a panicking instruction / more LOGs.
//! * `client-deploy`   worlds whose contracts are deployed through `MemoryClient::deploy` with real
//!                     `Create` transactions (real contract ids), nothing else touching the storage.
use crate::engine::*;
use crate::gens::tx::HexBytes;
use crate::model::ledger::{self, Id};
use crate::model::rfc6962;
use crate::props::c27::{model_refund, script_result, tx_funds, OP_BURN, OP_MINT, OP_RET, OP_RETD, OP_RVRT, OP_TR};
use crate::vm::prog::{self, Tpl, Val};
use crate::vm::world::{self, run_stepping, storage_fingerprint, ContractSpec, RunOut, Sched, WorldSpec};
use crate::{ensure, ensure_eq, fail};
use fuel_asm::{op, PanicReason, RegId};
use fuel_tx::field::{Inputs, Outputs, Policies as _, ReceiptsRoot, Script as _, ScriptGasLimit, Witnesses};
use fuel_tx::{Finalizable, Input, Output, Receipt, ScriptExecutionResult, Signable, StorageSlot, Transaction, TransactionBuilder, TxPointer, UtxoId, Witness};
use fuel_types::canonical::Serialize as _;
use fuel_types::{AssetId, Bytes32, ContractId, Salt};
use fuel_vm::checked_transaction::{Checked, IntoChecked};
use fuel_vm::interpreter::{InterpreterParams, MemoryInstance};
use fuel_vm::memory_client::MemoryClient;
use fuel_vm::state::ProgramState;
use fuel_vm::storage::{InterpreterStorage, MemoryStorage};
use proptest::prelude::*;
use serde::{Deserialize, Serialize};
use std::cell::RefCell;
use std::collections::BTreeMap;

pub const MAX_RECEIPTS: usize = 65_535;

const STATE_WRITE_OPS: &[u8] = &[0x37, 0x3a, 0x3b, 0xc0, 0xc3, 0xc4, 0xc5, 0xc6, OP_TR, OP_MINT, OP_BURN];

/// what the stepping monitor remembers
#[derive(Debug, Clone, Default)]
pub struct Trace {
    pub steps: u64,
    pub last_op: Option<u8>,
    pub last_depth: usize,
    pub max_depth: usize,
    /// a storage / balance writing instruction completed at call depth >= 1
    pub wrote_in_call: bool,
    /// ... at depth >= 2
    pub wrote_in_nested_call: bool,
}

pub fn is_failed(result: ScriptExecutionResult) -> bool {
    result != ScriptExecutionResult::Success
}

/// Grammar `body* [Panic] ScriptResult`, panic ⇔ result, length, root, nesting, state consistency.
/// Returns (result, gas_used).
pub fn check_receipts(out: &RunOut, obs: &mut Obs) -> Result<(ScriptExecutionResult, u64), Failure> {
    let rs = &out.receipts;
    ensure!(rs.len() <= MAX_RECEIPTS, "receipts:more-than-65535", "{} receipts", rs.len());
    let (result, gas_used) = script_result(rs).ok_or_else(|| Failure::new("receipts:last-is-not-script-result", format!("last receipt: {:?}", rs.last())))?;
    let n = rs.len();
    for (i, r) in rs.iter().enumerate() {
        match r {
            Receipt::ScriptResult { .. } => ensure!(i == n - 1, "receipts:script-result-not-last", "ScriptResult at {i} of {n}"),
            Receipt::Panic { .. } => ensure!(i + 2 == n, "receipts:panic-not-directly-before-script-result", "Panic at {i} of {n}"),
            _ => {}
        }
    }
    let has_panic = n >= 2 && matches!(rs[n - 2], Receipt::Panic { .. });
    let is_panic = matches!(result, ScriptExecutionResult::Panic);
    ensure!(has_panic == is_panic, if is_panic { "receipts:panic-result-without-panic-receipt" } else { "receipts:panic-receipt-without-panic-result" }, "result {result:?}, panic receipt present: {has_panic}");
    ensure!(!matches!(result, ScriptExecutionResult::GenericFailure(_)), "receipts:generic-failure-result", "VM produced {result:?}");
    // the receipt that ends the body
    let tail = if n >= 2 { Some(&rs[n - 2]) } else { None };
    match result {
        ScriptExecutionResult::Success => {
            ensure!(matches!(tail, Some(Receipt::Return { id, .. } | Receipt::ReturnData { id, .. }) if *id == ContractId::zeroed()), "receipts:success-without-top-level-return-receipt", "receipt before ScriptResult: {tail:?}");
            ensure!(matches!(out.state, Ok(ProgramState::Return(_) | ProgramState::ReturnData(_))), "state:success-but-not-return-state", "state {:?}", out.state);
        }
        ScriptExecutionResult::Revert => {
            ensure!(matches!(tail, Some(Receipt::Revert { .. })), "receipts:revert-without-revert-receipt", "receipt before ScriptResult: {tail:?}");
            ensure!(matches!(out.state, Ok(ProgramState::Revert(_))), "state:revert-but-not-revert-state", "state {:?}", out.state);
        }
        _ => {
            ensure!(matches!(out.state, Ok(ProgramState::Revert(_))), "state:panic-but-not-revert-state", "state {:?}", out.state);
        }
    }
    // Revert / top-level Return receipts end the body: nothing but [Panic] ScriptResult may follow them
    for (i, r) in rs.iter().enumerate() {
        let ends = match r {
            Receipt::Revert { .. } => true,
            Receipt::Return { id, .. } | Receipt::ReturnData { id, .. } => *id == ContractId::zeroed(),
            _ => false,
        };
        if ends {
            ensure!(i + 2 == n, "receipts:body-continues-after-terminal-receipt", "{r:?} at {i} of {n}");
        }
    }
    // receipts root
    let leaves: Vec<Vec<u8>> = rs.iter().map(|r| r.to_bytes()).collect();
    let want = rfc6962::mth(&leaves);
    ensure!(**out.tx.receipts_root() == want, "receipts-root:differs-from-rfc6962-tree-hash", "tx.receipts_root {} != MTH {} over {} receipts", hex::encode(**out.tx.receipts_root()), hex::encode(want), n);
    // Call / Return nesting; every receipt names the context that produced it
    let mut stack: Vec<ContractId> = vec![];
    for (i, r) in rs.iter().enumerate() {
        let cur = stack.last().copied().unwrap_or_default();
        match r {
            Receipt::Call { id, to, .. } => {
                ensure!(*id == cur, "receipts:call-names-wrong-caller", "receipt {i} {r:?} while executing {cur}");
                stack.push(*to);
            }
            Receipt::Return { id, .. } | Receipt::ReturnData { id, .. } => {
                ensure!(*id == cur, "receipts:return-does-not-match-open-call", "receipt {i} {r:?} while executing {cur}");
                stack.pop();
            }
            Receipt::Panic { id, reason, .. } => {
                // observed quirk (not part of the statement): RET/RETD of a called contract pops the call
                // frame before its Return receipt is refused at the receipt limit, so the Panic receipt
                // carries the caller's id / pc / is
                let op = (*reason.instruction() >> 24) as u8;
                let parent = if stack.len() >= 2 { stack[stack.len() - 2] } else { ContractId::zeroed() };
                let ret_at_limit = *reason.reason() == PanicReason::TooManyReceipts && matches!(op, OP_RET | OP_RETD) && !stack.is_empty() && *id == parent;
                if ret_at_limit && *id != cur {
                    obs.class("panic-receipt-names-caller(ret-refused-at-receipt-limit)");
                } else {
                    ensure!(*id == cur, "receipts:context-id-differs-from-open-call", "receipt {i} {r:?} while executing {cur}");
                }
            }
            Receipt::Revert { id, .. } | Receipt::Log { id, .. } | Receipt::LogData { id, .. } | Receipt::Transfer { id, .. } | Receipt::TransferOut { id, .. } => {
                ensure!(*id == cur, "receipts:context-id-differs-from-open-call", "receipt {i} {r:?} while executing {cur}");
            }
            Receipt::Mint { contract_id, .. } | Receipt::Burn { contract_id, .. } => {
                ensure!(*contract_id == cur && !stack.is_empty(), "receipts:context-id-differs-from-open-call", "receipt {i} {r:?} while executing {cur}");
            }
            Receipt::MessageOut { .. } | Receipt::ScriptResult { .. } => {}
        }
    }
    if result == ScriptExecutionResult::Success {
        ensure!(stack.is_empty(), "receipts:unbalanced-call-return-on-success", "{} calls still open at the end of a successful script", stack.len());
    }
    obs.class(&format!("result:{result:?}"));
    if let Some(Receipt::Panic { reason, .. }) = tail {
        obs.class(&format!("panic:{:?}", reason.reason()));
        if !stack.is_empty() {
            obs.class("panic-inside-call");
        }
    }
    if let (Some(Receipt::Revert { .. }), false) = (tail, stack.is_empty()) {
        obs.class("revert-inside-call");
    }
    Ok((result, gas_used))
}

/// outputs after revert / panic: variable outputs zero, change = initial free balance (+ refund for base)
pub fn check_failed_outputs(b: &world::Built, spec: &WorldSpec, out: &RunOut, gas_used: u64) -> Check {
    let base = *b.params.base_asset_id();
    let funds = tx_funds(b.checked.transaction(), &base, b.max_fee_limit);
    let refund = model_refund(b, spec, gas_used)? as u128;
    let before = b.checked.transaction().outputs();
    let after = out.tx.outputs();
    ensure_eq!(before.len(), after.len(), "failed:output-count-changed", "outputs");
    for (i, (o0, o1)) in before.iter().zip(after.iter()).enumerate() {
        match o1 {
            Output::Variable { amount, .. } => {
                ensure!(matches!(o0, Output::Variable { .. }), "failed:output-kind-changed", "output {i}");
                ensure!(*amount == 0, "failed:variable-output-not-zeroed", "output {i}: variable output holds {amount} after a failed script");
            }
            Output::Change { amount, asset_id, to } => {
                ensure!(matches!(o0, Output::Change { asset_id: a0, to: t0, .. } if a0 == asset_id && t0 == to), "failed:output-kind-changed", "output {i}");
                let want = funds.initial_free(asset_id, false).ok_or_else(|| Failure::new("harness-funds", "negative initial balance"))? + if *asset_id == base { refund } else { 0 };
                let key = if *asset_id == base { "failed:base-change-is-not-initial-balance-plus-refund" } else { "failed:change-is-not-initial-balance" };
                ensure!(*amount as u128 == want, key, "output {i} asset {}: change {amount}, initial free balance (+refund {refund}) {want}, gas_used {gas_used}", hex::encode(&asset_id[..6]));
            }
            other => ensure!(o0 == other, "failed:static-output-changed", "output {i}: {o0:?} -> {other:?}"),
        }
    }
    Ok(())
}

fn new_client(storage: MemoryStorage, b: &world::Built) -> MemoryClient<MemoryInstance> {
    MemoryClient::new(MemoryInstance::new(), storage, InterpreterParams::new(b.gas_price, &b.params))
}

#[derive(Debug, Clone, Serialize, Deserialize)]
pub struct Case {
    pub world: WorldSpec,
}

fn check_outcomes(case: &Case, obs: &mut Obs) -> Check {
    let spec = &case.world;
    let b = match spec.build() {
        Ok(b) => b,
        Err(_) => {
            obs.class("world-invalid");
            return Ok(());
        }
    };
    let ready = match b.ready() {
        Ok(r) => r,
        Err(_) => {
            obs.class("world-not-ready");
            return Ok(());
        }
    };
    let tr = RefCell::new(Trace::default());
    let pending: RefCell<Option<(u8, usize)>> = RefCell::new(None);
    let mut vm = b.new_vm(b.storage.clone());
    let out = run_stepping(
        &mut vm,
        ready,
        b.gas_limit + 16,
        |s| {
            let mut t = tr.borrow_mut();
            t.steps = s.index + 1;
            t.last_op = s.raw.map(|w| (w >> 24) as u8);
            t.last_depth = s.vm.verif_call_depth();
            t.max_depth = t.max_depth.max(t.last_depth);
            *pending.borrow_mut() = t.last_op.map(|o| (o, t.last_depth));
        },
        |_vm, ended| {
            // the instruction completed without ending the script: its writes happened
            if !ended {
                if let Some((o, d)) = *pending.borrow() {
                    if STATE_WRITE_OPS.contains(&o) && d >= 1 {
                        let mut t = tr.borrow_mut();
                        t.wrote_in_call = true;
                        if d >= 2 {
                            t.wrote_in_nested_call = true;
                        }
                    }
                }
            }
        },
    )
    .map_err(|e| Failure::new("harness-step-budget", e))?;
    let tr = tr.into_inner();
    obs.note("steps", tr.steps);
    if let Err(e) = &out.state {
        // not a completed execution (VM error); C29 judges those
        obs.class(&format!("vm-error:{}", e.split('(').next().unwrap_or("?")));
    } else {
        let (result, gas_used) = check_receipts(&out, obs)?;
        // result vs the last executed instruction
        let top_ret = matches!(tr.last_op, Some(OP_RET | OP_RETD)) && tr.last_depth == 0;
        let rvrt = tr.last_op == Some(OP_RVRT);
        match result {
            ScriptExecutionResult::Success => ensure!(top_ret, "result:success-without-top-level-ret", "last instruction {:?} at depth {}", tr.last_op, tr.last_depth),
            ScriptExecutionResult::Revert => ensure!(rvrt, "result:revert-without-rvrt", "last instruction {:?}", tr.last_op),
            _ => {}
        }
        // (conversely an execution that ended on anything else must be a panic — implied by the grammar
        // check: no Panic receipt ⇒ result ∈ {Success, Revert} ⇒ last instruction is RET/RETD at depth 0 / RVRT)
        if top_ret && result != ScriptExecutionResult::Success {
            obs.class("top-level-ret-that-panicked");
        }
        if rvrt && result != ScriptExecutionResult::Revert {
            obs.class("rvrt-that-panicked");
        }
        if is_failed(result) {
            check_failed_outputs(&b, spec, &out, gas_used)?;
            obs.class(&format!("failed-at-depth:{}", tr.last_depth.min(3)));
            if tr.last_depth >= 1 && tr.wrote_in_call {
                obs.class("failed-in-call-after-state-write");
                obs.nontrivial(&(tr.steps, out.receipts.len(), tr.last_op, tr.last_depth, gas_used));
            }
            if tr.last_depth >= 2 && tr.wrote_in_nested_call {
                obs.class("failed-at-depth>=2-after-write-at-depth>=2");
            }
            if out.tx.outputs().iter().any(|o| matches!(o, Output::Variable { to, asset_id, .. } if *to != Default::default() || *asset_id != AssetId::zeroed())) {
                obs.class("failed:variable-output-keeps-recipient-or-asset");
            }
        }
    }

    // the same world through the in-memory client (contracts present and committed)
    let before = storage_fingerprint(&b.storage);
    let mut client = new_client(b.storage.clone(), &b);
    let got: Vec<Receipt> = client.transact(b.checked.clone()).to_vec();
    let after = storage_fingerprint(client.as_ref());
    match &out.state {
        Err(_) => {
            ensure!(after == before, "memory-client:storage-changed-by-errored-script", "storage differs after a script that ended with a VM error");
        }
        Ok(_) => {
            ensure_eq!(got, out.receipts, "memory-client:receipts-differ-from-interpreter", "receipts of MemoryClient::transact vs Interpreter::transact");
            let failed = script_result(&got).map(|(r, _)| is_failed(r)).unwrap_or(true);
            if failed {
                if after != before {
                    let diff = first_diff(&before, &after);
                    fail!("memory-client:storage-changed-by-failed-script", "storage after a reverting/panicking script differs from the storage before: {diff}");
                }
                if storage_fingerprint(vm.as_ref()) != before {
                    obs.class("bare-interpreter-storage-dirty-after-failure");
                }
            } else {
                ensure!(after == storage_fingerprint(vm.as_ref()), "memory-client:storage-differs-from-interpreter-after-success", "{}", first_diff(&storage_fingerprint(vm.as_ref()), &after));
                if after != before {
                    obs.class("success-changed-storage");
                }
            }
        }
    }
    Ok(())
}

fn first_diff(a: &str, b: &str) -> String {
    let i = a.bytes().zip(b.bytes()).position(|(x, y)| x != y).unwrap_or(a.len().min(b.len()));
    let lo = i.saturating_sub(120);
    let cut = |s: &str| s.get(lo..(i + 120).min(s.len())).unwrap_or("").to_string();
    format!("at byte {i}: before[..]=…{}… after[..]=…{}…", cut(a), cut(b))
}

// ------------------------------------------------------------------ receipt limit

#[derive(Debug, Clone, Serialize, Deserialize)]
pub struct LimitCase {
    /// number of LOG instructions the loop tries to execute
    pub logs: u32,
    /// 0 RET, 1 RETD, 2 RVRT, 3 panicking instruction (division by zero), 4 eight more LOGs then RET
    pub ending: u8,
    /// loop runs in a called contract instead of the script
    pub in_contract: bool,
    /// LOGD instead of LOG
    pub logd: bool,
}

fn raw(i: fuel_asm::Instruction) -> Tpl {
    Tpl::Raw(i.into())
}

fn limit_world(c: &LimitCase) -> WorldSpec {
    let mut body = vec![raw(op::movi(0x20, c.logs.max(1)))];
    body.push(if c.logd { raw(op::logd(RegId::ZERO, RegId::ZERO, prog::R_HA, 0x23)) } else { raw(op::log(0x20, RegId::ZERO, RegId::ZERO, RegId::ZERO)) });
    body.push(raw(op::subi(0x20, 0x20, 1)));
    body.push(raw(op::jnzb(0x20, RegId::ZERO, 1)));
    match c.ending {
        0 => body.push(Tpl::Ret { v: Val::Imm(1) }),
        1 => body.push(raw(op::retd(prog::R_HA, 0x23))),
        2 => body.push(Tpl::Rvrt { v: Val::Imm(7) }),
        3 => body.push(raw(op::div(0x21, RegId::ONE, RegId::ZERO))),
        _ => {
            for _ in 0..8 {
                body.push(raw(op::log(RegId::ONE, RegId::ZERO, RegId::ZERO, RegId::ZERO)));
            }
            body.push(Tpl::Ret { v: Val::Imm(1) });
        }
    }
    let (script, contracts) = if c.in_contract {
        (
            vec![Tpl::Call { call: 0, coins: Val::Imm(0), asset: 0, gas: Val::Reg(RegId::CGAS.to_u8()) }, Tpl::Ret { v: Val::Imm(2) }],
            vec![ContractSpec { body, balances: vec![], slots: vec![], listed: true }],
        )
    } else {
        (body, vec![])
    };
    WorldSpec {
        sched: Sched::Unit,
        gas_price: 0,
        price_factor: 1,
        gas_per_byte: 0,
        tip: 0,
        gas_limit: 3_000_000,
        base_extra: 1000,
        contracts,
        blobs: vec![],
        coins: vec![],
        msg_coin: None,
        msg_data: None,
        change: vec![0],
        variables: 1,
        coin_outs: vec![],
        script,
        calls: vec![(0, 0, 0)],
        keys: vec![],
        words: [0; 8],
        raw: HexBytes(vec![0u8; 64]),
        height: 0,
        dag: true,
        alt_base: false,
    }
}

/// What the receipt rule predicts: a body receipt may be appended only while fewer than 65 533
/// receipts exist (the last two slots are reserved for `[Panic] ScriptResult`); an instruction
/// that would append one beyond that panics with TooManyReceipts.
fn limit_expectation(c: &LimitCase) -> (ScriptExecutionResult, Option<PanicReason>, usize) {
    let body_max = MAX_RECEIPTS - 2;
    // body receipts produced before the loop: the Call receipt
    let mut n = if c.in_contract { 1usize } else { 0 };
    let logs = c.logs.max(1) as usize;
    let too_many = |n: usize| (ScriptExecutionResult::Panic, Some(PanicReason::TooManyReceipts), n + 2);
    if n + logs > body_max {
        return too_many(body_max);
    }
    n += logs;
    match c.ending {
        3 => (ScriptExecutionResult::Panic, Some(PanicReason::ArithmeticError), n + 2),
        2 => {
            if n + 1 > body_max { too_many(n) } else { (ScriptExecutionResult::Revert, None, n + 2) }
        }
        e => {
            if e == 4 {
                if n + 8 > body_max {
                    return too_many(body_max);
                }
                n += 8;
            }
            // the contract's return, then the script's return
            let rets = if c.in_contract { 2 } else { 1 };
            if n + rets > body_max { too_many((n + rets - 1).min(body_max)) } else { (ScriptExecutionResult::Success, None, n + rets + 1) }
        }
    }
}

fn check_limit(c: &LimitCase, obs: &mut Obs) -> Check {
    let spec = limit_world(c);
    let b = spec.build().map_err(|e| Failure::new("harness-limit-world", e))?;
    let (out, _st) = b.run_plain().map_err(|e| Failure::new("harness-run", e))?;
    ensure!(out.state.is_ok(), "limit:vm-error-at-receipt-limit", "state {:?} with {} receipts", out.state, out.receipts.len());
    let (result, gas_used) = check_receipts(&out, obs)?;
    let (want_result, want_reason, want_len) = limit_expectation(c);
    let reason = match out.receipts.iter().rev().nth(1) {
        Some(Receipt::Panic { reason, .. }) => Some(*reason.reason()),
        _ => None,
    };
    ensure!(!matches!(reason, Some(PanicReason::OutOfGas)), "harness-limit-gas", "gas budget of the limit world too small");
    ensure_eq!((result, reason, out.receipts.len()), (want_result, want_reason, want_len), "limit:outcome-differs-from-receipt-rule", "(result, panic reason, receipt count) for {c:?}");
    if is_failed(result) {
        check_failed_outputs(&b, &spec, &out, gas_used)?;
    }
    // the client at the limit
    let before = storage_fingerprint(&b.storage);
    let mut client = new_client(b.storage.clone(), &b);
    let got = client.transact(b.checked.clone()).to_vec();
    ensure!(got == out.receipts, "memory-client:receipts-differ-from-interpreter", "at the receipt limit");
    if is_failed(result) {
        ensure!(storage_fingerprint(client.as_ref()) == before, "memory-client:storage-changed-by-failed-script", "at the receipt limit");
    }
    obs.class(&format!("len:{}", if out.receipts.len() == MAX_RECEIPTS { "65535".to_string() } else if out.receipts.len() == MAX_RECEIPTS - 1 { "65534".to_string() } else { "<65534".to_string() }));
    if reason == Some(PanicReason::TooManyReceipts) {
        obs.nontrivial(&(c.logs, c.ending, c.in_contract, c.logd));
    }
    Ok(())
}

fn limit_cases(tier: Tier, shard: usize, nshards: usize, sink: &mut dyn FnMut(LimitCase) -> bool) {
    // quick: the boundary itself; thorough: the whole lattice
    let quick = tier == Tier::Quick;
    let logs_all: &[u32] = if quick { &[65_531, 65_532, 65_533, 65_534, 65_536] } else { &[1, 65_520, 65_528, 65_529, 65_530, 65_531, 65_532, 65_533, 65_534, 65_535, 65_536, 70_000] };
    let endings: &[u8] = if quick { &[0, 2, 3, 4] } else { &[0, 1, 2, 3, 4] };
    let mut k = 0usize;
    for &logs in logs_all {
        for &ending in endings {
            for in_contract in [false, true] {
                for logd in [false, true] {
                    if logd && if quick { logs != 65_533 || !matches!(ending, 0 | 3) } else { !(65_530..=65_534).contains(&logs) } {
                        continue;
                    }
                    k += 1;
                    if k % nshards != shard {
                        continue;
                    }
                    if !sink(LimitCase { logs, ending, in_contract, logd }) {
                        return;
                    }
                }
            }
        }
    }
}

// ------------------------------------------------------------------ MemoryClient::deploy

#[derive(Debug, Clone, Serialize, Deserialize)]
pub struct DeployCase {
    pub world: WorldSpec,
    /// run a trivial successful script between the deployments and the world's script
    pub warm: bool,
}

pub struct Deployed {
    pub creates: Vec<Checked<fuel_tx::Create>>,
    pub ids: Vec<ContractId>,
    pub script: Checked<fuel_tx::Script>,
}

/// Re-target a built world at real contract ids: `Create` transactions for the world's contracts
/// (code and 32-byte slots of the spec), and the world's script with the id tables, Call structs,
/// minted-asset entries and contract inputs patched, re-signed.
pub fn deployable(spec: &WorldSpec, b: &world::Built) -> Result<Deployed, String> {
    let height = spec.height.into();
    let keys: Vec<Bytes32> = if spec.keys.is_empty() { vec![Bytes32::zeroed()] } else { spec.keys.iter().map(|k| Bytes32::from(k.0)).collect() };
    let mut creates = vec![];
    let mut ids = vec![];
    for (i, c) in spec.contracts.iter().enumerate() {
        let code = prog::to_bytes(&b.contract_words[i]);
        let mut slots: BTreeMap<Bytes32, Bytes32> = BTreeMap::new();
        for (k, v) in &c.slots {
            if v.0.len() == 32 {
                let mut a = [0u8; 32];
                a.copy_from_slice(&v.0);
                slots.insert(keys[(*k as usize) % keys.len()], Bytes32::from(a));
            }
        }
        let slots: Vec<StorageSlot> = slots.into_iter().map(|(k, v)| StorageSlot::new(k, v)).collect();
        let mut tb = TransactionBuilder::create(Witness::from(code), Salt::from([i as u8 + 1; 32]), slots);
        tb.with_params(b.params.clone());
        tb.max_fee_limit(b.max_fee_limit);
        tb.add_unsigned_coin_input(world::secret(0), UtxoId::new(Bytes32::from([0x70 + i as u8; 32]), 0), b.max_fee_limit, *b.params.base_asset_id(), TxPointer::default());
        tb.add_contract_created();
        let tx = tb.finalize();
        let id = tx.outputs().iter().find_map(|o| if let Output::ContractCreated { contract_id, .. } = o { Some(*contract_id) } else { None }).ok_or("no ContractCreated output")?;
        ids.push(id);
        creates.push(tx.into_checked(height, &b.params).map_err(|e| format!("create into_checked: {e:?}"))?);
    }
    // patch the script data tables
    let lay = &b.layout;
    let mut data = b.script_data.clone();
    let fake: Vec<ContractId> = (0..ids.len()).map(world::contract_id).collect();
    let retarget = |bytes: &[u8]| -> Option<ContractId> { fake.iter().position(|f| f.as_ref() == bytes).map(|i| ids[i]) };
    for i in 0..lay.n_cids as usize {
        let o = lay.off_cids as usize + 32 * i;
        if let Some(r) = retarget(&data[o..o + 32]) {
            data[o..o + 32].copy_from_slice(r.as_ref());
        }
    }
    for k in 0..lay.n_calls as usize {
        let o = lay.off_calls as usize + 48 * k;
        if let Some(r) = retarget(&data[o..o + 32]) {
            data[o..o + 32].copy_from_slice(r.as_ref());
        }
    }
    for (i, id) in ids.iter().enumerate() {
        let o = lay.off_assets as usize + 32 * (world::N_PLAIN_ASSETS + i);
        let a: Id = ledger::minted_asset(id, &keys[0]);
        data[o..o + 32].copy_from_slice(&a);
    }
    let tx0 = b.checked.transaction();
    let mut inputs = tx0.inputs().clone();
    for inp in inputs.iter_mut() {
        if let Input::Contract(c) = inp {
            if let Some(r) = retarget(c.contract_id.as_ref()) {
                c.contract_id = r;
            }
        }
    }
    let mut tx = Transaction::script(*tx0.script_gas_limit(), tx0.script().to_vec(), data, *tx0.policies(), inputs, tx0.outputs().clone(), tx0.witnesses().clone());
    for k in 0..3 {
        tx.sign_inputs(&world::secret(k), &b.params.chain_id());
    }
    let script = tx.into_checked(height, &b.params).map_err(|e| format!("script into_checked: {e:?}"))?;
    Ok(Deployed { creates, ids, script })
}

fn check_deploy(case: &DeployCase, obs: &mut Obs) -> Check {
    let spec = &case.world;
    let b = match spec.build() {
        Ok(b) => b,
        Err(_) => {
            obs.class("world-invalid");
            return Ok(());
        }
    };
    if spec.contracts.is_empty() {
        obs.class("no-contracts");
        return Ok(());
    }
    let d = match deployable(spec, &b) {
        Ok(d) => d,
        Err(e) => {
            obs.class("world-not-deployable");
            obs.note(&format!("not-deployable:{}", e.chars().take(50).collect::<String>()), 1);
            return Ok(());
        }
    };
    let mut client = new_client(MemoryStorage::new(spec.height.into(), ContractId::from([0xCB; 32])), &b);
    for (i, c) in d.creates.iter().enumerate() {
        if let Err(e) = client.deploy(c.clone()) {
            fail!("harness-deploy", "MemoryClient::deploy rejected the Create of contract {i}: {e:?}");
        }
        ensure!(client.as_ref().storage_contract_exists(&d.ids[i]).unwrap_or(false), "memory-client:deploy-did-not-store-contract", "contract {i} absent right after deploy");
    }
    if case.warm {
        let mut tb = TransactionBuilder::script(vec![op::ret(RegId::ONE)].into_iter().collect(), vec![]);
        tb.with_params(b.params.clone());
        tb.script_gas_limit(10_000);
        tb.max_fee_limit(b.max_fee_limit);
        tb.add_unsigned_coin_input(world::secret(0), UtxoId::new(Bytes32::from([0x7f; 32]), 0), b.max_fee_limit, *b.params.base_asset_id(), TxPointer::default());
        let warm = tb.finalize().into_checked(spec.height.into(), &b.params).map_err(|e| Failure::new("harness-warm", format!("{e:?}")))?;
        let r = client.transact(warm).to_vec();
        ensure!(matches!(script_result(&r), Some((ScriptExecutionResult::Success, _))), "harness-warm", "warm-up script did not succeed: {r:?}");
        obs.class("warm");
    } else {
        obs.class("cold");
    }
    let before = storage_fingerprint(client.as_ref());
    let receipts = client.transact(d.script.clone()).to_vec();
    let after = storage_fingerprint(client.as_ref());
    let outcome = script_result(&receipts);
    let failed = outcome.map(|(r, _)| is_failed(r)).unwrap_or(true);
    match outcome {
        Some((r, _)) => obs.class(&format!("result:{r:?}")),
        None => obs.class("vm-error"),
    }
    let calls = receipts.iter().filter(|r| matches!(r, Receipt::Call { to, .. } if d.ids.contains(to))).count();
    if calls > 0 {
        obs.class("deployed-contract-called");
    }
    if failed {
        if after != before {
            let gone: Vec<usize> = (0..d.ids.len()).filter(|i| !client.as_ref().storage_contract_exists(&d.ids[*i]).unwrap_or(false)).collect();
            if !gone.is_empty() {
                fail!("memory-client:revert-discards-deployed-contract", "after a {} script, contracts {gone:?} deployed through MemoryClient::deploy are gone from the storage (warm-up script in between: {})", outcome.map(|(r, _)| format!("{r:?}")).unwrap_or("errored".into()), case.warm);
            }
            fail!("memory-client:storage-changed-by-failed-script", "deploy world: {}", first_diff(&before, &after));
        }
        obs.class("failed-script-after-deploy");
        if calls > 0 {
            obs.nontrivial(&(format!("{receipts:?}"), case.warm));
        }
    }
    Ok(())
}

// ------------------------------------------------------------------ generators

pub const W_FAIL_SCRIPT: prog::Weights = prog::Weights([3, 3, 2, 4, 10, 1, 2, 1, 2, 2]);
pub const W_FAIL_CONTRACT: prog::Weights = prog::Weights([3, 3, 2, 4, 6, 2, 2, 10, 1, 1]);

/// contract bodies: storage-heavy, calling on, and ending (sometimes early) in RVRT / a panic
fn failing_contract_body() -> impl Strategy<Value = Vec<Tpl>> {
    (
        prog::body(W_FAIL_CONTRACT, true, 18),
        prop_oneof![5 => Just(0u8), 3 => Just(1u8), 2 => Just(2u8), 1 => Just(3u8)],
        // a state write up front so that the failure comes after one
        prop::option::weighted(0.7, prog::storage_tpl(false)),
    )
        .prop_map(|(mut body, end, first)| {
            let last = body.len() - 1;
            match end {
                1 => body[last] = Tpl::Rvrt { v: Val::Imm(3) },
                2 => body[last] = Tpl::Raw(op::div(0x21, RegId::ONE, RegId::ZERO).into()),
                3 => body[last] = Tpl::Raw(0),
                _ => {}
            }
            if let Some(f) = first {
                body.insert(0, f);
            }
            body
        })
}

pub fn failing_world() -> impl Strategy<Value = WorldSpec> {
    (world::world(W_FAIL_SCRIPT, 24, 3), prop::collection::vec(failing_contract_body(), 3), prop::bool::weighted(0.15)).prop_map(|(mut w, bodies, script_rvrt)| {
        for (c, body) in w.contracts.iter_mut().zip(bodies) {
            c.body = body;
        }
        if script_rvrt {
            w.script.push(Tpl::Rvrt { v: Val::Imm(9) });
        }
        w
    })
}

pub fn property() -> Property {
    Property {
        id: "C28",
        rule: "failure-heavy G-PROG worlds (script calling 0..3 storage-heavy contracts that end in RET/RVRT/division by zero/invalid opcode, gas budgets from tiny to large) single-stepped: receipts must match `body* [Panic] ScriptResult`, Panic receipt ⇔ result Panic, Success ⇒ last instruction is RET/RETD at call depth 0, Revert ⇒ last instruction RVRT, <= 65 535 receipts, receipts_root == RFC 6962 tree hash of the canonical receipt encodings, Call/Return receipts nest and balance, every receipt names the open call; after revert/panic variable outputs are zero and change == initial free balance (+ model refund for the base asset); the same world through MemoryClient (contracts committed in its storage) gives the same receipts and leaves the storage exactly as before when the script failed; LOG/LOGD loops around the receipt limit in script and contract with five endings; worlds deployed through MemoryClient::deploy with real Create transactions. Non-trivial = revert/panic at call depth >= 1 after a completed state-writing instruction inside a call (outcomes), TooManyReceipts cases (limit), failed script that called a deployed contract (deploy)".into(),
        assumptions: vec![
            "single-stepping does not change results (C32)".into(),
            "Receipt::to_bytes is the canonical receipt encoding (C01 judges it); harness rfc6962 model; RustCrypto sha2".into(),
            "MemoryStorage Debug output is a faithful rendering of its live tables (storage fingerprint)".into(),
            "min_gas is taken from the transaction under test (C18); refund recomputed by model::fee".into(),
            "a VM error (Err state, no ScriptResult) is not a completed execution; it is counted and left to C29".into(),
        ],
        parts: vec![
            gen_part("outcomes", "failure-heavy world, stepped + MemoryClient on committed storage", (4_000, 120_000), |_c: &Ctx| failing_world().prop_map(|world| Case { world }), check_outcomes),
            enum_part(
                "receipt-limit",
                "hand-built boundary lattice (quick: n in 65531..=65534, 65536 and four endings; thorough: all): LOG/LOGD loop of n in {1, 65520, 65528..=65536, 70000} receipts × ending {RET, RETD, RVRT, div-by-zero, 8 more LOGs + RET} × {script, called contract}; Unit schedule; exact (result, panic reason, receipt count) predicted from the rule that the last two slots are reserved",
                false,
                |ctx, shard, nshards, sink| limit_cases(ctx.tier, shard, nshards, sink),
                check_limit,
            ),
            gen_part("client-deploy", "world with real contract ids deployed through MemoryClient::deploy; cold (nothing in between) or warm (a successful script in between)", (1_200, 30_000), |_c: &Ctx| (failing_world(), prop::bool::weighted(0.5)).prop_map(|(world, warm)| DeployCase { world, warm }), check_deploy),
        ],
        floors: vec![("outcomes", "failed-in-call-after-state-write", 0.05), ("outcomes", "result:Success", 0.05), ("client-deploy", "deployed-contract-called", 0.20)],
    }
}
