//! C18 — Fee and refund arithmetic is monotone and bounded by the fee limit.
use crate::chargeable;
use crate::engine::*;
use crate::gens::tx::{layout_sig, tx_spec, AnyTx, TxSpec};
use crate::gens::validtx::{gas_sched, params_any, tight, valid_tx_kind, GasSched, ValidCase};
use crate::gens::word;
use crate::model::fee as mf;
use crate::{ensure, ensure_eq, fail};
use fuel_tx::{Chargeable, DependentCost, FeeParameters, TransactionFee};
use fuel_vm::checked_transaction::{CheckError, IntoChecked};
use proptest::prelude::*;
use serde::{Deserialize, Serialize};

// ------------------------------------------------------------------ part 1: unconstrained G-TX

#[derive(Debug, Clone, Serialize, Deserialize)]
pub struct FeeCase {
    pub tx: TxSpec,
    pub price: u64,
    pub factor: u64,
    pub gas_per_byte: u64,
    pub sched: GasSched,
    pub used: (u64, u64),
}

fn factor() -> impl Strategy<Value = u64> {
    prop_oneof![2 => Just(1u64), 1 => Just(92u64), 1 => Just(1_000_000_000u64), 3 => word().prop_map(|w| w.max(1)), 1 => 1u64..1000]
}

fn fee_case() -> impl Strategy<Value = FeeCase> {
    (tx_spec(), word(), factor(), prop_oneof![2 => 0u64..100, 1 => word()], gas_sched(true), (word(), word()))
        .prop_map(|(tx, price, factor, gas_per_byte, sched, (a, b))| FeeCase { tx, price, factor, gas_per_byte, sched, used: (a.min(b), a.max(b)) })
}

fn pol_tip_limit(tx: &TxSpec) -> (u64, u64) {
    let tip = if tx.pol.mask & 1 != 0 { tx.pol.vals[0] } else { 0 };
    let limit = if tx.pol.mask & 8 != 0 { tx.pol.vals[3] } else { 0 };
    (tip, limit)
}

struct LibFee {
    min_gas: u64,
    max_gas: u64,
    min_fee: u128,
    max_fee: u128,
    checked: Option<TransactionFee>,
    refund: (Option<u64>, Option<u64>),
}

/// the refund clauses of the statement for one used-gas pair
fn check_refund(min_gas: u64, used: (u64, u64), got: (Option<u64>, Option<u64>), price: u64, factor: u64, tip: u64, limit: u64, obs: &mut Obs) -> Check {
    for (u, r) in [(used.0, got.0), (used.1, got.1)] {
        if let Some(r) = r {
            ensure!(r <= limit, "refund:exceeds-limit", "refund {r} > fee limit {limit} (used {u})");
        }
        if min_gas as u128 + u as u128 <= u64::MAX as u128 {
            let want = mf::refund(min_gas, u, price, factor, tip, limit);
            ensure_eq!(r, want, "refund:formula", "refund_fee(used={u}) min_gas={min_gas} price={price} factor={factor} tip={tip} limit={limit}");
            obs.class(if r.is_some() { "refund:some" } else { "refund:none" });
        } else {
            obs.class("refund:outside-sound-domain");
            // whatever the reading of min_gas + used, the used fee is at least the fee of min_gas
            let ub = mf::refund_upper_bound(min_gas, price, factor, tip, limit);
            ensure!(r.is_none() || (ub.is_some() && r <= ub), "refund:above-upper-bound", "refund {r:?} above limit - fee(min_gas) = {ub:?}");
        }
    }
    // non-increasing in used gas (None = nothing refundable / not affordable)
    match got {
        (None, Some(r2)) => fail!("refund:not-monotone", "refund(used={}) is None but refund(used={}) = {r2}", used.0, used.1),
        (Some(r1), Some(r2)) => ensure!(r1 >= r2, "refund:not-monotone", "refund(used={}) = {r1} < refund(used={}) = {r2}", used.0, used.1),
        _ => {}
    }
    Ok(())
}

fn check_fee(c: &FeeCase, obs: &mut Obs) -> Check {
    let tx = c.tx.build();
    let gc = c.sched.build();
    let fp = FeeParameters::DEFAULT.with_gas_price_factor(c.factor).with_gas_per_byte(c.gas_per_byte);
    let (tip, limit) = pol_tip_limit(&c.tx);
    let lib = catch_panic(|| {
        chargeable!(
            &tx,
            t => LibFee {
                min_gas: t.min_gas(&gc, &fp),
                max_gas: t.max_gas(&gc, &fp),
                min_fee: t.min_fee(&gc, &fp, c.price),
                max_fee: t.max_fee(&gc, &fp, c.price),
                checked: TransactionFee::checked_from_tx(&gc, &fp, t, c.price),
                refund: (t.refund_fee(&gc, &fp, c.used.0, c.price), t.refund_fee(&gc, &fp, c.used.1, c.price)),
            },
            unreachable!("tx_spec() has no Mint")
        )
    });
    let lib = match lib {
        Ok(l) => l,
        Err((loc, msg)) => fail!(format!("fee:panic@{loc}"), "fee computation panicked at {loc}: {msg}"),
    };
    obs.class(c.sched.label());
    obs.class(&format!("kind:{}", c.tx.body.kind()));

    ensure!(lib.min_gas <= lib.max_gas, "fee:min-gas-gt-max-gas", "min_gas {} > max_gas {}", lib.min_gas, lib.max_gas);
    let want_min = mf::fee(lib.min_gas, c.price, c.factor, tip);
    let want_max = mf::fee(lib.max_gas, c.price, c.factor, tip);
    ensure_eq!(lib.min_fee, want_min, "fee:min-fee-formula", "min_fee gas={} price={} factor={} tip={tip}", lib.min_gas, c.price, c.factor);
    ensure_eq!(lib.max_fee, want_max, "fee:max-fee-formula", "max_fee gas={} price={} factor={} tip={tip}", lib.max_gas, c.price, c.factor);
    ensure!(lib.min_fee <= lib.max_fee, "fee:min-fee-gt-max-fee", "min_fee {} > max_fee {}", lib.min_fee, lib.max_fee);

    let fits = want_min <= u64::MAX as u128 && want_max <= u64::MAX as u128;
    obs.class(if fits { "fits-u64" } else { "overflows-u64" });
    match lib.checked {
        Some(f) => {
            ensure!(fits, "fee:checked-from-tx:some-but-overflow", "checked_from_tx is Some({f:?}) although max_fee = {want_max}");
            ensure_eq!((f.min_fee() as u128, f.max_fee() as u128, f.min_gas(), f.max_gas()), (want_min, want_max, lib.min_gas, lib.max_gas), "fee:checked-from-tx:values", "TransactionFee fields");
        }
        None => ensure!(!fits, "fee:checked-from-tx:none-but-fits", "checked_from_tx is None although min_fee = {want_min}, max_fee = {want_max} fit u64"),
    }

    check_refund(lib.min_gas, c.used, lib.refund, c.price, c.factor, tip, limit, obs)?;

    // non-triviality: a product that needs more than 64 bits or a ceiling that differs from the floor
    let wide = lib.max_gas as u128 * c.price as u128 >= 1u128 << 64;
    let ceil_matters = mf::gas_to_fee(lib.max_gas, c.price, c.factor) != mf::gas_to_fee_floor(lib.max_gas, c.price, c.factor)
        || mf::gas_to_fee(lib.min_gas, c.price, c.factor) != mf::gas_to_fee_floor(lib.min_gas, c.price, c.factor);
    if wide {
        obs.class("product>=2^64");
    }
    if ceil_matters {
        obs.class("ceiling!=floor");
    }
    if wide || ceil_matters {
        obs.nontrivial(&(layout_sig(&c.tx), c.price.leading_zeros(), c.factor.leading_zeros(), wide, ceil_matters));
    }
    Ok(())
}

// ------------------------------------------------------------------ part 2: valid transactions through into_ready

#[derive(Debug, Clone, Serialize, Deserialize)]
pub struct ReadyCase {
    pub base: ValidCase,
    pub price: u64,
    /// 0 none, 1 the spec height, 2 the expiration, 3 expiration + 1, 4 `raw`
    pub bh_mode: u8,
    pub raw: u32,
    pub used: (u16, u16),
}

fn ready_case() -> impl Strategy<Value = ReadyCase> {
    (
        (prop::sample::select(vec![0u8, 0, 1, 3, 4, 5]).prop_flat_map(valid_tx_kind), params_any(), tight()),
        prop_oneof![2 => 0u64..4, 2 => 0u64..100_000, 2 => word()],
        0u8..5,
        any::<u32>(),
        any::<(u16, u16)>(),
    )
        .prop_map(|((tx, params, tight), price, bh_mode, raw, (a, b))| ReadyCase { base: ValidCase { tx, params, tight }, price, bh_mode, raw, used: (a.min(b), a.max(b)) })
}

fn err_name(e: &CheckError) -> String {
    let s = match e {
        CheckError::Validity(v) => format!("{v:?}"),
        other => format!("{other:?}"),
    };
    s.split(|c: char| !c.is_alphanumeric()).next().unwrap_or("").to_string()
}

fn check_ready(c: &ReadyCase, obs: &mut Obs) -> Check {
    let r = c.base.realize();
    let AnyTx::Charge(spec) = &r.spec else { return Ok(()) };
    let tx = r.transaction();
    let gc = r.params.gas_costs().clone();
    let fp = *r.params.fee_params();
    let factor = fp.gas_price_factor();
    let (tip, limit) = pol_tip_limit(spec);
    let expiration = if spec.pol.mask & 0x10 != 0 { spec.pol.vals[4] as u32 } else { u32::MAX };
    let bh = match c.bh_mode {
        0 => None,
        1 => Some(r.height),
        2 => Some(expiration),
        3 => Some(expiration.saturating_add(1)),
        _ => Some(c.raw),
    };
    let gas_limit = match &spec.body {
        crate::gens::tx::BodySpec::Script { gas_limit, .. } => *gas_limit,
        _ => 0,
    };
    let (min_gas, max_gas) = chargeable!(&tx, t => (t.min_gas(&gc, &fp), t.max_gas(&gc, &fp)), unreachable!());
    let used_of = |sel: u16| ((gas_limit as u128 * sel as u128) >> 16) as u64 + u64::from(sel == u16::MAX && gas_limit > 0);
    let used = (used_of(c.used.0).min(gas_limit), used_of(c.used.1).min(gas_limit));
    let refunds = chargeable!(&tx, t => (t.refund_fee(&gc, &fp, used.0, c.price), t.refund_fee(&gc, &fp, used.1, c.price)), unreachable!());

    let height = r.height;
    let params = r.params.clone();
    let price = c.price;
    let out = catch_panic(move || {
        chargeable!(
            tx,
            t => match t.into_checked_basic(height.into(), &params) {
                Err(e) => Err(e),
                Ok(ch) => Ok(ch.into_ready(price, &gc, &fp, bh.map(Into::into)).map(|rd| rd.gas_price())),
            },
            unreachable!()
        )
    });
    let out = match out {
        Ok(o) => o,
        Err((loc, msg)) => fail!(format!("ready:panic@{loc}"), "into_checked_basic/into_ready panicked at {loc}: {msg}"),
    };
    let ready = match out {
        Ok(r) => r,
        Err(e) => fail!("harness-validtx-rejected", "valid-TX rejected by into_checked_basic: {e:?}"),
    };
    obs.class(&format!("kind:{}", spec.body.kind()));

    let want_min = mf::fee(min_gas, c.price, factor, tip);
    let want_max = mf::fee(max_gas, c.price, factor, tip);
    let fits = want_min <= u64::MAX as u128 && want_max <= u64::MAX as u128;
    let expired = bh.is_some_and(|b| b > expiration);
    let too_expensive = want_max > limit as u128;
    let mut admissible: Vec<&str> = vec![];
    if !fits {
        admissible.push("BalanceOverflow");
    }
    if expired {
        admissible.push("TransactionExpiration");
    }
    if too_expensive && fits {
        admissible.push("InsufficientMaxFee");
    }
    match &ready {
        Ok(p) => {
            ensure!(admissible.is_empty(), "ready:accepted-but-should-reject", "into_ready accepted; model rejects with {admissible:?} (max_fee {want_max}, limit {limit}, bh {bh:?}, expiration {expiration})");
            ensure_eq!(*p, c.price, "ready:gas-price", "Ready::gas_price");
            obs.class("ready:accepted");
        }
        Err(e) => {
            let n = err_name(e);
            ensure!(!admissible.is_empty(), "ready:rejected-but-should-accept", "into_ready rejected with {e:?}; model accepts (max_fee {want_max} <= limit {limit}, bh {bh:?}, expiration {expiration})");
            ensure!(admissible.contains(&n.as_str()), "ready:wrong-error", "into_ready error {n} not in {admissible:?}");
            if let CheckError::InsufficientMaxFee { max_fee_from_policies, max_fee_from_gas_price } = e {
                ensure_eq!((*max_fee_from_policies as u128, *max_fee_from_gas_price as u128), (limit as u128, want_max), "ready:error-values", "InsufficientMaxFee fields");
            }
            obs.class(&format!("ready:rejected:{n}"));
        }
    }

    check_refund(min_gas, used, refunds, c.price, factor, tip, limit, obs)?;
    if ready.is_ok() {
        for (u, rf) in [(used.0, refunds.0), (used.1, refunds.1)] {
            if min_gas as u128 + u as u128 <= max_gas as u128 {
                ensure!(rf.is_some(), "ready:refund-none-within-gas-limit", "ready transaction (max_fee {want_max} <= limit {limit}) has no refund for used gas {u} <= gas limit {gas_limit}");
            }
        }
    }
    let wide = max_gas as u128 * c.price as u128 >= 1u128 << 64;
    let ceil_matters = mf::gas_to_fee(max_gas, c.price, factor) != mf::gas_to_fee_floor(max_gas, c.price, factor);
    if wide || ceil_matters {
        obs.nontrivial(&(layout_sig(spec), c.price.leading_zeros(), factor, c.bh_mode, ready.is_ok()));
    }
    Ok(())
}

// ------------------------------------------------------------------ part 3: DependentCost::resolve

#[derive(Debug, Clone, Serialize, Deserialize)]
pub struct DepCase {
    pub heavy: bool,
    pub base: u64,
    pub rate: u64,
    pub units: u64,
}

fn dep_case() -> impl Strategy<Value = DepCase> {
    (any::<bool>(), word(), word(), word()).prop_map(|(heavy, base, rate, units)| DepCase { heavy, base, rate: if heavy { rate } else { rate.max(1) }, units })
}

fn check_dep(c: &DepCase, obs: &mut Obs) -> Check {
    let d = if c.heavy { DependentCost::HeavyOperation { base: c.base, gas_per_unit: c.rate } } else { DependentCost::LightOperation { base: c.base, units_per_gas: c.rate } };
    let got = match catch_panic(|| (d.resolve(c.units), d.resolve_without_base(c.units))) {
        Ok(g) => g,
        Err((loc, msg)) => fail!(format!("dependent-cost:panic@{loc}"), "resolve panicked at {loc}: {msg}"),
    };
    let want = mf::dependent_cost(c.heavy, c.base, c.rate, c.units);
    let want_nb = mf::dependent_cost(c.heavy, 0, c.rate, c.units);
    ensure_eq!(got.0, want, "dependent-cost:resolve", "resolve({}) of {d:?}", c.units);
    ensure_eq!(got.1, want_nb, "dependent-cost:resolve-without-base", "resolve_without_base({}) of {d:?}", c.units);
    obs.class(if c.heavy { "heavy" } else { "light" });
    let sat = want == u64::MAX;
    if sat {
        obs.class("saturated");
    }
    if sat || (!c.heavy && c.units % c.rate != 0) || (c.heavy && c.units > 1 && c.rate > 1) {
        obs.nontrivial(&(c.heavy, c.base.leading_zeros(), c.rate.leading_zeros(), c.units.leading_zeros(), sat));
    }
    Ok(())
}

pub fn property() -> Property {
    Property {
        id: "C18",
        rule: "part fee-gtx: unconstrained G-TX chargeable transactions (5 kinds, all policy masks) x gas price (boundary-biased words incl. u64::MAX) x gas_price_factor >= 1 x gas_per_byte x gas schedule {default, unit, free, random small, random boundary} x two used-gas values; min/max gas and fee, TransactionFee::checked_from_tx and refund_fee compared with model::fee in u128. part ready-valid: valid-TX (5 kinds, standard and small limits) through into_checked_basic + into_ready at a generated price / block height; accept <=> max_fee fits u64, <= fee limit and not expired. part dependent-cost: DependentCost::resolve on boundary-biased words. Non-trivial = gas*price >= 2^64 or ceiling != floor; distinct by layout signature and magnitude classes of price / factor".into(),
        assumptions: vec![
            "model::fee (u128 arithmetic) is the formula of the statement".into(),
            "min_gas / max_gas are taken from the transaction under test; only their order and the fee derived from them is judged".into(),
            "gas_price_factor = 0 and units_per_gas = 0 are excluded (documented as invalid)".into(),
            "refund formula is asserted on the sound domain min_gas + used <= u64::MAX; outside it only no-panic, <= limit, <= limit - fee(min_gas) and monotonicity".into(),
        ],
        parts: vec![
            gen_part("fee-gtx", "G-TX x price x factor x gas_per_byte x schedule x used gas", (160_000, 8_000_000), |_c: &Ctx| fee_case(), check_fee),
            gen_part("ready-valid", "valid-TX through into_checked_basic + into_ready", (24_000, 1_500_000), |_c: &Ctx| ready_case(), check_ready),
            gen_part("dependent-cost", "DependentCost::resolve vs base + units/upg | base + units*gpu, saturating", (400_000, 16_000_000), |_c: &Ctx| dep_case(), check_dep),
        ],
        floors: vec![("fee-gtx", "ceiling!=floor", 0.20), ("fee-gtx", "product>=2^64", 0.10), ("fee-gtx", "refund:some", 0.05), ("ready-valid", "ready:accepted", 0.05)],
    }
}
