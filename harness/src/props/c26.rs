//! C26 — Gas is charged monotonically and never exceeds the limit.
//!
//! Every generated world is single-stepped.  Part 1 checks the register invariants at every
//! step; part 2 compares the charge of every instruction (`$ggas` before − after) with the
//! independent schedule evaluator `model::gas`.
use crate::engine::*;
use crate::{ensure, fail};
use crate::model::gas::{self, Effect, Eval, Id, Mirror, Pre, Schedule};
use crate::props::c32::classify_run;
use crate::vm::prog::{self, Tpl};
use crate::vm::world::{self, run_stepping, Built, Sched, Vm, WorldSpec};
use fuel_asm::PanicReason;
use fuel_tx::Receipt;
use fuel_vm::storage::MemoryStorage;
use proptest::prelude::*;
use serde::{Deserialize, Serialize};
use std::cell::RefCell;
use std::collections::BTreeMap;

#[derive(Debug, Clone, Serialize, Deserialize)]
pub struct Case {
    pub world: WorldSpec,
}

const CGAS: usize = 0x0a;
const GGAS: usize = 0x09;
const FP: usize = 0x06;
/// offset of the saved `$cgas` inside a call frame: to (32) ‖ asset id (32) ‖ registers (64 × 8)
const FRAME_SAVED_CGAS: u64 = 32 + 32 + 8 * CGAS as u64;

struct VmPre<'a> {
    vm: &'a Vm<MemoryStorage>,
}
impl Pre for VmPre<'_> {
    fn reg(&self, i: u32) -> u64 {
        self.vm.registers()[(i & 0x3f) as usize]
    }
    fn mem(&self, addr: u64, len: usize) -> Option<Vec<u8>> {
        self.vm.memory().read(addr, len).ok().map(|s| s.to_vec())
    }
    fn current_contract(&self) -> Option<Id> {
        self.vm.verif_call_stack_ids().last().map(|c| **c)
    }
}

struct Pending {
    index: u64,
    pc: u64,
    raw: Option<u32>,
    regs: Vec<u64>,
    depth: usize,
    receipts: usize,
    eval: Eval,
}

/// location of a step, formatted only when a check fails
struct At<'a>(&'a Pending);
impl std::fmt::Display for At<'_> {
    fn fmt(&self, f: &mut std::fmt::Formatter<'_>) -> std::fmt::Result {
        write!(f, "step {} pc={} {} ({:08x?})", self.0.index, self.0.pc, self.0.eval.op, self.0.raw)
    }
}

struct Mon {
    sched: Schedule,
    mirror: Mirror,
    min_charge: u64,
    gas_limit: u64,
    pending: Option<Pending>,
    /// caller's saved `$cgas` per open call frame (computed by the harness at the CALL step)
    frames: Vec<u64>,
    fail: Option<Failure>,
    stats: BTreeMap<(&'static str, &'static str), u64>,
    storage_ops_per_key: BTreeMap<(Id, Id), u32>,
    oog_depth: Option<usize>,
    max_depth: usize,
    steps: u64,
    final_ggas: u64,
    /// the run was abandoned by the monitor (see `before`)
    aborted: bool,
    /// a storage instruction the evaluator could not follow completed: the slot mirror is stale
    storage_tainted: bool,
}

impl Mon {
    fn bump(&mut self, kind: &'static str, what: &'static str) {
        *self.stats.entry((kind, what)).or_insert(0) += 1;
    }

    /// returns true when the run must be abandoned
    fn before(&mut self, index: u64, pc: u64, raw: Option<u32>, vm: &Vm<MemoryStorage>) -> bool {
        if self.fail.is_some() {
            return false;
        }
        let regs = vm.registers().to_vec();
        if let Err(f) = self.before_checks(index, &regs) {
            self.fail = Some(f);
            return false;
        }
        let depth = vm.verif_call_depth();
        let pre = VmPre { vm };
        let mut eval = match raw {
            Some(w) => gas::evaluate(&self.sched, &self.mirror, w, &pre, regs[CGAS]),
            None => Eval { op: "?", class: "none:unreadable", cost: None, truncated: false, effects: vec![] },
        };
        if self.storage_tainted && eval.class == "storage" {
            eval.cost = None;
            eval.effects.clear();
        }
        if eval.class == "storage" {
            // key operand for the non-triviality rule
            if let (Some(c), Some(w)) = (pre.current_contract(), raw) {
                let f = [(w >> 18) & 0x3f, (w >> 12) & 0x3f, (w >> 6) & 0x3f];
                let kf = match eval.op {
                    "SCWQ" | "SWW" | "SWWQ" | "SCLR" | "SWRD" | "SWRI" | "SUPD" | "SUPI" => 0,
                    "SRW" | "SRWQ" => 2,
                    _ => 1,
                };
                if let Some(k) = pre.mem(regs[f[kf] as usize], 32) {
                    let mut id = [0u8; 32];
                    id.copy_from_slice(&k);
                    *self.storage_ops_per_key.entry((c, id)).or_insert(0) += 1;
                }
            }
        }
        self.max_depth = self.max_depth.max(depth);
        // A slot-range clear whose per-slot price is (almost) nothing — `storage_clear` has
        // `gas_per_unit = 0` in the unit schedule and 4 slots per gas in the default one — is
        // affordable for ranges of millions (or 2^64) of slots: the VM then spends minutes or
        // forever in that one instruction.  That is a property of those schedules, not of gas
        // accounting; the run is abandoned here and counted.
        if matches!(eval.op, "SCLR" | "SCWQ") && eval.cost.is_none() && !eval.truncated {
            let w = raw.unwrap_or(0);
            let n = if eval.op == "SCLR" { regs[((w >> 12) & 0x3f) as usize] } else { regs[((w >> 6) & 0x3f) as usize] };
            if n > gas::MAX_RANGE {
                self.aborted = true;
                return true;
            }
        }
        self.pending = Some(Pending { index, pc, raw, regs, depth, receipts: vm.receipts().len(), eval });
        false
    }

    fn before_checks(&self, index: u64, regs: &[u64]) -> Check {
        ensure!(regs[CGAS] <= regs[GGAS], "invariant:cgas-exceeds-ggas", "before step {index}: cgas {} > ggas {}", regs[CGAS], regs[GGAS]);
        if index == 0 {
            ensure!(regs[GGAS] == self.gas_limit && regs[CGAS] == self.gas_limit, "initial-gas", "first instruction sees cgas {} ggas {} with script gas limit {}", regs[CGAS], regs[GGAS], self.gas_limit);
        }
        Ok(())
    }

    fn after(&mut self, vm: &Vm<MemoryStorage>, ended: bool, vm_error: bool) {
        if self.fail.is_some() {
            return;
        }
        let Some(p) = self.pending.take() else { return };
        self.steps += 1;
        if let Err(f) = self.after_checks(&p, vm, ended, vm_error) {
            self.fail = Some(f);
        }
    }

    fn after_checks(&mut self, p: &Pending, vm: &Vm<MemoryStorage>, ended: bool, vm_error: bool) -> Check {
        let regs = vm.registers();
        let (cg0, gg0, cg1, gg1) = (p.regs[CGAS], p.regs[GGAS], regs[CGAS], regs[GGAS]);
        self.final_ggas = gg1;
        let op = p.eval.op;
        let class = p.eval.class;
        let at = At(p);
        // the panic of *this* instruction (a panic receipt with another pc is the failed fetch of the next one)
        let new_receipts = &vm.receipts()[p.receipts.min(vm.receipts().len())..];
        let mut own_panic: Option<PanicReason> = None;
        let mut fetch_panic = false;
        for r in new_receipts {
            if let Receipt::Panic { reason, pc, .. } = r {
                if *pc == p.pc {
                    own_panic = Some(*reason.reason());
                } else {
                    fetch_panic = true;
                }
            }
        }
        if fetch_panic {
            self.bump("end", "fetch-panic");
        }
        let depth1 = vm.verif_call_depth();

        // ---------------- part 1 (most specific diagnosis first)
        ensure!(gg1 <= gg0, "invariant:ggas-increased", "{at}: ggas {gg0} -> {gg1}");
        let charged = gg0 - gg1;
        if own_panic == Some(PanicReason::OutOfGas) {
            ensure!(cg1 == 0, "oog:cgas-not-zero", "{at}: OutOfGas left cgas = {cg1} (before {cg0})");
            ensure!(gg1 == gg0 - cg0, "oog:ggas-not-reduced-by-cgas", "{at}: OutOfGas: ggas {gg0} -> {gg1}, cgas before {cg0}");
            self.oog_depth = Some(p.depth);
        }
        ensure!(charged <= cg0, "invariant:charged-more-than-cgas", "{at}: charged {charged} with cgas {cg0}");
        let entered = op == "CALL" && depth1 == p.depth + 1;
        let popped = (op == "RET" || op == "RETD") && depth1 + 1 == p.depth;
        if !entered && !popped {
            ensure!(depth1 == p.depth, format!("invariant:depth-changed-by:{op}"), "{at}: call depth {} -> {depth1}", p.depth);
        }
        // CALL / RET gas forwarding
        if entered {
            let requested = p.regs[(p.raw.unwrap_or(0) & 0x3f) as usize];
            let avail = cg0 - charged;
            let expect = requested.min(avail);
            ensure!(cg1 == expect, "call:forwarded-gas", "{at}: callee cgas {cg1}, requested {requested}, caller cgas after charges {avail}");
            let saved = avail - cg1;
            let mem_saved = vm.memory().read(regs[FP].saturating_add(FRAME_SAVED_CGAS), 8usize).ok().map(|b| u64::from_be_bytes(b.try_into().expect("8 bytes")));
            ensure!(mem_saved == Some(saved), "call:saved-cgas", "{at}: saved cgas in frame {mem_saved:?}, expected {saved} (= {avail} - {cg1})");
            for r in new_receipts {
                if let Receipt::Call { gas, .. } = r {
                    ensure!(*gas == cg1, "call:receipt-gas", "{at}: Call receipt gas {gas}, callee cgas {cg1}");
                }
            }
            self.frames.push(saved);
        }
        if popped {
            let Some(saved) = self.frames.pop() else { fail!("harness:frame-stack", "{at}: return without a tracked frame") };
            let remaining = cg0 - charged;
            ensure!(cg1 as u128 == saved as u128 + remaining as u128, "ret:credit", "{at}: caller cgas after return {cg1}, saved {saved} + callee remaining {remaining}");
        }
        ensure!(self.frames.len() == depth1, "harness:frame-stack", "{at}: tracked frames {} vs depth {depth1}", self.frames.len());
        // generic invariants
        ensure!(cg1 <= gg1, "invariant:cgas-exceeds-ggas", "{at}: cgas {cg1} > ggas {gg1} after");
        let ret_family = matches!(op, "RET" | "RETD" | "RVRT");
        if op != "CALL" && !(ret_family && (popped || own_panic.is_some())) {
            ensure!(cg1 <= cg0 && cg0 - cg1 == charged, "invariant:cgas-ggas-delta-differ", "{at}: cgas {cg0} -> {cg1}, ggas {gg0} -> {gg1}");
        }
        if !ended && self.min_charge >= 1 {
            ensure!(gg1 < gg0, "termination:ggas-not-decreased", "{at}: ggas stayed {gg0} and the run continues");
        }

        // ---------------- part 2: exact cost
        if vm_error {
            self.bump("skip-vm-error", class);
            return Ok(());
        }
        match p.eval.cost {
            None => {
                self.bump("unknown", class);
                if class == "storage" && own_panic.is_none() {
                    self.storage_tainted = true;
                }
            }
            Some(cost) => match own_panic {
                None => {
                    ensure!(cost <= cg0 as u128, format!("cost:completed-with-insufficient-gas:{class}:{op}"), "{at}: expected cost {cost} > cgas {cg0}, but the instruction completed (charged {charged})");
                    ensure!(charged as u128 == cost, format!("cost:charge-mismatch:{class}:{op}"), "{at}: charged {charged}, schedule says {cost}");
                    self.bump("exact", class);
                    self.bump("exact-op", op);
                }
                Some(PanicReason::OutOfGas) => {
                    ensure!(cost > cg0 as u128, format!("cost:oog-with-sufficient-gas:{class}:{op}"), "{at}: OutOfGas with cgas {cg0} but the schedule says {cost}");
                    self.bump("oog", class);
                }
                Some(_) => {
                    ensure!(charged as u128 <= cost, format!("cost:overcharge-before-panic:{class}:{op}"), "{at}: charged {charged} before panicking with {own_panic:?}, full cost {cost}");
                    self.bump("bound", class);
                }
            },
        }
        if own_panic.is_none() {
            for e in &p.eval.effects {
                if let Effect::BalanceEntry(..) = e {
                    self.bump("effect", "balance-entry");
                }
                self.mirror.apply(e);
            }
        }
        Ok(())
    }
}

fn ids_at(data: &[u8], off: usize, n: usize) -> Vec<Id> {
    (0..n)
        .filter_map(|i| data.get(off + 32 * i..off + 32 * i + 32))
        .map(|s| {
            let mut a = [0u8; 32];
            a.copy_from_slice(s);
            a
        })
        .collect()
}

/// the state-dependent tables of the world, from the spec (not from the storage under test)
pub fn mirror_of(spec: &WorldSpec, b: &Built) -> Mirror {
    let mut m = Mirror::default();
    let keys = ids_at(&b.script_data, b.layout.off_keys as usize, b.layout.n_keys as usize);
    for (i, c) in spec.contracts.iter().enumerate() {
        let cid: Id = *b.cids[i];
        m.contract_len.insert(cid, 4 * b.contract_words[i].len() as u64);
        for (a, _) in &c.balances {
            let asset: Id = *b.assets[(*a as usize) % b.assets.len()];
            m.balance_entries.insert((cid, asset));
        }
        for (k, v) in &c.slots {
            if !keys.is_empty() {
                m.slot_len.insert((cid, keys[(*k as usize) % keys.len()]), v.0.len() as u64);
            }
        }
    }
    for (i, blob) in spec.blobs.iter().enumerate() {
        m.blob_len.insert(*b.blob_ids[i], blob.0.len() as u64);
    }
    m
}

fn check(case: &Case, obs: &mut Obs) -> Check {
    let b = match case.world.build() {
        Ok(b) => b,
        Err(_) => {
            obs.class("world-invalid");
            return Ok(());
        }
    };
    let ready = match b.ready() {
        Ok(r) => r,
        Err(_) => {
            obs.class("world-not-ready");
            return Ok(());
        }
    };
    let sched_json = serde_json::to_value(b.params.gas_costs()).map_err(|e| Failure::new("harness-schedule", e.to_string()))?;
    let sched = Schedule::from_json(&sched_json).map_err(|e| Failure::new("harness-schedule", e))?;
    let min_charge = sched.min_instruction_charge();
    let mon = RefCell::new(Mon {
        sched,
        mirror: mirror_of(&case.world, &b),
        min_charge,
        gas_limit: b.gas_limit,
        pending: None,
        frames: vec![],
        fail: None,
        stats: BTreeMap::new(),
        storage_ops_per_key: BTreeMap::new(),
        oog_depth: None,
        max_depth: 0,
        steps: 0,
        final_ggas: b.gas_limit,
        aborted: false,
        storage_tainted: false,
    });
    let mut vm = b.new_vm(b.storage.clone());
    // `after` cannot know whether the run ended with an interpreter error: the last step is
    // re-judged below, so `after(_, true)` only records and the verdict is taken afterwards.
    let last: RefCell<Option<()>> = RefCell::new(None);
    // a host panic inside the VM (e.g. an arithmetic overflow caused by a broken gas invariant)
    // must not hide a violation the monitor has already recorded at an earlier step
    let out = catch_panic(|| {
        run_stepping(
            &mut vm,
            ready,
            b.gas_limit + 16,
            |s| {
                let abort = mon.borrow_mut().before(s.index, s.pc, s.raw, s.vm);
                if abort {
                    // leave `run_stepping` (no VM frame is on the stack here); no panic hook runs
                    std::panic::resume_unwind(Box::new("c26: run abandoned"));
                }
            },
            |vm, ended| {
                if ended {
                    *last.borrow_mut() = Some(());
                } else {
                    mon.borrow_mut().after(vm, false, false);
                }
            },
        )
    });
    let out = match out {
        Ok(Ok(o)) => o,
        Ok(Err(e)) => {
            if let Some(f) = mon.borrow_mut().fail.take() {
                return Err(f);
            }
            return Err(Failure::new("harness-step-budget", e));
        }
        Err((loc, msg)) => {
            if let Some(f) = mon.borrow_mut().fail.take() {
                return Err(f);
            }
            if mon.borrow().aborted {
                obs.class("aborted:huge-clear-range");
                return Ok(());
            }
            return Err(Failure::new(format!("host-panic@{loc}"), format!("host panic at {loc}: {}", msg.chars().take(300).collect::<String>())));
        }
    };
    if last.borrow().is_some() {
        mon.borrow_mut().after(&vm, true, out.state.is_err());
    }
    let mon = mon.into_inner();
    classify_run(&out, obs);
    obs.class(match case.world.sched {
        Sched::Default => "sched:default",
        Sched::Unit => "sched:unit",
        Sched::Random(_) => "sched:random",
    });
    if let Some(f) = mon.fail {
        return Err(f);
    }
    // gas_used of the script result
    let mut seen_result = false;
    for r in &out.receipts {
        if let Receipt::ScriptResult { gas_used, .. } = r {
            seen_result = true;
            ensure!(b.gas_limit >= mon.final_ggas && *gas_used == b.gas_limit - mon.final_ggas, "script-result:gas-used", "gas_used {gas_used}, limit {} - final ggas {}", b.gas_limit, mon.final_ggas);
        }
    }
    if out.state.is_ok() {
        ensure!(seen_result, "script-result:missing", "run ended without a ScriptResult receipt");
    }
    // statistics
    obs.note("steps", mon.steps);
    for ((kind, what), v) in &mon.stats {
        obs.note(&format!("{kind}:{what}"), *v);
    }
    let exact: u64 = mon.stats.iter().filter(|((kind, _), _)| *kind == "exact").map(|(_, v)| *v).sum();
    obs.note("steps-exact", exact);
    if mon.max_depth >= 1 {
        obs.class("depth>=1");
    }
    if mon.max_depth >= 2 {
        obs.class("depth>=2");
    }
    let mut nontrivial = false;
    match mon.oog_depth {
        Some(0) => obs.class("oog-in-script"),
        Some(_) => {
            obs.class("oog-inside-call");
            nontrivial = true;
        }
        None => {}
    }
    if mon.storage_ops_per_key.values().any(|n| *n >= 3) {
        obs.class("3+storage-ops-same-key");
        nontrivial = true;
    }
    if mon.stats.contains_key(&("exact", "storage")) {
        obs.class("has-exact-storage");
    }
    if nontrivial {
        obs.nontrivial(&(mon.steps, out.receipts.len(), mon.final_ggas));
    }
    Ok(())
}

/// contract bodies that hammer a few storage keys and call onwards (hot/cold and slot growth)
fn storage_contract() -> impl Strategy<Value = world::ContractSpec> {
    let w = prog::Weights([3, 2, 1, 3, 3, 0, 1, 16, 1, 1]);
    (world::contract_spec(4), prog::body(w, true, 30)).prop_map(|(mut c, body)| {
        c.body = body;
        c
    })
}

/// ECOP / EPAR on the zeroed heap buffer (points at infinity are valid operands): the grammar
/// has no template for them, so they are planted as raw words at the start of the script body.
fn ec_words() -> impl Strategy<Value = Vec<Tpl>> {
    let (ha, hb) = (prog::R_HA as u32, prog::R_HB as u32);
    prop_oneof![
        3 => Just(vec![]),
        1 => prop::collection::vec(
            prop_oneof![
                // ECOP dst=heap A, curve=$zero, operation in {$zero = add, $one = mul}, operands at heap B
                (0u32..2).prop_map(move |o| Tpl::Raw(0xBC00_0000 | (ha << 18) | (o << 6) | hb)),
                // EPAR result register 0x20, curve=$zero, element count in {0, 1, 1, 32}, operands at heap B
                prop::sample::select(vec![0u32, 1, 0x24, 0x23]).prop_map(move |n| Tpl::Raw(0xBE00_0000 | (0x20 << 18) | (n << 6) | hb)),
            ],
            1..4
        ),
    ]
}

pub fn case() -> impl Strategy<Value = Case> {
    let worlds = prop_oneof![
        3 => world::world(prog::W_SCRIPT, 40, 3),
        // storage-heavy flavour: same worlds, contract bodies replaced
        1 => (world::world(prog::W_SCRIPT, 24, 3), prop::collection::vec(storage_contract(), 3)).prop_map(|(mut world, cs)| {
            for (c, n) in world.contracts.iter_mut().zip(cs) {
                c.body = n.body;
            }
            world
        }),
    ];
    (worlds, ec_words()).prop_map(|(mut world, ec)| {
        for (i, t) in ec.into_iter().enumerate() {
            world.script.insert(i, t);
        }
        Case { world }
    })
}

// ---------------------------------------------------------------- forwarded-gas sweep
//
// The first CALL of the script is given exactly enough gas for the callee to die at a chosen
// instruction (in particular at its final RET / RETD): the callee must then end in OutOfGas and
// never spend more than what was forwarded. The full oracle of `check` runs on every variant.

#[derive(Debug, Clone, Serialize, Deserialize)]
pub struct SweepCase {
    pub world: WorldSpec,
    /// selectors of the callee instructions at which the forwarded gas runs out
    pub picks: Vec<u16>,
    /// extra gas on top of the consumption before the picked instruction
    pub extra: Vec<u8>,
}

fn sweep_case() -> impl Strategy<Value = SweepCase> {
    (case(), prop::collection::vec(any::<u16>(), 1..4), prop::collection::vec(0u8..48, 2..5)).prop_map(|(c, picks, extra)| SweepCase { world: c.world, picks, extra })
}

fn sweep_check(c: &SweepCase, obs: &mut Obs) -> Check {
    let Some(call_at) = c.world.script.iter().position(|t| matches!(t, Tpl::Call { .. })) else {
        obs.class("sweep:no-call");
        return Ok(());
    };
    // 1. profile: forward everything, ample limit
    let mut w = c.world.clone();
    w.gas_limit = 60_000;
    if let Tpl::Call { gas, .. } = &mut w.script[call_at] {
        *gas = prog::Val::Reg(CGAS as u8);
    }
    let b = match w.build() {
        Ok(b) => b,
        Err(_) => {
            obs.class("world-invalid");
            return Ok(());
        }
    };
    let Ok(ready) = b.ready() else {
        obs.class("world-not-ready");
        return Ok(());
    };
    let mut vm = b.new_vm(b.storage.clone());
    let mut entry: Option<u64> = None;
    let mut done = false;
    let mut consumed: Vec<u64> = vec![];
    let r = world::run_stepping(
        &mut vm,
        ready,
        b.gas_limit + 16,
        |s| {
            if done {
                return;
            }
            let d = s.vm.verif_call_depth();
            let cg = s.vm.registers()[CGAS];
            match (entry, d) {
                (None, 1) => {
                    entry = Some(cg);
                    consumed.push(0);
                }
                (Some(e), 1) => consumed.push(e.saturating_sub(cg)),
                (Some(_), 0) => done = true,
                _ => {}
            }
        },
        |_, _| {},
    );
    if r.is_err() || consumed.is_empty() {
        obs.class("sweep:call-not-entered");
        return Ok(());
    }
    obs.class("sweep:profiled");
    // 2. variants: die at the last instruction of the callee, and at picked ones
    let mut targets: Vec<u64> = vec![*consumed.last().unwrap()];
    for p in &c.picks {
        targets.push(consumed[crate::gens::pick(*p, consumed.len())]);
    }
    let mut n = 0u64;
    for (i, t) in targets.iter().enumerate() {
        for e in &c.extra {
            let g = t.saturating_add(*e as u64);
            if g >= 0x3ffff {
                continue;
            }
            let mut w2 = w.clone();
            if let Tpl::Call { gas, .. } = &mut w2.script[call_at] {
                *gas = prog::Val::Imm(g as u32);
            }
            n += 1;
            check(&Case { world: w2 }, obs).map_err(|f| Failure::new(format!("sweep:{}", f.key), format!("forwarded gas {g} (callee consumption before the picked instruction {t}, pick #{i}): {}", f.msg)))?;
        }
    }
    obs.note("sweep-variants", n);
    if n > 0 {
        obs.nontrivial(&(consumed.len(), targets.clone()));
    }
    Ok(())
}

pub fn property() -> Property {
    Property {
        id: "C26",
        rule: "G-PROG worlds (script + 0..3 contracts, default/unit/random gas schedules, gas limits from below the first instruction to ample, forwarded gas 0/small/=cgas/>cgas/MAX) plus a storage-heavy flavour, single-stepped. Every step: cgas<=ggas, ggas monotone, cgas and ggas move together outside CALL/RET, OutOfGas zeroes cgas and takes exactly cgas from ggas, ggas strictly decreases while the run continues, CALL forwards min(requested, cgas after charges) and saves the rest in the frame, RET/RETD credit saved + unspent; ScriptResult.gas_used == limit - final ggas; and the charge of every instruction equals model::gas (schedule table read from the serialized GasCosts; classes written by hand: fixed, shared-field, dependent on register/immediate, CALL, LDC/CCP/CSIZ/CROO/BSIZ/BLDD sizes, TR/MINT balance-entry surcharge, 13 storage opcodes with a harness-side hot set and slot-length mirror); OutOfGas iff cost > cgas, a step ending in another panic may have been charged at most the cost. Non-trivial = OutOfGas inside a called contract, or >=3 storage instructions on the same (contract,key); distinct by (steps, receipts, final ggas)".into(),
        assumptions: vec![
            "C32: single-stepping does not change execution (exactly one instruction between two debugger events)".into(),
            "model::gas classes are derived from the documented meaning of the schedule fields and from reading the charging sites (no offline specification): the check detects changes to charging and mismatches between opcodes sharing a class".into(),
            "model::isa opcode table (C08) decodes the instruction word; sha2 for minted asset ids".into(),
            "verification hooks verif_call_depth / verif_call_stack_ids are faithful observers".into(),
        ],
        parts: vec![
            gen_part("invariants+cost", "world (3:1 general : storage-heavy contracts)", (6_000, 200_000), |_c: &Ctx| case(), check),
            gen_part("forwarded-gas-sweep", "the first CALL forwards exactly enough gas for the callee to run out at its final / a picked instruction (+0..47)", (1_500, 40_000), |_c: &Ctx| sweep_case(), sweep_check),
        ],
        floors: vec![("invariants+cost", "has-call", 0.10), ("invariants+cost", "oog-inside-call", 0.02), ("invariants+cost", "has-exact-storage", 0.10)],
    }
}
