//! C30 — Execution touches only the state of contracts listed as inputs.
//!
//! * `Recorder<MemoryStorage>`: a storage wrapper implementing every trait the interpreter
//!   needs; it delegates everything and logs `(table, contract id, operation)` for each access
//!   to the contract tables (code, state, balances), the blob table and the bytecode table.
//! * part `recorder`: worlds whose scripts / contracts CALL, TR, BAL, CSIZ, CROO, CCP, LDC
//!   arbitrary contract ids (listed, deployed-but-unlisted, missing).  Every logged contract id
//!   must be a contract input; every call frame's contract must be a contract input; an
//!   instruction that names a non-input contract must not complete.
//! * part `metamorphic`: the same world is run with the unlisted contracts (a) present,
//!   (b) removed from storage, (c) present with other code / state / balances: state, receipts,
//!   output transaction and the storage of everything else must be identical.
//! * part `predicates`: predicate programs containing a contract / storage instruction, checked
//!   by `check_predicates` over the recorder: no contract-table access, the instruction panics.
use crate::engine::*;
use crate::vm::prog::{self, CodeOp, Tpl, Val, Weights};
use crate::vm::world::{self, run_on, storage_fingerprint, Built, RunOut, WorldSpec};
use crate::{ensure, fail};
use fuel_asm::{Instruction, Opcode, PanicReason, RegId};
use fuel_storage::{Mappable, StorageInspect, StorageMutate, StorageRead, StorageReadError, StorageSize, StorageWrite};
use fuel_tx::{ConsensusParameters, Finalizable, Input, Receipt, TransactionBuilder, TxPointer, UtxoId};
use fuel_types::{AssetId, BlobId, BlockHeight, Bytes32, ContractId, Word};
use fuel_vm::checked_transaction::{CheckError, CheckPredicateParams, CheckPredicates, IntoChecked};
use fuel_vm::error::PredicateVerificationFailed;
use fuel_vm::interpreter::{MemoryInstance, NotSupportedEcal};
use fuel_vm::state::{DebugEval, ProgramState};
use fuel_vm::storage::predicate::PredicateStorageRequirements;
use fuel_vm::storage::{BlobData, ContractsAssets, ContractsAssetsStorage, ContractsRawCode, ContractsState, InterpreterStorage, MemoryStorage, UploadedBytecodes};
use proptest::prelude::*;
use serde::{Deserialize, Serialize};
use std::borrow::Cow;
use std::collections::BTreeSet;
use std::sync::{Arc, Mutex};

// ------------------------------------------------------------------ the recorder

#[derive(Debug, Clone, Copy, PartialEq, Eq, PartialOrd, Ord, Hash)]
pub enum Table {
    ContractsRawCode,
    ContractsState,
    ContractsAssets,
    BlobData,
    UploadedBytecodes,
}

impl Table {
    pub fn is_contract_table(self) -> bool {
        matches!(self, Table::ContractsRawCode | Table::ContractsState | Table::ContractsAssets)
    }
}

#[derive(Debug, Clone, PartialEq, Eq)]
pub struct Access {
    pub table: Table,
    /// the contract the key belongs to (None for blob / bytecode tables)
    pub contract: Option<ContractId>,
    /// get | contains | size | read | write | remove | remove-range
    pub op: &'static str,
}

pub struct Recorder<S> {
    pub inner: S,
    pub log: Arc<Mutex<Vec<Access>>>,
}

impl<S> Recorder<S> {
    pub fn new(inner: S) -> Self {
        Recorder { inner, log: Arc::new(Mutex::new(vec![])) }
    }
    fn rec(&self, table: Table, contract: Option<ContractId>, op: &'static str) {
        self.log.lock().expect("log").push(Access { table, contract, op });
    }
    pub fn len(&self) -> usize {
        self.log.lock().expect("log").len()
    }
    pub fn since(&self, n: usize) -> Vec<Access> {
        self.log.lock().expect("log")[n..].to_vec()
    }
}

trait KeyContract {
    fn contract_of(&self) -> Option<ContractId>;
}
impl KeyContract for ContractId {
    fn contract_of(&self) -> Option<ContractId> {
        Some(*self)
    }
}
impl KeyContract for fuel_vm::storage::ContractsStateKey {
    fn contract_of(&self) -> Option<ContractId> {
        Some(*self.contract_id())
    }
}
impl KeyContract for fuel_vm::storage::ContractsAssetKey {
    fn contract_of(&self) -> Option<ContractId> {
        Some(*self.contract_id())
    }
}
impl KeyContract for BlobId {
    fn contract_of(&self) -> Option<ContractId> {
        None
    }
}
impl KeyContract for Bytes32 {
    fn contract_of(&self) -> Option<ContractId> {
        None
    }
}

type Inf = core::convert::Infallible;

macro_rules! rec_inspect {
    ($t:ty, $tab:expr) => {
        impl StorageInspect<$t> for Recorder<MemoryStorage> {
            type Error = Inf;
            fn get(&self, key: &<$t as Mappable>::Key) -> Result<Option<Cow<'_, <$t as Mappable>::OwnedValue>>, Inf> {
                self.rec($tab, key.contract_of(), "get");
                StorageInspect::<$t>::get(&self.inner, key)
            }
            fn contains_key(&self, key: &<$t as Mappable>::Key) -> Result<bool, Inf> {
                self.rec($tab, key.contract_of(), "contains");
                StorageInspect::<$t>::contains_key(&self.inner, key)
            }
        }
    };
}
macro_rules! rec_mutate {
    ($t:ty, $tab:expr) => {
        impl StorageMutate<$t> for Recorder<MemoryStorage> {
            fn insert(&mut self, key: &<$t as Mappable>::Key, value: &<$t as Mappable>::Value) -> Result<(), Inf> {
                self.rec($tab, key.contract_of(), "write");
                StorageMutate::<$t>::insert(&mut self.inner, key, value)
            }
            fn replace(&mut self, key: &<$t as Mappable>::Key, value: &<$t as Mappable>::Value) -> Result<Option<<$t as Mappable>::OwnedValue>, Inf> {
                self.rec($tab, key.contract_of(), "write");
                StorageMutate::<$t>::replace(&mut self.inner, key, value)
            }
            fn remove(&mut self, key: &<$t as Mappable>::Key) -> Result<(), Inf> {
                self.rec($tab, key.contract_of(), "remove");
                StorageMutate::<$t>::remove(&mut self.inner, key)
            }
            fn take(&mut self, key: &<$t as Mappable>::Key) -> Result<Option<<$t as Mappable>::OwnedValue>, Inf> {
                self.rec($tab, key.contract_of(), "remove");
                StorageMutate::<$t>::take(&mut self.inner, key)
            }
        }
    };
}
macro_rules! rec_size_read {
    ($t:ty, $tab:expr) => {
        impl StorageSize<$t> for Recorder<MemoryStorage> {
            fn size_of_value(&self, key: &<$t as Mappable>::Key) -> Result<Option<usize>, Inf> {
                self.rec($tab, key.contract_of(), "size");
                StorageSize::<$t>::size_of_value(&self.inner, key)
            }
        }
        impl StorageRead<$t> for Recorder<MemoryStorage> {
            fn read_exact(&self, key: &<$t as Mappable>::Key, offset: usize, buf: &mut [u8]) -> Result<Result<usize, StorageReadError>, Inf> {
                self.rec($tab, key.contract_of(), "read");
                StorageRead::<$t>::read_exact(&self.inner, key, offset, buf)
            }
            fn read_zerofill(&self, key: &<$t as Mappable>::Key, offset: usize, buf: &mut [u8]) -> Result<Result<usize, StorageReadError>, Inf> {
                self.rec($tab, key.contract_of(), "read");
                StorageRead::<$t>::read_zerofill(&self.inner, key, offset, buf)
            }
            fn read_alloc(&self, key: &<$t as Mappable>::Key) -> Result<Option<Vec<u8>>, Inf> {
                self.rec($tab, key.contract_of(), "read");
                StorageRead::<$t>::read_alloc(&self.inner, key)
            }
        }
    };
}
macro_rules! rec_write {
    ($t:ty, $tab:expr) => {
        impl StorageWrite<$t> for Recorder<MemoryStorage> {
            fn write_bytes(&mut self, key: &<$t as Mappable>::Key, buf: &[u8]) -> Result<(), Inf> {
                self.rec($tab, key.contract_of(), "write");
                StorageWrite::<$t>::write_bytes(&mut self.inner, key, buf)
            }
            fn replace_bytes(&mut self, key: &<$t as Mappable>::Key, buf: &[u8]) -> Result<Option<Vec<u8>>, Inf> {
                self.rec($tab, key.contract_of(), "write");
                StorageWrite::<$t>::replace_bytes(&mut self.inner, key, buf)
            }
            fn take_bytes(&mut self, key: &<$t as Mappable>::Key) -> Result<Option<Vec<u8>>, Inf> {
                self.rec($tab, key.contract_of(), "remove");
                StorageWrite::<$t>::take_bytes(&mut self.inner, key)
            }
        }
    };
}

rec_inspect!(ContractsRawCode, Table::ContractsRawCode);
rec_mutate!(ContractsRawCode, Table::ContractsRawCode);
rec_size_read!(ContractsRawCode, Table::ContractsRawCode);
rec_write!(ContractsRawCode, Table::ContractsRawCode);
rec_inspect!(ContractsState, Table::ContractsState);
rec_mutate!(ContractsState, Table::ContractsState);
rec_size_read!(ContractsState, Table::ContractsState);
rec_write!(ContractsState, Table::ContractsState);
rec_inspect!(ContractsAssets, Table::ContractsAssets);
rec_mutate!(ContractsAssets, Table::ContractsAssets);
rec_inspect!(BlobData, Table::BlobData);
rec_mutate!(BlobData, Table::BlobData);
rec_size_read!(BlobData, Table::BlobData);
rec_write!(BlobData, Table::BlobData);
rec_inspect!(UploadedBytecodes, Table::UploadedBytecodes);
rec_mutate!(UploadedBytecodes, Table::UploadedBytecodes);

impl ContractsAssetsStorage for Recorder<MemoryStorage> {}

impl InterpreterStorage for Recorder<MemoryStorage> {
    type DataError = Inf;
    fn block_height(&self) -> Result<BlockHeight, Inf> {
        self.inner.block_height()
    }
    fn consensus_parameters_version(&self) -> Result<u32, Inf> {
        self.inner.consensus_parameters_version()
    }
    fn state_transition_version(&self) -> Result<u32, Inf> {
        self.inner.state_transition_version()
    }
    fn timestamp(&self, height: BlockHeight) -> Result<Word, Inf> {
        self.inner.timestamp(height)
    }
    fn block_hash(&self, block_height: BlockHeight) -> Result<Bytes32, Inf> {
        self.inner.block_hash(block_height)
    }
    fn coinbase(&self) -> Result<ContractId, Inf> {
        self.inner.coinbase()
    }
    fn set_consensus_parameters(&mut self, version: u32, consensus_parameters: &ConsensusParameters) -> Result<Option<ConsensusParameters>, Inf> {
        self.inner.set_consensus_parameters(version, consensus_parameters)
    }
    fn set_state_transition_bytecode(&mut self, version: u32, hash: &Bytes32) -> Result<Option<Bytes32>, Inf> {
        self.inner.set_state_transition_bytecode(version, hash)
    }
    fn contract_state_remove_range(&mut self, contract: &ContractId, start_key: &Bytes32, range: usize) -> Result<(), Inf> {
        self.rec(Table::ContractsState, Some(*contract), "remove-range");
        self.inner.contract_state_remove_range(contract, start_key, range)
    }
}

impl PredicateStorageRequirements for Recorder<MemoryStorage> {
    fn storage_error_to_string(error: Inf) -> String {
        format!("{error:?}")
    }
}

// ------------------------------------------------------------------ naming a contract

/// If the instruction at `$pc` names a contract, return (mnemonic, contract id) — the id is read
/// from the pre-state memory; `None` id = the pointer is not readable.
fn named_contract<S>(vm: &world::Vm<S>, raw: u32) -> Option<(&'static str, Option<ContractId>)> {
    let regs = vm.registers();
    let g = |r: RegId| regs[r.to_u8() as usize];
    let id_at = |ptr: u64| vm.memory().read_bytes::<_, 32>(ptr).ok().map(ContractId::from);
    Some(match Instruction::try_from(raw).ok()? {
        Instruction::CALL(i) => {
            let (a, _, _, _) = i.unpack();
            ("CALL", id_at(g(a)))
        }
        Instruction::TR(i) => {
            let (a, _, _) = i.unpack();
            ("TR", id_at(g(a)))
        }
        Instruction::BAL(i) => {
            let (_, _, c) = i.unpack();
            ("BAL", id_at(g(c)))
        }
        Instruction::CSIZ(i) => {
            let (_, b) = i.unpack();
            ("CSIZ", id_at(g(b)))
        }
        Instruction::CROO(i) => {
            let (_, b) = i.unpack();
            ("CROO", id_at(g(b)))
        }
        Instruction::CCP(i) => {
            let (_, b, _, _) = i.unpack();
            ("CCP", id_at(g(b)))
        }
        Instruction::LDC(i) => {
            let (a, _, _, mode) = i.unpack();
            if mode.to_u8() != 0 {
                return None;
            }
            ("LDC", id_at(g(a)))
        }
        _ => return None,
    })
}

fn opname(raw: Option<u32>) -> String {
    raw.and_then(|w| Opcode::try_from((w >> 24) as u8).ok()).map(|o| format!("{o:?}")).unwrap_or_else(|| "?".into())
}

/// failures whose key is the F5 signature are reported only when nothing else is wrong
fn is_f5_key(k: &str) -> bool {
    k.ends_with(":CALL") && (k.starts_with("recorder:ContractsRawCode:size:not-in-inputs") || k.starts_with("metamorphic:outcome-depends-on-unlisted-contract"))
}

fn pick_failure(mut fs: Vec<Failure>) -> Check {
    if fs.is_empty() {
        return Ok(());
    }
    let i = fs.iter().position(|f| !is_f5_key(&f.key)).unwrap_or(0);
    Err(fs.swap_remove(i))
}

// ------------------------------------------------------------------ part 1: recorder

#[derive(Debug, Clone, Serialize, Deserialize)]
pub struct Case {
    pub world: WorldSpec,
}

fn build(world: &WorldSpec, obs: &mut Obs) -> Option<(Built, fuel_vm::checked_transaction::Ready<fuel_tx::Script>)> {
    let b = match world.build() {
        Ok(b) => b,
        Err(e) => {
            obs.class("world-invalid");
            obs.note(&format!("invalid:{}", e.chars().take(60).collect::<String>()), 1);
            return None;
        }
    };
    match b.ready() {
        Ok(r) => Some((b, r)),
        Err(_) => {
            obs.class("world-not-ready");
            None
        }
    }
}

type Named = Option<(&'static str, Option<ContractId>)>;

/// judge the accesses `entries` made by instruction `op`
fn judge(entries: &[Access], listed: &BTreeSet<ContractId>, deployed: &BTreeSet<ContractId>, op: &str, named: &Named, completed: bool, failures: &mut Vec<Failure>) {
    for a in entries {
        if !a.table.is_contract_table() {
            continue;
        }
        let Some(c) = a.contract else { continue };
        if !listed.contains(&c) {
            let kind = if deployed.contains(&c) { "deployed" } else { "absent" };
            failures.push(Failure::new(
                format!("recorder:{:?}:{}:not-in-inputs:{}", a.table, a.op, op),
                format!("{op} accessed {:?} ({}) of contract {c} which is not a contract input ({kind} in storage); inputs: {listed:?}", a.table, a.op),
            ));
        }
    }
    // an instruction naming a non-input contract must not complete
    if let (Some((nop, Some(id))), true) = (named, completed) {
        if !listed.contains(id) {
            failures.push(Failure::new(format!("names-non-input:completed:{nop}"), format!("{nop} on contract {id} (not an input) completed")));
        }
    }
}

fn check_recorder(case: &Case, obs: &mut Obs) -> Check {
    let Some((b, ready)) = build(&case.world, obs) else { return Ok(()) };
    let listed: BTreeSet<ContractId> = b.listed.iter().copied().collect();
    let deployed: BTreeSet<ContractId> = b.cids[..b.cids.len() - 1].iter().copied().collect();
    let mut vm = b.new_vm(Recorder::new(b.storage.clone()));
    let mut failures: Vec<Failure> = vec![];
    let mut named_non_input: BTreeSet<String> = BTreeSet::new();
    let mut named_listed = false;
    let mut steps = 0u64;
    let mut depth_max = 0usize;
    // window of the instruction in flight
    let mut start = 0usize;
    let mut cur_op = "init".to_string();
    let mut cur_named: Named = None;

    vm.set_single_stepping(true);
    let mut state = match vm.transact(ready) {
        Ok(s) => Ok(*s.state()),
        Err(e) => Err(format!("{e:?}")),
    };
    let max_steps = b.gas_limit + 16;
    loop {
        match state {
            Ok(ProgramState::RunProgram(DebugEval::Breakpoint(_))) => {
                let now = vm.as_ref().len();
                // the previous instruction completed: we are at the next one
                judge(&vm.as_ref().since(start)[..now - start], &listed, &deployed, &cur_op, &cur_named, steps > 0, &mut failures);
                steps += 1;
                if steps > max_steps {
                    return Err(Failure::new("harness-step-budget", format!("more than {max_steps} steps")));
                }
                let ids = vm.verif_call_stack_ids();
                depth_max = depth_max.max(ids.len());
                for (d, c) in ids.iter().enumerate() {
                    if !listed.contains(c) {
                        failures.push(Failure::new("active-contract:not-in-inputs", format!("call frame {d} runs contract {c} which is not a contract input")));
                    }
                }
                let pc = vm.registers()[RegId::PC];
                let raw = vm.memory().read_bytes::<_, 4>(pc).ok().map(u32::from_be_bytes);
                cur_named = raw.and_then(|w| named_contract(&vm, w));
                if let Some((op, Some(id))) = &cur_named {
                    if listed.contains(id) {
                        named_listed = true;
                    } else {
                        named_non_input.insert(format!("{op}:{}", if deployed.contains(id) { "deployed" } else { "absent" }));
                    }
                }
                cur_op = opname(raw);
                start = now;
                state = vm.resume().map_err(|e| format!("{e:?}"));
            }
            _ => break,
        }
    }
    // the last instruction (it ended the run, or initialisation failed): accesses only
    judge(&vm.as_ref().since(start), &listed, &deployed, &cur_op, &cur_named, false, &mut failures);
    let out = RunOut { state, receipts: vm.receipts().to_vec(), tx: vm.transaction().clone() };
    super::c32::classify_run(&out, obs);
    for n in &named_non_input {
        obs.class(&format!("names-non-input:{n}"));
    }
    if !named_non_input.is_empty() {
        obs.class("names-non-input-contract");
        obs.nontrivial(&(named_non_input.iter().cloned().collect::<Vec<_>>(), steps, out.receipts.len()));
    }
    if named_listed {
        obs.class("names-listed-contract");
    }
    if depth_max >= 1 {
        obs.class("runs-inside-call");
    }
    obs.note("steps", steps);
    obs.note("contract-table-accesses", vm.as_ref().since(0).iter().filter(|a| a.table.is_contract_table()).count() as u64);
    pick_failure(failures)
}

// ------------------------------------------------------------------ part 2: metamorphic

/// remove every trace of `cid` from `st`
fn remove_contract(st: &mut MemoryStorage, cid: &ContractId, assets: &[AssetId]) {
    let _ = StorageMutate::<ContractsRawCode>::remove(st, cid);
    let keys: Vec<_> = st.all_contract_state().filter(|(k, _)| k.contract_id() == cid).map(|(k, _)| *k).collect();
    for k in keys {
        let _ = StorageMutate::<ContractsState>::remove(st, &k);
    }
    for a in assets {
        let _ = StorageMutate::<ContractsAssets>::remove(st, &(cid, a).into());
    }
}

/// replace code / state / balances of `cid` by other values (other code size)
fn alter_contract(st: &mut MemoryStorage, cid: &ContractId, assets: &[AssetId], grow: usize) {
    let old = StorageRead::<ContractsRawCode>::read_alloc(st, cid).ok().flatten().unwrap_or_default();
    let mut code = vec![0x47u8; old.len() + grow];
    code[..old.len().min(8)].copy_from_slice(&old[..old.len().min(8)]);
    let _ = st.storage_contract_insert(cid, &code);
    let keys: Vec<_> = st.all_contract_state().filter(|(k, _)| k.contract_id() == cid).map(|(k, _)| *k).collect();
    for k in keys {
        let _ = st.contract_state_insert(cid, k.state_key(), &[0xAB; 40]);
    }
    let _ = st.contract_state_insert(cid, &Bytes32::from([0x77; 32]), &[1, 2, 3]);
    for a in assets {
        let _ = st.contract_asset_id_balance_insert(cid, a, 123_456_789);
    }
}

fn run_variant(b: &Built, st: MemoryStorage, unlisted: &[ContractId]) -> Result<(RunOut, String), Failure> {
    let ready = b.ready().map_err(|e| Failure::new("harness-ready", e))?;
    let mut vm = b.new_vm(st);
    let out = run_on(&mut vm, ready);
    let mut fin = vm.as_ref().clone();
    for c in unlisted {
        remove_contract(&mut fin, c, &b.assets);
    }
    Ok((out, storage_fingerprint(&fin)))
}

fn first_panic(o: &RunOut) -> Option<(PanicReason, String)> {
    o.receipts.iter().find_map(|r| match r {
        Receipt::Panic { reason, .. } => Some((*reason.reason(), opname(Some(*reason.instruction())))),
        _ => None,
    })
}

fn check_metamorphic(case: &Case, obs: &mut Obs) -> Check {
    let Some((b, _)) = build(&case.world, obs) else { return Ok(()) };
    let listed: BTreeSet<ContractId> = b.listed.iter().copied().collect();
    let unlisted: Vec<ContractId> = b.cids[..b.cids.len() - 1].iter().copied().filter(|c| !listed.contains(c)).collect();
    if unlisted.is_empty() {
        obs.class("no-unlisted-contract");
        return Ok(());
    }
    obs.class("has-unlisted-contract");
    let (a, fa) = run_variant(&b, b.storage.clone(), &unlisted)?;
    super::c32::classify_run(&a, obs);
    let mut failures = vec![];
    for variant in ["removed", "altered"] {
        let mut st = b.storage.clone();
        for (i, c) in unlisted.iter().enumerate() {
            if variant == "removed" {
                remove_contract(&mut st, c, &b.assets);
            } else {
                alter_contract(&mut st, c, &b.assets, 4096 * (i + 1));
            }
        }
        st.commit();
        st.persist();
        let (o, fo) = run_variant(&b, st, &unlisted)?;
        if o == a && fo == fa {
            continue;
        }
        // attribute the dependency to the instruction at which the runs part
        let (pa, po) = (first_panic(&a), first_panic(&o));
        let what = if o.state != a.state {
            "state"
        } else if o.receipts != a.receipts {
            "receipts"
        } else if o.tx != a.tx {
            "tx"
        } else {
            "storage"
        };
        let at = match (&pa, &po) {
            (Some((ra, ia)), Some((ro, io))) if ra != ro || ia != io => format!(":{}", if ia == io { ia.clone() } else { format!("{ia}/{io}") }),
            (Some((_, ia)), None) => format!(":{ia}"),
            (None, Some((_, io))) => format!(":{io}"),
            // same panics (or none): the difference is elsewhere, e.g. gas; name the last instruction of the shorter run
            (Some((_, ia)), Some(_)) => format!(":gas-or-data-before:{ia}"),
            (None, None) => String::new(),
        };
        let key = format!("metamorphic:outcome-depends-on-unlisted-contract{}{at}", if variant == "altered" { "-content" } else { "" });
        let diff = a.receipts.iter().zip(o.receipts.iter()).find(|(x, y)| x != y).map(|(x, y)| format!("{x:?} vs {y:?}")).unwrap_or_default();
        failures.push(Failure::new(key, format!("unlisted contracts {variant}: {what} differs; panics {pa:?} vs {po:?}; first differing receipt: {}", diff.chars().take(500).collect::<String>())));
    }
    obs.nontrivial(&(a.receipts.len(), unlisted.len(), format!("{:?}", first_panic(&a))));
    if let Some((PanicReason::ContractNotInInputs, op)) = first_panic(&a) {
        obs.class(&format!("panics:ContractNotInInputs:{op}"));
    }
    pick_failure(failures)
}

// ------------------------------------------------------------------ part 3: predicates

#[derive(Debug, Clone, Serialize, Deserialize)]
pub struct PredCase {
    pub world: WorldSpec,
    /// benign instructions before the contract / storage instruction
    pub pre: Vec<Tpl>,
    pub op: Tpl,
    /// 0 coin, 1 message-coin, 2 message-data predicate input
    pub kind: u8,
}

/// does this template read or write contract state when executed (ContractInstructionNotAllowed in predicates)?
fn is_contract_op(t: &Tpl) -> bool {
    match t {
        Tpl::Call { .. } | Tpl::Tr { .. } | Tpl::Tro { .. } | Tpl::Bal { .. } | Tpl::Mint { .. } | Tpl::Burn { .. } | Tpl::Smo { .. } | Tpl::Storage { .. } => true,
        Tpl::Code { op, .. } => matches!(op, CodeOp::Ldc0 | CodeOp::Ccp | CodeOp::Csiz | CodeOp::Croo),
        _ => false,
    }
}

fn check_predicate(case: &PredCase, obs: &mut Obs) -> Check {
    let Some((b, _)) = build(&case.world, obs) else { return Ok(()) };
    let mut body = case.pre.clone();
    body.push(case.op.clone());
    body.push(Tpl::Ret { v: Val::Imm(1) });
    let mut lay = b.layout.clone();
    lay.dag = false;
    let code = prog::to_bytes(&prog::assemble(&body, &lay));
    let owner = Input::predicate_owner(&code);
    let gas_used = 1_000_000u64;
    let mut tb = TransactionBuilder::script(fuel_asm::op::ret(RegId::ONE).to_bytes().to_vec(), b.script_data.clone());
    tb.with_params(b.params.clone());
    tb.script_gas_limit(1000);
    tb.max_fee_limit(1 << 40);
    let utxo = UtxoId::new(Bytes32::from([9; 32]), 1);
    let input = match case.kind % 3 {
        0 => Input::coin_predicate(utxo, owner, 1 << 41, AssetId::zeroed(), TxPointer::default(), gas_used, code.clone(), vec![1, 2, 3]),
        1 => Input::message_coin_predicate(world::address(0), owner, 1 << 41, fuel_types::Nonce::from([3; 32]), gas_used, code.clone(), vec![]),
        _ => Input::message_data_predicate(world::address(0), owner, 1 << 41, fuel_types::Nonce::from([3; 32]), gas_used, vec![7; 9], code.clone(), vec![5]),
    };
    if case.kind % 3 == 2 {
        // a data message cannot pay fees
        tb.add_unsigned_coin_input(world::secret(0), UtxoId::new(Bytes32::from([8; 32]), 0), 1 << 41, AssetId::zeroed(), TxPointer::default());
    }
    tb.add_input(input);
    for (n, id) in b.listed.iter().enumerate() {
        let idx = tb.inputs().len() as u16;
        tb.add_input(Input::contract(UtxoId::new(Bytes32::from([0x40 + n as u8; 32]), 0), Bytes32::zeroed(), Bytes32::zeroed(), TxPointer::default(), *id));
        tb.add_output(fuel_tx::Output::contract(idx, Bytes32::zeroed(), Bytes32::zeroed()));
    }
    let tx = tb.finalize();
    let height: BlockHeight = case.world.height.into();
    let checked = match tx.into_checked_basic(height, &b.params) {
        Ok(c) => c,
        Err(e) => {
            obs.class("pred-tx-invalid");
            obs.note(&format!("invalid:{}", format!("{e:?}").chars().take(60).collect::<String>()), 1);
            return Ok(());
        }
    };
    let cp: CheckPredicateParams = (&b.params).into();
    let rec = Recorder::new(b.storage.clone());
    let res = checked.check_predicates(&cp, MemoryInstance::new(), &rec, NotSupportedEcal);
    let log = rec.since(0);
    let opn = match &case.op {
        Tpl::Storage { op, .. } => format!("{op:?}"),
        Tpl::Code { op, .. } => format!("{op:?}"),
        t => format!("{t:?}").split([' ', '{']).next().unwrap_or("?").to_string(),
    };
    obs.class(&format!("pred-op:{opn}"));
    for a in &log {
        if a.table.is_contract_table() {
            fail!(format!("predicate:contract-table-access:{:?}:{}:{opn}", a.table, a.op), "predicate execution accessed {:?} ({}) of {:?}", a.table, a.op, a.contract);
        }
    }
    if log.iter().any(|a| a.table == Table::BlobData) {
        obs.class("pred-reads-blob-table");
    }
    let contract_op = is_contract_op(&case.op);
    match res {
        Err(CheckError::PredicateVerificationFailed(PredicateVerificationFailed::PanicInstruction { instruction, .. })) => {
            let reason = *instruction.reason();
            obs.class(&format!("pred-panic:{reason:?}"));
            // a template expands to operand set-up instructions plus the instruction itself: which one panicked?
            let at = Opcode::try_from((*instruction.instruction() >> 24) as u8).ok();
            use Opcode::*;
            let at_contract_instruction = matches!(at, Some(CALL | TR | TRO | BAL | MINT | BURN | SMO | CCP | CSIZ | CROO | LDC | SCWQ | SRW | SRWQ | SWW | SWWQ | SCLR | SRDD | SRDI | SWRD | SWRI | SUPD | SUPI | SPLD));
            if contract_op && at_contract_instruction {
                ensure!(reason == PanicReason::ContractInstructionNotAllowed, format!("predicate:contract-op-wrong-panic:{opn}:{reason:?}"), "{opn} in a predicate panicked with {reason:?} at {at:?}, expected ContractInstructionNotAllowed");
                obs.class("pred-contract-instruction-refused");
                obs.nontrivial(&(opn, case.kind % 3, case.pre.len()));
            } else if contract_op {
                // the operand set-up (address arithmetic of a wild pointer) ended the predicate first
                obs.class("pred-setup-panicked-first");
            }
        }
        other => {
            let d = format!("{other:?}");
            obs.class(&format!("pred-result:{}", d.chars().take(40).collect::<String>()));
            ensure!(!contract_op, format!("predicate:contract-op-did-not-panic:{opn}"), "{opn} in a predicate did not panic: {}", d.chars().take(300).collect::<String>());
        }
    }
    Ok(())
}

// ------------------------------------------------------------------ strategies

/// weights: alu, mem, jump, asset, call, end, log, storage, code, misc
const W30_SCRIPT: Weights = Weights([3, 2, 1, 6, 8, 0, 1, 1, 8, 1]);
const W30_CONTRACT: Weights = Weights([3, 2, 1, 6, 5, 1, 1, 4, 7, 1]);

/// worlds with a raised share of deployed-but-unlisted contracts and of the missing id
pub fn world30() -> impl Strategy<Value = WorldSpec> {
    (
        world::world(W30_SCRIPT, 30, 3),
        prop::collection::vec(prog::body(W30_CONTRACT, true, 24), 3),
        // per contract: unlisted?
        prop_oneof![2 => Just([false, false, false]), 2 => Just([false, true, false]), 2 => Just([true, false, false]), 1 => Just([false, false, true]), 1 => Just([true, true, false]), 1 => Just([false, true, true])],
        prop::collection::vec((prop_oneof![6 => 0u8..3, 3 => 4u8..12], crate::gens::word(), crate::gens::word()), 2..6),
    )
        .prop_map(|(mut w, bodies, unl, calls)| {
            for (i, c) in w.contracts.iter_mut().enumerate() {
                c.body = bodies[i].clone();
                c.listed = !unl[i];
            }
            w.calls = calls;
            // enough gas to get somewhere
            w.gas_limit = w.gas_limit.max(2000);
            w
        })
}

fn contract_op_tpl() -> impl Strategy<Value = Tpl> {
    prop_oneof![
        3 => prog::call_tpl(false),
        1 => prog::call_tpl(true),
        6 => prog::asset_tpl(false, true),
        2 => prog::asset_tpl(true, true),
        6 => prog::storage_tpl(false),
        2 => prog::storage_tpl(true),
        6 => prog::code_tpl(false),
        2 => prog::code_tpl(true),
    ]
}

pub fn pred_case() -> impl Strategy<Value = PredCase> {
    (world::world(prog::W_SCRIPT, 4, 2), prop::collection::vec(prog::alu_tpl(false), 0..6), contract_op_tpl(), 0u8..3).prop_map(|(world, pre, op, kind)| {
        // keep the preamble free of anything that can end the predicate: plain register arithmetic only
        let pre = pre.into_iter().filter(|t| matches!(t, Tpl::Movi { .. } | Tpl::Move { .. } | Tpl::Not { .. } | Tpl::LoadWord { .. })).collect();
        PredCase { world, pre, op, kind }
    })
}

pub fn property() -> Property {
    Property {
        id: "C30",
        rule: "G-PROG worlds (script + 0..3 contracts; template weights raised for CALL / TR / BAL / mint / LDC / CCP / CSIZ / CROO; 70% of worlds have 1–2 deployed contracts that are not inputs, a third of the Call structs and every 'wild' id selector can name the missing contract id). recorder: every access of the run to ContractsRawCode / ContractsState / ContractsAssets logged by a delegating Recorder<MemoryStorage> (get, contains, size, read, write, remove, remove-range), attributed to the instruction in flight, must concern a contract input; every call frame's contract must be an input; an instruction naming a non-input contract must not complete. metamorphic: the world is run with the unlisted contracts present, removed from storage, and present with other code size / state / balances: state, receipts, output tx and the remaining storage must be identical. predicates: a predicate (coin / message-coin / message-data input) = prelude + register arithmetic + one contract or storage instruction template + RET 1, checked with check_predicates over the recorder: no contract-table access, and the instruction panics with ContractInstructionNotAllowed. Non-trivial = the run executes an instruction naming a non-input contract (recorder), the world has an unlisted contract (metamorphic), the predicate reaches a contract instruction (predicates).".into(),
        assumptions: vec![
            "C32: single-stepping does not change results (accesses are attributed to the instruction between two debugger events)".into(),
            "the Recorder only adds logging: every trait method delegates to MemoryStorage (the provided methods of InterpreterStorage / ContractsAssetsStorage are not overridden, so they run through the logged primitives)".into(),
            "MemoryStorage Debug output is a faithful rendering of its tables (used as storage fingerprint)".into(),
        ],
        parts: vec![
            gen_part("recorder", "world × access log / active contract / naming instruction", (5_000, 100_000), |_c: &Ctx| world30().prop_map(|world| Case { world }), check_recorder),
            gen_part("metamorphic", "world run with unlisted contracts present / removed / altered", (5_000, 150_000), |_c: &Ctx| world30().prop_map(|world| Case { world }), check_metamorphic),
            gen_part("predicates", "predicate with one contract / storage instruction", (4_000, 100_000), |_c: &Ctx| pred_case(), check_predicate),
        ],
        floors: vec![("predicates", "pred-contract-instruction-refused", 0.50), ("recorder", "names-non-input-contract", 0.15), ("recorder", "runs-inside-call", 0.20), ("metamorphic", "has-unlisted-contract", 0.40)],
    }
}
