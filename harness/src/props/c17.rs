//! C17 — Signing, recovery and verification are mutually consistent.
//!
//! secp256k1 / secp256r1: algebraic laws on library-produced signatures (low s, recovery bit
//! free, recover = d·G computed by the harness, verify, other message fails, bit flips fail).
//! Ed25519: `fuel_crypto::ed25519::verify` against (a) ed25519-dalek `verify_strict` and (b) a
//! strict verifier written here from curve25519-dalek point arithmetic, on valid signatures,
//! mutations and constructed strictness witnesses (non-canonical S, small-order key,
//! small-order R, mixed-order key/R). VM: ECK1/ECR1/ED19 report what the library reports.
use crate::engine::*;
use crate::gens::crypto::*;
use crate::gens::pick;
use crate::{ensure, fail};
use curve25519_dalek::constants::{ED25519_BASEPOINT_POINT, EIGHT_TORSION};
use curve25519_dalek::edwards::{CompressedEdwardsY, EdwardsPoint};
use curve25519_dalek::scalar::Scalar as EdScalar;
use curve25519_dalek::traits::IsIdentity;
use fuel_crypto::{Message, SecretKey, Signature};
use fuel_types::{Bytes32, Bytes64};
use proptest::prelude::*;
use serde::{Deserialize, Serialize};
use sha2::{Digest, Sha512};

// ================================================================== secp256k1 / secp256r1

#[derive(Debug, Clone, Serialize, Deserialize)]
pub struct EcCase {
    sk: Hx<32>,
    msg: Hx<32>,
    other_msg: Hx<32>,
    /// bit to flip, mapped monotonically onto 0..512
    flip: u16,
}

fn ec_case(sk: impl Strategy<Value = Hx<32>>) -> impl Strategy<Value = EcCase> {
    let other = prop_oneof![
        3 => msg32().prop_map(Some),
        1 => Just(None),
    ];
    (sk, msg32(), other, any::<u16>(), any::<u16>()).prop_map(|(sk, msg, other, flip, b)| {
        // None: a one-bit neighbour of the message
        let other_msg = other.unwrap_or_else(|| {
            let mut m = msg.0;
            flip_bit(&mut m, pick(b, 256));
            Hx(m)
        });
        EcCase { sk, msg, other_msg, flip }
    })
}

/// x mod n for 32 big-endian bytes and n > 2^255 (at most one subtraction)
fn reduce_once(x: &[u8; 32], n: &[u8; 32]) -> [u8; 32] {
    if x < n {
        return *x;
    }
    let mut out = [0u8; 32];
    let mut borrow = 0i16;
    for i in (0..32).rev() {
        let v = x[i] as i16 - n[i] as i16 - borrow;
        if v < 0 {
            out[i] = (v + 256) as u8;
            borrow = 1;
        } else {
            out[i] = v as u8;
            borrow = 0;
        }
    }
    out
}

/// the statement's checks on the shape of a produced signature: returns (r, s, parity)
fn shape(curve: &str, sig: &[u8; 64], n: &[u8; 32], half: &[u8; 32]) -> Result<([u8; 32], [u8; 32], bool), Failure> {
    let r: [u8; 32] = sig[..32].try_into().unwrap();
    let mut s: [u8; 32] = sig[32..].try_into().unwrap();
    let odd = s[0] & 0x80 != 0;
    s[0] &= 0x7f;
    ensure!(r != ZERO32 && r < *n, format!("{curve}:sign-r-out-of-range"), "r = {}", hex::encode(r));
    ensure!(s != ZERO32, format!("{curve}:sign-s-zero"), "s = 0");
    // s <= n/2 < 2^255 : normalised, and the top bit of byte 32 carries only the parity
    ensure!(s <= *half, format!("{curve}:sign-not-low-s"), "s = {} > n/2", hex::encode(s));
    Ok((r, s, odd))
}

fn k1_point(d: &[u8; 32]) -> Option<[u8; 64]> {
    use k256::elliptic_curve::sec1::ToEncodedPoint;
    use k256::elliptic_curve::PrimeField;
    let d: k256::Scalar = Option::from(k256::Scalar::from_repr((*d).into()))?;
    let q = (k256::ProjectivePoint::GENERATOR * d).to_affine();
    let e = q.to_encoded_point(false);
    let mut out = [0u8; 64];
    out[..32].copy_from_slice(e.x()?);
    out[32..].copy_from_slice(e.y()?);
    Some(out)
}

fn r1_point(d: &[u8; 32]) -> Option<[u8; 64]> {
    use p256::elliptic_curve::sec1::ToEncodedPoint;
    use p256::elliptic_curve::PrimeField;
    let d: p256::Scalar = Option::from(p256::Scalar::from_repr((*d).into()))?;
    let q = (p256::ProjectivePoint::GENERATOR * d).to_affine();
    let e = q.to_encoded_point(false);
    let mut out = [0u8; 64];
    out[..32].copy_from_slice(e.x()?);
    out[32..].copy_from_slice(e.y()?);
    Some(out)
}

fn classify_ec(c: &EcCase, n: &[u8; 32], obs: &mut Obs) -> (bool, usize) {
    let congruent = reduce_once(&c.msg.0, n) == reduce_once(&c.other_msg.0, n);
    let bit = pick(c.flip, 512);
    obs.class(if congruent { "other-message-congruent-mod-n(skipped)" } else { "other-message-differs" });
    obs.class(match bit {
        0..=255 => "flip-r",
        256 => "flip-parity",
        _ => "flip-s",
    });
    if c.msg.0 >= *n {
        obs.class("message >= n");
    }
    obs.nontrivial(&(c.sk.0, c.msg.0, c.other_msg.0, bit));
    (congruent, bit)
}

fn check_k1(c: &EcCase, obs: &mut Obs) -> Check {
    let Ok(sk) = SecretKey::try_from(Bytes32::from(c.sk.0)) else {
        obs.class("invalid-secret(outside the type)");
        return Ok(());
    };
    let (congruent, bit) = classify_ec(c, &K1_N, obs);
    let m = Message::from_bytes(c.msg.0);
    let want = k1_point(&c.sk.0).ok_or_else(|| Failure::new("harness-k1-point", "d·G"))?;
    let pk = sk.public_key();
    ensure!(*pk == want, "k1:public-key-not-dG", "sk {:?}: public_key {pk:?}, d·G = {}", c.sk, hex::encode(want));

    let sig = match catch_panic(|| Signature::sign(&sk, &m)) {
        Ok(s) => s,
        Err((loc, msg)) => fail!("k1:sign-panicked", "sk {:?} msg {:?}: panic at {loc}: {msg}", c.sk, c.msg),
    };
    shape("k1", &sig, &K1_N, &K1_HALF_N)?;

    let rec = sig.recover(&m);
    ensure!(matches!(&rec, Ok(p) if **p == want), "k1:recover-not-signer", "sk {:?} msg {:?} sig {sig:?}: recover = {rec:?}, signer {}", c.sk, c.msg, hex::encode(want));
    let ver = sig.verify(&pk, &m);
    ensure!(ver.is_ok(), "k1:verify-rejects-own-signature", "sk {:?} msg {:?} sig {sig:?}: {ver:?}", c.sk, c.msg);

    // the parity bit selects the key: the other value must not give the signer
    let mut other_parity = *sig;
    other_parity[32] ^= 0x80;
    let rec = Signature::from_bytes(other_parity).recover(&m);
    ensure!(!matches!(&rec, Ok(p) if **p == want), "k1:other-parity-recovers-signer", "sig {} recovers the signer with either parity bit", hex::encode(other_parity));

    // another message
    if !congruent {
        let m2 = Message::from_bytes(c.other_msg.0);
        let rec = sig.recover(&m2);
        ensure!(!matches!(&rec, Ok(p) if **p == want), "k1:recover-other-message-gives-signer", "sig {sig:?} made for {:?} recovers the signer for {:?}", c.msg, c.other_msg);
        ensure!(sig.verify(&pk, &m2).is_err(), "k1:verify-accepts-other-message", "sig {sig:?} made for {:?} verifies for {:?}", c.msg, c.other_msg);
    }

    // a single flipped bit
    let mut f = *sig;
    flip_bit(&mut f, bit);
    let f = Signature::from_bytes(f);
    let rec = f.recover(&m);
    ensure!(!matches!(&rec, Ok(p) if **p == want), "k1:recover-bitflip-gives-signer", "bit {bit} of {sig:?} flipped still recovers the signer");
    if bit != PARITY_BIT {
        ensure!(f.verify(&pk, &m).is_err(), "k1:verify-accepts-bitflip", "bit {bit} of {sig:?} flipped still verifies");
    } else {
        // verification does not look at the parity bit (documented: "truncates recovery id")
        obs.note(if f.verify(&pk, &m).is_ok() { "parity-flip-still-verifies" } else { "parity-flip-fails-verify" }, 1);
    }
    Ok(())
}

fn check_r1(c: &EcCase, obs: &mut Obs) -> Check {
    use p256::ecdsa::signature::hazmat::PrehashVerifier;
    let Ok(signer) = p256::ecdsa::SigningKey::from_bytes(&c.sk.0.into()) else {
        obs.class("invalid-secret(outside the type)");
        return Ok(());
    };
    let (congruent, bit) = classify_ec(c, &R1_N, obs);
    let m = Message::from_bytes(c.msg.0);
    let want = r1_point(&c.sk.0).ok_or_else(|| Failure::new("harness-r1-point", "d·G"))?;
    let pk = fuel_crypto::secp256r1::encode_pubkey(*signer.verifying_key());
    ensure!(pk == want, "r1:public-key-not-dG", "sk {:?}: encode_pubkey {}, d·G = {}", c.sk, hex::encode(pk), hex::encode(want));

    let sig = match catch_panic(|| fuel_crypto::secp256r1::sign_prehashed(&signer, &m)) {
        Ok(Ok(s)) => s,
        Ok(Err(e)) => fail!("r1:sign-failed", "sk {:?} msg {:?}: {e:?}", c.sk, c.msg),
        Err((loc, msg)) => fail!("r1:sign-panicked", "sk {:?} msg {:?}: panic at {loc}: {msg}", c.sk, c.msg),
    };
    let (r, s, _) = shape("r1", &sig, &R1_N, &R1_HALF_N)?;

    // it is an ECDSA signature of the message under d·G (p256's plain verifier as referee)
    let mut sec1 = [4u8; 65];
    sec1[1..].copy_from_slice(&want);
    let vk = p256::ecdsa::VerifyingKey::from_sec1_bytes(&sec1).map_err(|_| Failure::new("harness-r1-vk", "sec1"))?;
    let mut rs = [0u8; 64];
    rs[..32].copy_from_slice(&r);
    rs[32..].copy_from_slice(&s);
    let plain = p256::ecdsa::Signature::from_slice(&rs).map_err(|_| Failure::new("r1:sign-not-a-signature", "r or s out of range"))?;
    ensure!(vk.verify_prehash(&c.msg.0, &plain).is_ok(), "r1:signature-invalid-under-signer", "sk {:?} msg {:?} sig {sig:?}", c.sk, c.msg);

    let rec = fuel_crypto::secp256r1::recover(&sig, &m);
    ensure!(matches!(&rec, Ok(p) if **p == want), "r1:recover-not-signer", "sk {:?} msg {:?} sig {sig:?}: recover = {rec:?}, signer {}", c.sk, c.msg, hex::encode(want));

    let mut other_parity = *sig;
    other_parity[32] ^= 0x80;
    let rec = fuel_crypto::secp256r1::recover(&Bytes64::from(other_parity), &m);
    ensure!(!matches!(&rec, Ok(p) if **p == want), "r1:other-parity-recovers-signer", "sig {} recovers the signer with either parity bit", hex::encode(other_parity));

    if !congruent {
        let m2 = Message::from_bytes(c.other_msg.0);
        let rec = fuel_crypto::secp256r1::recover(&sig, &m2);
        ensure!(!matches!(&rec, Ok(p) if **p == want), "r1:recover-other-message-gives-signer", "sig {sig:?} made for {:?} recovers the signer for {:?}", c.msg, c.other_msg);
    }

    let mut f = *sig;
    flip_bit(&mut f, bit);
    let rec = fuel_crypto::secp256r1::recover(&Bytes64::from(f), &m);
    ensure!(!matches!(&rec, Ok(p) if **p == want), "r1:recover-bitflip-gives-signer", "bit {bit} of {sig:?} flipped still recovers the signer");
    Ok(())
}

// ================================================================== Ed25519

/// little-endian a < b
fn le_lt(a: &[u8; 32], b: &[u8; 32]) -> bool {
    for i in (0..32).rev() {
        if a[i] != b[i] {
            return a[i] < b[i];
        }
    }
    false
}

fn challenge(r: &[u8; 32], a: &[u8; 32], m: &[u8]) -> EdScalar {
    let mut h = Sha512::new();
    h.update(r);
    h.update(a);
    h.update(m);
    let out: [u8; 64] = h.finalize().into();
    EdScalar::from_bytes_mod_order_wide(&out)
}

/// Strict Ed25519 verification written from the definition with curve25519-dalek point
/// arithmetic: canonical S, A and R decode, neither has small order, and the encoding of
/// [S]B − [h]A equals the R bytes of the signature.
fn model_strict(pk: &[u8; 32], sig: &[u8; 64], msg: &[u8]) -> bool {
    let rb: [u8; 32] = sig[..32].try_into().unwrap();
    let sb: [u8; 32] = sig[32..].try_into().unwrap();
    if !le_lt(&sb, &ED_L_LE) {
        return false;
    }
    let Some(a) = CompressedEdwardsY(*pk).decompress() else { return false };
    let Some(r) = CompressedEdwardsY(rb).decompress() else { return false };
    if a.is_small_order() || r.is_small_order() {
        return false;
    }
    let s = EdScalar::from_bytes_mod_order(sb);
    let h = challenge(&rb, pk, msg);
    let expect = EdwardsPoint::mul_base(&s) - a * h;
    expect.compress().to_bytes() == rb
}

/// Cofactorless verification without the small-order rules (what a non-strict verifier does)
fn model_plain(pk: &[u8; 32], sig: &[u8; 64], msg: &[u8]) -> bool {
    let rb: [u8; 32] = sig[..32].try_into().unwrap();
    let sb: [u8; 32] = sig[32..].try_into().unwrap();
    if !le_lt(&sb, &ED_L_LE) {
        return false;
    }
    let Some(a) = CompressedEdwardsY(*pk).decompress() else { return false };
    let s = EdScalar::from_bytes_mod_order(sb);
    let h = challenge(&rb, pk, msg);
    (EdwardsPoint::mul_base(&s) - a * h).compress().to_bytes() == rb
}

fn dalek_strict(pk: &[u8; 32], sig: &[u8; 64], msg: &[u8]) -> bool {
    match ed25519_dalek::VerifyingKey::from_bytes(pk) {
        Ok(vk) => vk.verify_strict(msg, &ed25519_dalek::Signature::from_bytes(sig)).is_ok(),
        Err(_) => false,
    }
}

fn dalek_plain(pk: &[u8; 32], sig: &[u8; 64], msg: &[u8]) -> bool {
    use ed25519_dalek::Verifier;
    match ed25519_dalek::VerifyingKey::from_bytes(pk) {
        Ok(vk) => vk.verify(msg, &ed25519_dalek::Signature::from_bytes(sig)).is_ok(),
        Err(_) => false,
    }
}

fn fuel_ed(pk: &[u8; 32], sig: &[u8; 64], msg: &[u8]) -> bool {
    fuel_crypto::ed25519::verify(&Bytes32::from(*pk), &Bytes64::from(*sig), msg).is_ok()
}

/// the differential core: fuel-crypto vs dalek verify_strict vs the harness' strict model
fn ed_agree(pk: &[u8; 32], sig: &[u8; 64], msg: &[u8], obs: &mut Obs) -> Result<bool, Failure> {
    let f = fuel_ed(pk, sig, msg);
    let d = dalek_strict(pk, sig, msg);
    let m = model_strict(pk, sig, msg);
    obs.class(if f { "ed:accepted" } else { "ed:rejected" });
    let show = || format!("pk {} sig {} msg {}", hex::encode(pk), hex::encode(sig), hex::encode(msg));
    ensure!(f == d, format!("ed:differs-from-verify_strict:fuel-{}", if f { "accepts" } else { "rejects" }), "{}: fuel {f} verify_strict {d}", show());
    ensure!(f == m, format!("ed:differs-from-strict-model:fuel-{}", if f { "accepts" } else { "rejects" }), "{}: fuel {f} model {m} (dalek verify_strict {d})", show());
    Ok(f)
}

#[derive(Debug, Clone, Serialize, Deserialize)]
pub enum EdMut {
    None,
    FlipSig(u16),
    FlipPk(u16),
    FlipMsg(u16),
    Truncate,
    Append(u8),
    OtherKey(Hx<32>),
    /// S' = S + k·L (same residue, non-canonical encoding)
    AddL(u8),
}

#[derive(Debug, Clone, Serialize, Deserialize)]
pub struct EdCase {
    seed: Hx<32>,
    msg: HxV,
    mutation: EdMut,
}

fn ed_msg() -> impl Strategy<Value = HxV> {
    prop_oneof![
        3 => prop::collection::vec(any::<u8>(), 0..=70),
        2 => prop::collection::vec(any::<u8>(), 32..=32),
        1 => prop::collection::vec(any::<u8>(), 100..=300),
    ]
    .prop_map(HxV)
}

fn ed_case() -> impl Strategy<Value = EdCase> {
    let mutation = prop_oneof![
        3 => Just(EdMut::None),
        4 => any::<u16>().prop_map(EdMut::FlipSig),
        2 => any::<u16>().prop_map(EdMut::FlipPk),
        2 => any::<u16>().prop_map(EdMut::FlipMsg),
        1 => Just(EdMut::Truncate),
        1 => any::<u8>().prop_map(EdMut::Append),
        1 => any::<[u8; 32]>().prop_map(|s| EdMut::OtherKey(Hx(s))),
        3 => (1u8..=15).prop_map(EdMut::AddL),
    ];
    (any::<[u8; 32]>(), ed_msg(), mutation).prop_map(|(seed, msg, mutation)| EdCase { seed: Hx(seed), msg, mutation })
}

fn check_ed(c: &EdCase, obs: &mut Obs) -> Check {
    use ed25519_dalek::Signer;
    let signer = ed25519_dalek::SigningKey::from_bytes(&c.seed.0);
    let mut pk = signer.verifying_key().to_bytes();
    let mut sig = signer.sign(&c.msg.0).to_bytes();
    let mut msg = c.msg.0.clone();
    let mut kind = "valid";
    match &c.mutation {
        EdMut::None => {}
        EdMut::FlipSig(b) => {
            flip_bit(&mut sig, pick(*b, 512));
            kind = "flip-sig";
        }
        EdMut::FlipPk(b) => {
            flip_bit(&mut pk, pick(*b, 256));
            kind = "flip-pk";
        }
        EdMut::FlipMsg(b) => {
            if !msg.is_empty() {
                let n = msg.len() * 8;
                flip_bit(&mut msg, pick(*b, n));
                kind = "flip-msg";
            }
        }
        EdMut::Truncate => {
            if msg.pop().is_some() {
                kind = "truncate-msg";
            }
        }
        EdMut::Append(x) => {
            msg.push(*x);
            kind = "append-msg";
        }
        EdMut::OtherKey(s) => {
            if s.0 != c.seed.0 {
                pk = ed25519_dalek::SigningKey::from_bytes(&s.0).verifying_key().to_bytes();
                kind = "other-key";
            }
        }
        EdMut::AddL(k) => {
            let mut s: [u8; 32] = sig[32..].try_into().unwrap();
            let mut ok = true;
            for _ in 0..*k {
                match le_add(s, ED_L_LE) {
                    Some(v) => s = v,
                    None => {
                        ok = false;
                        break;
                    }
                }
            }
            if ok {
                sig[32..].copy_from_slice(&s);
                kind = "non-canonical-S";
            }
        }
    }
    obs.class(kind);
    if kind != "valid" {
        obs.nontrivial(&(pk, sig, &msg));
    }
    let accepted = ed_agree(&pk, &sig, &msg, obs)?;
    if kind == "valid" {
        ensure!(accepted, "ed:valid-signature-rejected", "seed {:?} msg {:?}", c.seed, c.msg);
    } else {
        ensure!(!accepted, format!("ed:{kind}-accepted"), "seed {:?} msg {:?} mutation {:?}: pk {} sig {} accepted", c.seed, c.msg, c.mutation, hex::encode(pk), hex::encode(sig));
    }
    Ok(())
}

// ------------------------------------------------------------------ torsion witnesses

/// A = [a]B + T_i, R = [r]B + [m]T_i, S = r + h·a. Cofactorless verification gives
/// [S]B − [h]A = [r]B − [h]T_i, which equals R iff [h + m]T_i = O; the message gets a
/// 2-byte counter suffix that is advanced until that holds.
#[derive(Debug, Clone, Serialize, Deserialize)]
pub struct TorsionCase {
    /// None: pure small-order public key
    a: Option<Hx<32>>,
    /// index into the 8-torsion subgroup (T_i = [i]T8)
    i: u8,
    /// alternative encoding selector for a pure small-order key
    enc: u8,
    /// None: pure small-order R
    r: Option<Hx<32>>,
    m: u8,
    msg: HxV,
}

fn torsion_case() -> impl Strategy<Value = TorsionCase> {
    let sc = || prop_oneof![3 => any::<[u8; 32]>().prop_map(|b| Some(Hx(b))), 2 => Just(None)];
    (sc(), 0u8..8, any::<u8>(), sc(), 0u8..8, ed_msg()).prop_map(|(a, i, enc, r, m, msg)| TorsionCase { a, i, enc, r, m, msg })
}

/// all byte encodings that decode to the same point as the canonical one: y + p when y < 19,
/// and the sign bit when x = 0
fn encodings(p: &EdwardsPoint) -> Vec<[u8; 32]> {
    let c = p.compress().to_bytes();
    let mut v = vec![c];
    let mut y = c;
    y[31] &= 0x7f;
    let sign = c[31] & 0x80;
    // p = 2^255 - 19, little-endian: ED FF .. FF 7F
    if y[1..].iter().all(|&b| b == 0) && y[0] < 19 {
        let mut e = [0xffu8; 32];
        e[0] = 0xed + y[0];
        e[31] = 0x7f | sign;
        v.push(e);
    }
    for e in v.clone() {
        let mut f = e;
        f[31] ^= 0x80;
        v.push(f);
    }
    v.retain(|e| CompressedEdwardsY(*e).decompress().map(|q| q == *p).unwrap_or(false));
    v.dedup();
    v
}

fn check_torsion(c: &TorsionCase, obs: &mut Obs) -> Check {
    let t = EIGHT_TORSION[(c.i % 8) as usize];
    let a_sc = c.a.map(|b| EdScalar::from_bytes_mod_order(b.0)).unwrap_or(EdScalar::ZERO);
    let r_sc = c.r.map(|b| EdScalar::from_bytes_mod_order(b.0)).unwrap_or(EdScalar::ZERO);
    let a_pt = ED25519_BASEPOINT_POINT * a_sc + t;
    let tm = EIGHT_TORSION[((c.m as usize) * (c.i as usize)) % 8];
    let r_pt = ED25519_BASEPOINT_POINT * r_sc + tm;
    let key_small = a_pt.is_small_order();
    let r_small = r_pt.is_small_order();
    let pk = if key_small {
        let e = encodings(&a_pt);
        e[pick((c.enc as u16) << 8, e.len())]
    } else {
        a_pt.compress().to_bytes()
    };
    let rb = r_pt.compress().to_bytes();
    // search the message suffix
    let mut found = None;
    for ctr in 0u16..600 {
        let mut msg = c.msg.0.clone();
        msg.extend_from_slice(&ctr.to_le_bytes());
        let h = challenge(&rb, &pk, &msg);
        if (t * h + tm).is_identity() {
            let s = r_sc + h * a_sc;
            let mut sig = [0u8; 64];
            sig[..32].copy_from_slice(&rb);
            sig[32..].copy_from_slice(s.as_bytes());
            found = Some((sig, msg));
            break;
        }
    }
    let Some((sig, msg)) = found else {
        obs.class("witness-not-found");
        return Ok(());
    };
    let kind = match (key_small, r_small) {
        (true, true) => "small-order-key-and-R",
        (true, false) => "small-order-key",
        (false, true) => "small-order-R",
        (false, false) => {
            if t.is_identity() { "regular-key-and-R" } else { "mixed-order-key" }
        }
    };
    obs.class(kind);
    if pk != a_pt.compress().to_bytes() {
        obs.class("non-canonical-key-encoding");
    }
    // the witness must be a real one: valid without the strictness rules
    let plain = model_plain(&pk, &sig, &msg);
    let dplain = dalek_plain(&pk, &sig, &msg);
    if !plain {
        obs.class("witness-defective");
        return Err(Failure::new("harness-witness", format!("constructed witness fails the cofactorless equation: {c:?}")));
    }
    obs.class(if dplain { "non-strict-verify-accepts" } else { "non-strict-verify-rejects" });
    obs.nontrivial(&(pk, sig, &msg));
    let accepted = ed_agree(&pk, &sig, &msg, obs)?;
    let show = || format!("pk {} sig {} msg {}", hex::encode(pk), hex::encode(sig), hex::encode(&msg));
    if key_small {
        ensure!(!accepted, "ed:small-order-key-accepted", "{} (valid without the strictness rules)", show());
    } else if r_small {
        ensure!(!accepted, "ed:small-order-R-accepted", "{} (valid without the strictness rules)", show());
    } else {
        // neither point has small order and the equation holds: the strict reference accepts
        ensure!(accepted, "ed:strict-valid-rejected", "{}", show());
    }
    Ok(())
}

// ------------------------------------------------------------------ arbitrary bytes

#[derive(Debug, Clone, Serialize, Deserialize)]
pub struct EdRaw {
    pk: Hx<32>,
    sig: Hx<64>,
    msg: HxV,
}

fn small_order_encodings() -> Vec<[u8; 32]> {
    let mut v = vec![];
    for t in EIGHT_TORSION.iter() {
        v.extend(encodings(t));
    }
    v
}

fn ed_point_bytes() -> impl Strategy<Value = [u8; 32]> {
    prop_oneof![
        3 => any::<[u8; 32]>(),
        2 => any::<[u8; 32]>().prop_map(|b| (ED25519_BASEPOINT_POINT * EdScalar::from_bytes_mod_order(b)).compress().to_bytes()),
        2 => prop::sample::select(small_order_encodings()),
        1 => (0u8..40, any::<bool>()).prop_map(|(d, s)| {
            // y around p
            let mut e = [0xffu8; 32];
            e[0] = 0xd9u8.wrapping_add(d);
            e[31] = if s { 0xff } else { 0x7f };
            e
        }),
    ]
}

fn ed_raw() -> impl Strategy<Value = EdRaw> {
    let s = prop_oneof![
        3 => any::<[u8; 32]>().prop_map(|b| EdScalar::from_bytes_mod_order(b).to_bytes()),
        1 => any::<[u8; 32]>(),
        1 => Just([0u8; 32]),
        1 => (0u64..40).prop_map(|d| { let mut l = ED_L_LE; l[0] = l[0].wrapping_sub(20).wrapping_add(d as u8); l }),
    ];
    (ed_point_bytes(), ed_point_bytes(), s, ed_msg()).prop_map(|(pk, r, s, msg)| {
        let mut sig = [0u8; 64];
        sig[..32].copy_from_slice(&r);
        sig[32..].copy_from_slice(&s);
        EdRaw { pk: Hx(pk), sig: Hx(sig), msg }
    })
}

fn check_ed_raw(c: &EdRaw, obs: &mut Obs) -> Check {
    let a = CompressedEdwardsY(c.pk.0).decompress();
    let r = CompressedEdwardsY(<[u8; 32]>::try_from(&c.sig.0[..32]).unwrap()).decompress();
    obs.class(match &a {
        None => "pk-not-a-point",
        Some(p) if p.is_small_order() => "pk-small-order",
        Some(p) if !p.is_torsion_free() => "pk-mixed-order",
        Some(_) => "pk-prime-order",
    });
    obs.class(match &r {
        None => "R-not-a-point",
        Some(p) if p.is_small_order() => "R-small-order",
        Some(_) => "R-other",
    });
    if model_plain(&c.pk.0, &c.sig.0, &c.msg.0) {
        obs.class("valid-without-strictness-rules");
    }
    obs.nontrivial(&(c.pk.0, c.sig.0, &c.msg.0));
    ed_agree(&c.pk.0, &c.sig.0, &c.msg.0, obs).map(|_| ())
}

// ================================================================== VM instructions

#[derive(Debug, Clone, Serialize, Deserialize)]
pub struct VmCase {
    k1_sig: Hx<64>,
    k1_msg: Hx<32>,
    r1_sig: Hx<64>,
    r1_msg: Hx<32>,
    ed_pk: Hx<32>,
    ed_sig: Hx<64>,
    ed_msg: HxV,
    /// put 0 in ED19's length register (the instruction then reads 32 bytes)
    ed_len_zero: bool,
}

fn vm_case() -> impl Strategy<Value = VmCase> {
    let ec_mut = || prop_oneof![2 => Just(None), 2 => any::<u16>().prop_map(Some)];
    let k1 = (k1_secret(), msg32(), ec_mut(), any::<bool>(), msg32()).prop_map(|(sk, msg, f, other, m2)| {
        let s = SecretKey::try_from(Bytes32::from(sk.0)).expect("valid");
        let mut sig = *Signature::sign(&s, &Message::from_bytes(msg.0));
        if let Some(b) = f {
            flip_bit(&mut sig, pick(b, 512));
        }
        (Hx(sig), if other { m2 } else { msg })
    });
    let r1 = (r1_secret(), msg32(), ec_mut(), any::<bool>(), msg32()).prop_map(|(sk, msg, f, other, m2)| {
        let signer = p256::ecdsa::SigningKey::from_bytes(&sk.0.into()).expect("valid");
        // a signer that fails or panics is r1-laws' business; here it only yields a dull input
        let mut sig = catch_panic(|| fuel_crypto::secp256r1::sign_prehashed(&signer, &Message::from_bytes(msg.0)))
            .ok()
            .and_then(|r| r.ok())
            .map(|b| *b)
            .unwrap_or([0u8; 64]);
        if let Some(b) = f {
            flip_bit(&mut sig, pick(b, 512));
        }
        (Hx(sig), if other { m2 } else { msg })
    });
    let ed = prop_oneof![
        3 => ed_case().prop_map(|c| {
            use ed25519_dalek::Signer;
            let signer = ed25519_dalek::SigningKey::from_bytes(&c.seed.0);
            let mut pk = signer.verifying_key().to_bytes();
            let mut sig = signer.sign(&c.msg.0).to_bytes();
            match c.mutation {
                EdMut::FlipSig(b) => flip_bit(&mut sig, pick(b, 512)),
                EdMut::FlipPk(b) => flip_bit(&mut pk, pick(b, 256)),
                _ => {}
            }
            (Hx(pk), Hx(sig), c.msg)
        }),
        1 => ed_raw().prop_map(|c| (c.pk, c.sig, c.msg)),
    ];
    (k1, r1, ed, any::<bool>()).prop_map(|((k1_sig, k1_msg), (r1_sig, r1_msg), (ed_pk, ed_sig, ed_msg), z)| {
        let ed_len_zero = z && ed_msg.0.len() <= 40;
        VmCase { k1_sig, k1_msg, r1_sig, r1_msg, ed_pk, ed_sig, ed_msg, ed_len_zero }
    })
}

fn check_vm(c: &VmCase, obs: &mut Obs) -> Check {
    let len = c.ed_msg.0.len();
    if len >= (1 << 18) {
        obs.class("vm-case-not-runnable");
        return Ok(());
    }
    // a zero length register means 32 bytes: the message followed by the zero padding the
    // driver puts behind it (an empty message cannot be expressed to the instruction)
    let mut padded = c.ed_msg.0.clone();
    padded.extend_from_slice(&[0u8; 32]);
    let (reg, seen) = if c.ed_len_zero || len == 0 { (0u32, &padded[..32]) } else { (len as u32, &c.ed_msg.0[..]) };
    let vm = vm_crypto(&c.k1_sig.0, &c.k1_msg.0, &c.r1_sig.0, &c.r1_msg.0, &c.ed_pk.0, &c.ed_sig.0, &c.ed_msg.0, reg)
        .map_err(|e| Failure::new("harness-vm-script", e))?;
    let k1 = Signature::from_bytes(c.k1_sig.0).recover(&Message::from_bytes(c.k1_msg.0));
    let r1 = fuel_crypto::secp256r1::recover(&Bytes64::from(c.r1_sig.0), &Message::from_bytes(c.r1_msg.0));
    let ed = fuel_ed(&c.ed_pk.0, &c.ed_sig.0, seen);
    obs.class(if k1.is_ok() { "eck1-ok" } else { "eck1-err" });
    obs.class(if r1.is_ok() { "ecr1-ok" } else { "ecr1-err" });
    obs.class(if ed { "ed19-ok" } else { "ed19-err" });
    if reg == 0 {
        obs.class("ed19-len-register-zero");
    }
    obs.nontrivial(&(c.k1_sig.0, c.r1_sig.0, c.ed_sig.0, c.ed_pk.0, &c.ed_msg.0, c.ed_len_zero));
    let want_k1 = match &k1 {
        Ok(p) => (0u64, **p),
        Err(_) => (1u64, [0u8; 64]),
    };
    let want_r1 = match &r1 {
        Ok(p) => (0u64, **p),
        Err(_) => (1u64, [0u8; 64]),
    };
    ensure!(vm.eck1 == want_k1, "vm:eck1-differs-from-library", "sig {:?} msg {:?}: library {k1:?}, ECK1 $err={} out={}", c.k1_sig, c.k1_msg, vm.eck1.0, hex::encode(vm.eck1.1));
    ensure!(vm.ecr1 == want_r1, "vm:ecr1-differs-from-library", "sig {:?} msg {:?}: library {r1:?}, ECR1 $err={} out={}", c.r1_sig, c.r1_msg, vm.ecr1.0, hex::encode(vm.ecr1.1));
    ensure!(vm.ed19 == if ed { 0 } else { 1 }, "vm:ed19-differs-from-library", "pk {:?} sig {:?} msg {:?} len-register {reg}: library accepts={ed}, ED19 $err={}", c.ed_pk, c.ed_sig, c.ed_msg, vm.ed19);
    Ok(())
}

// ================================================================== property

// ---------------------------------------------------------------- secp256r1, constructed high s
//
// (r, s) with n/2 < s < 2^255 is still encodable (the top bit of byte 32 carries the parity).
// Pick a nonce k, R = k·G, r = R.x, choose such an s and solve d = (s·k − z)·r⁻¹: the signature is
// a valid signature of d·G. `recover` must return d·G, and so must the re-encoding (r, n − s, !v).

#[derive(Debug, Clone, Serialize, Deserialize)]
pub struct R1HighS {
    pub k: Hx<32>,
    pub s_off: u64,
    pub msg: Hx<32>,
}

fn r1_high_s_case() -> impl Strategy<Value = R1HighS> {
    (r1_secret(), prop_oneof![0u64..16, any::<u64>()], msg32()).prop_map(|(k, s_off, msg)| R1HighS { k, s_off, msg })
}

fn check_r1_high_s(c: &R1HighS, obs: &mut Obs) -> Check {
    use p256::elliptic_curve::ops::Reduce;
    use p256::elliptic_curve::point::AffineCoordinates;
    use p256::elliptic_curve::sec1::ToEncodedPoint;
    use p256::elliptic_curve::Field;
    use p256::elliptic_curve::PrimeField;
    let h = |w: &str| Failure::new("harness-r1-high-s", w.to_string());
    let k: p256::Scalar = Option::from(p256::Scalar::from_repr(c.k.0.into())).ok_or_else(|| h("k"))?;
    if bool::from(k.is_zero()) {
        return Ok(());
    }
    let rp = (p256::ProjectivePoint::GENERATOR * k).to_affine();
    let r = <p256::Scalar as Reduce<p256::U256>>::reduce_bytes(&rp.x());
    // s = 2^255 - 1 - s_off  (> n/2, top bit clear)
    let mut sb = [0xffu8; 32];
    sb[0] = 0x7f;
    let sb = be_sub(sb, c.s_off);
    let sh: p256::Scalar = Option::from(p256::Scalar::from_repr(sb.into())).ok_or_else(|| h("s"))?;
    let z = <p256::Scalar as Reduce<p256::U256>>::reduce_bytes(&c.msg.0.into());
    let rinv: p256::Scalar = Option::from(r.invert()).ok_or_else(|| h("r = 0"))?;
    let d = (sh * k - z) * rinv;
    if bool::from(d.is_zero()) {
        return Ok(());
    }
    let q = (p256::ProjectivePoint::GENERATOR * d).to_affine().to_encoded_point(false);
    let mut want = [0u8; 64];
    want[..32].copy_from_slice(q.x().ok_or_else(|| h("qx"))?);
    want[32..].copy_from_slice(q.y().ok_or_else(|| h("qy"))?);
    let y_odd: bool = rp.y_is_odd().into();
    let m = Message::from_bytes(c.msg.0);
    let mut sig = [0u8; 64];
    sig[..32].copy_from_slice(&r.to_repr());
    sig[32..].copy_from_slice(&sb);
    if y_odd {
        sig[32] |= 0x80;
    }
    let rec = fuel_crypto::secp256r1::recover(&Bytes64::from(sig), &m);
    ensure!(matches!(&rec, Ok(p) if **p == want), "r1:high-s:recover-not-signer", "constructed high-s signature {} msg {:?}: recover = {rec:?}, signer {}", hex::encode(sig), c.msg, hex::encode(want));
    // the re-encoding (r, n - s, !v) is the same signature
    let low = -sh;
    let mut sig2 = [0u8; 64];
    sig2[..32].copy_from_slice(&r.to_repr());
    sig2[32..].copy_from_slice(&low.to_repr());
    if sig2[32] & 0x80 == 0 {
        if !y_odd {
            sig2[32] |= 0x80;
        }
        let rec2 = fuel_crypto::secp256r1::recover(&Bytes64::from(sig2), &m);
        ensure!(matches!(&rec2, Ok(p) if **p == want), "r1:high-s:re-encoding-recovers-other-key", "low-s re-encoding {} recovers {rec2:?}, signer {}", hex::encode(sig2), hex::encode(want));
    }
    obs.class("r1-high-s");
    obs.nontrivial(&(c.k.0[31], c.s_off.leading_zeros(), y_odd));
    Ok(())
}

pub fn property() -> Property {
    Property {
        id: "C17",
        rule: "k1/r1: (secret in [1,n-1] biased to both ends, message incl. 0, n-1, n, n+1, 2^256-1, other message, bit index) -> the produced signature has r in [1,n), 1 <= s <= n/2 (so bit 255 of s is free for the parity), recovers d·G (computed by the harness with k256/p256 point arithmetic), verifies; the other parity bit, another message (not congruent mod n) and any single flipped bit do not give the signer's key / do not verify. Ed25519: fuel verify == dalek verify_strict == harness strict model on valid signatures, 7 kinds of mutation, S+k·L, constructed torsion witnesses (A=[a]B+T_i, R=[r]B+[m]T_i, S=r+h·a with the message suffix searched so that the cofactorless equation holds; a=0: small-order key incl. its non-canonical encodings, r=0: small-order R) and structured random bytes (small-order encodings, y around p, S around L). VM: one script runs ECK1, ECR1, ED19 and logs $err/outputs, compared with the library calls. Non-trivial = every k1/r1 case (each applies mutations), Ed cases that are mutated/witness/raw; distinct by input bytes".into(),
        assumptions: vec![
            "k256/p256 point multiplication gives d·G (the default secp256k1 backend is libsecp256k1, so this is an independent implementation for k1; for r1 it is the same crate the library uses, the law recover(sign)=pk does not depend on it)".into(),
            "curve25519-dalek point/scalar arithmetic and decompression are correct (used to build witnesses and the strict model; dalek's verifiers are not used by the model)".into(),
            "sha2 crate is correct".into(),
            "messages congruent mod n are the same ECDSA message; such 'other message' cases are skipped (counted)".into(),
        ],
        parts: vec![
            gen_part("k1-laws", "secp256k1 sign/recover/verify laws through the default API", (60_000, 2_000_000), |_c: &Ctx| ec_case(k1_secret()), check_k1),
            gen_part("r1-laws", "secp256r1 sign_prehashed/recover laws", (6_000, 150_000), |_c: &Ctx| ec_case(r1_secret()), check_r1),
            gen_part("r1-high-s", "secp256r1 signatures constructed with n/2 < s < 2^255: recover returns the constructed signer, and so does the low-s re-encoding", (6_000, 150_000), |_c: &Ctx| r1_high_s_case(), check_r1_high_s),
            gen_part("ed-signed", "dalek-signed messages with one mutation (or none)", (60_000, 2_000_000), |_c: &Ctx| ed_case(), check_ed),
            gen_part("ed-torsion", "constructed torsion witnesses", (30_000, 1_000_000), |_c: &Ctx| torsion_case(), check_torsion),
            gen_part("ed-raw", "structured random key / R / S / message bytes", (60_000, 2_000_000), |_c: &Ctx| ed_raw(), check_ed_raw),
            gen_part("vm", "ECK1/ECR1/ED19 vs library", (6_000, 150_000), |_c: &Ctx| vm_case(), check_vm),
        ],
        floors: vec![
            ("ed-torsion", "small-order-key", 0.10),
            ("ed-torsion", "small-order-R", 0.10),
            ("ed-torsion", "non-strict-verify-accepts", 0.80),
            ("ed-signed", "non-canonical-S", 0.10),
            ("k1-laws", "other-message-differs", 0.80),
        ],
    }
}
