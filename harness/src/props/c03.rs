//! C03 — Transaction id commits to exactly the non-malleable content.
//!
//! Part `ref-id`   : Oracle A (reference id from the harness's own zeroing of the *spec*) and
//!                   Oracle C (cached id after `precompute`).
//! Part `spec-mut` : Oracle B on the spec: every field position of the spec is mutated in turn,
//!                   `id' == id` iff the position is in the malleable table (or is a witness).
//! Part `json-leaf`: Oracle B on the serde_json tree of the library value: every leaf is
//!                   perturbed in turn; a leaf the harness has never heard of is treated as
//!                   non-malleable (so a field added to the library later is covered).
//!
//! Nothing here calls `prepare_sign`.

use crate::engine::*;
use crate::gens::tx::*;
use crate::gens::tx_ext::*;
use crate::{ensure, ensure_eq, fail};
use fuel_tx::{Cacheable, Transaction, UniqueIdentifier};
use fuel_types::canonical::Serialize as _;
use fuel_types::ChainId;
use proptest::prelude::*;
use serde::{Deserialize, Serialize};
use serde_json::Value;

// =================================================================== malleable table (spec labels)

/// Field positions of the spec that the property statement calls malleable.  Everything else
/// (except witnesses) must change the id.
const MALLEABLE: &[&str] = &[
    // "receipts root"
    "body.Script.receipts_root",
    // "change and variable output amounts/recipients/assets"
    "out.Change.amount",
    "out.Variable.to",
    "out.Variable.amount",
    "out.Variable.asset",
    // "contract input and output roots and UTXO data"
    "out.Contract.balance_root",
    "out.Contract.state_root",
    "in.Contract.utxo.tx_id",
    "in.Contract.utxo.output_index",
    "in.Contract.balance_root",
    "in.Contract.state_root",
    "in.Contract.txp.block_height",
    "in.Contract.txp.tx_index",
    // "coin tx pointers"
    "in.CoinSigned.txp.block_height",
    "in.CoinSigned.txp.tx_index",
    "in.CoinPredicate.txp.block_height",
    "in.CoinPredicate.txp.tx_index",
    // "predicate gas used"
    "in.CoinPredicate.gas",
    "in.MsgCoinPredicate.gas",
    "in.MsgDataPredicate.gas",
    // Mint: the contract input / output sub-fields (same rule as above)
    "mint.in.utxo.tx_id",
    "mint.in.utxo.output_index",
    "mint.in.balance_root",
    "mint.in.state_root",
    "mint.in.txp.block_height",
    "mint.in.txp.tx_index",
    "mint.out.balance_root",
    "mint.out.state_root",
];

fn is_malleable(label: &str) -> bool {
    label.starts_with("witnesses") || MALLEABLE.contains(&label)
}

// =================================================================== Oracle A: reference id

const Z32: B32 = B32([0u8; 32]);

fn zero_in(i: &InSpec) -> InSpec {
    let zu = || UtxoSpec(Z32, 0);
    let zt = || TxpSpec(0, 0);
    match i.clone() {
        InSpec::CoinSigned { utxo, owner, amount, asset, txp: _, wit } => InSpec::CoinSigned { utxo, owner, amount, asset, txp: zt(), wit },
        InSpec::CoinPredicate { utxo, owner, amount, asset, txp: _, gas: _, predicate, pdata } => {
            InSpec::CoinPredicate { utxo, owner, amount, asset, txp: zt(), gas: 0, predicate, pdata }
        }
        InSpec::Contract { utxo: _, balance_root: _, state_root: _, txp: _, contract } => {
            InSpec::Contract { utxo: zu(), balance_root: Z32, state_root: Z32, txp: zt(), contract }
        }
        s @ InSpec::MsgCoinSigned { .. } => s,
        InSpec::MsgCoinPredicate { sender, recipient, amount, nonce, gas: _, predicate, pdata } => {
            InSpec::MsgCoinPredicate { sender, recipient, amount, nonce, gas: 0, predicate, pdata }
        }
        s @ InSpec::MsgDataSigned { .. } => s,
        InSpec::MsgDataPredicate { sender, recipient, amount, nonce, gas: _, data, predicate, pdata } => {
            InSpec::MsgDataPredicate { sender, recipient, amount, nonce, gas: 0, data, predicate, pdata }
        }
    }
}

fn zero_out(o: &OutSpec) -> OutSpec {
    match o.clone() {
        s @ OutSpec::Coin { .. } => s,
        OutSpec::Contract { input_index, balance_root: _, state_root: _ } => OutSpec::Contract { input_index, balance_root: Z32, state_root: Z32 },
        OutSpec::Change { to, amount: _, asset } => OutSpec::Change { to, amount: 0, asset },
        OutSpec::Variable { .. } => OutSpec::Variable { to: Z32, amount: 0, asset: Z32 },
        s @ OutSpec::ContractCreated { .. } => s,
    }
}

/// The harness's own "malleable fields zeroed, witnesses removed" (statement of C03).
pub fn zero_malleable(t: &AnyTx) -> AnyTx {
    match t {
        AnyTx::Charge(t) => {
            let body = match t.body.clone() {
                BodySpec::Script { gas_limit, receipts_root: _, script, data } => BodySpec::Script { gas_limit, receipts_root: Z32, script, data },
                other => other,
            };
            AnyTx::Charge(TxSpec {
                body,
                pol: t.pol.clone(),
                inputs: t.inputs.iter().map(zero_in).collect(),
                outputs: t.outputs.iter().map(zero_out).collect(),
                witnesses: vec![],
            })
        }
        AnyTx::Mint(m) => {
            let mut z = m.clone();
            z.in_utxo = UtxoSpec(Z32, 0);
            z.in_balance_root = Z32;
            z.in_state_root = Z32;
            z.in_txp = TxpSpec(0, 0);
            z.out_balance_root = Z32;
            z.out_state_root = Z32;
            AnyTx::Mint(z)
        }
    }
}

/// SHA-256(chain id big-endian ‖ canonical bytes of the zeroed transaction)
pub fn reference_id(t: &AnyTx, chain: u64) -> [u8; 32] {
    let z = zero_malleable(t).build();
    sha256(&[&chain.to_be_bytes(), &z.to_bytes()])
}

fn kind_name(k: u8) -> &'static str {
    match k {
        0 => "script",
        1 => "create",
        2 => "mint",
        3 => "upgrade",
        4 => "upload",
        _ => "blob",
    }
}

#[derive(Debug, Clone, Serialize, Deserialize)]
pub struct IdCase {
    pub tx: AnyTx,
    pub chain: u64,
}

fn check_ref_id(c: &IdCase, obs: &mut Obs) -> Check {
    let kind = kind_name(c.tx.kind());
    let chain = ChainId::new(c.chain);
    let tx = c.tx.build();
    let want = reference_id(&c.tx, c.chain);
    let got: [u8; 32] = *tx.id(&chain);
    ensure_eq!(got, want, format!("ref-id:{kind}"), "id(chain={}) differs from SHA-256(chain_be ‖ bytes(zeroed tx))", c.chain);
    ensure!(tx.cached_id().is_none(), format!("cache:{kind}:cached-id-before-precompute"), "cached_id() is Some before precompute");
    ensure!(!tx.is_computed(), format!("cache:{kind}:computed-before-precompute"), "is_computed() before precompute");

    // the zeroed transaction is its own zeroing: its id is the same
    let ztx = zero_malleable(&c.tx).build();
    ensure_eq!(*ztx.id(&chain), want, format!("ref-id:{kind}:zeroed-tx"), "id of the zeroed transaction");

    // Oracle C — cache
    let mut cached = tx.clone();
    match cached.precompute(&chain) {
        Ok(()) => {
            obs.class("precompute-ok");
            ensure!(cached.is_computed(), format!("cache:{kind}:not-computed"), "is_computed() false after precompute");
            let cid = cached.cached_id().map(|b| *b);
            ensure_eq!(cid, Some(want), format!("cache:{kind}:cached-id"), "cached_id() after precompute");
            ensure_eq!(*cached.id(&chain), want, format!("cache:{kind}:id-with-cache"), "id() with cache");
            // precompute twice = once
            let mut again = cached.clone();
            again.precompute(&chain).map_err(|e| Failure::new(format!("cache:{kind}:second-precompute-error"), format!("{e:?}")))?;
            ensure_eq!(again.cached_id().map(|b| *b), Some(want), format!("cache:{kind}:cached-id-second"), "cached_id() after second precompute");
            // a later precompute refreshes the cache: other chain id ...
            let chain2 = ChainId::new(c.chain ^ 1);
            let mut rechain = cached.clone();
            if rechain.precompute(&chain2).is_ok() {
                obs.class("re-precompute-other-chain");
                ensure_eq!(rechain.cached_id().map(|b| *b), Some(reference_id(&c.tx, c.chain ^ 1)), format!("cache:{kind}:stale-after-precompute-with-other-chain"), "cached_id() after precompute(chain) then precompute(chain^1)");
            }
            // ... and changed non-malleable content (a coin output appended / the mint amount bumped)
            let mut spec2 = c.tx.clone();
            let mut changed = cached.clone();
            match (&mut spec2, &mut changed) {
                (AnyTx::Mint(m), Transaction::Mint(t)) => {
                    m.amount = m.amount.wrapping_add(1);
                    *fuel_tx::field::MintAmount::mint_amount_mut(t) = m.amount;
                }
                (AnyTx::Charge(ts), t) => {
                    let o = crate::gens::tx::OutSpec::Coin { to: crate::gens::tx::B32([7; 32]), amount: 3, asset: crate::gens::tx::B32([9; 32]) };
                    let built = o.build();
                    ts.outputs.push(o);
                    match t {
                        Transaction::Script(x) => fuel_tx::field::Outputs::outputs_mut(x).push(built),
                        Transaction::Create(x) => fuel_tx::field::Outputs::outputs_mut(x).push(built),
                        Transaction::Upgrade(x) => fuel_tx::field::Outputs::outputs_mut(x).push(built),
                        Transaction::Upload(x) => fuel_tx::field::Outputs::outputs_mut(x).push(built),
                        Transaction::Blob(x) => fuel_tx::field::Outputs::outputs_mut(x).push(built),
                        Transaction::Mint(_) => {}
                    }
                }
                _ => {}
            }
            if changed.precompute(&chain).is_ok() {
                obs.class("re-precompute-after-change");
                ensure_eq!(changed.cached_id().map(|b| *b), Some(reference_id(&spec2, c.chain)), format!("cache:{kind}:stale-after-change-and-precompute"), "cached_id() after precompute, content change, precompute");
                ensure!(changed == spec2.build(), format!("cache:{kind}:changed-tx-differs"), "harness: mutated tx differs from rebuilt spec");
            }
            // the cache is not part of equality / encoding
            ensure!(cached == tx, format!("cache:{kind}:eq"), "precomputed tx != original");
            ensure!(cached.to_bytes() == tx.to_bytes(), format!("cache:{kind}:bytes"), "precompute changed the encoding");
            let mut sig = vec![c.tx.kind()];
            if let AnyTx::Charge(t) = &c.tx {
                sig.extend(layout_sig(t));
            }
            obs.nontrivial(&(sig, c.chain.leading_zeros() as u8));
        }
        Err(e) => {
            obs.class("precompute-err");
            ensure!(
                precompute_error_explained(&c.tx, &e),
                format!("cache:{kind}:precompute-unexpected-error"),
                "precompute failed with {e:?}, which the spec does not explain"
            );
            ensure!(cached.cached_id().is_none(), format!("cache:{kind}:cached-id-after-failed-precompute"), "cached id left behind by failed precompute");
            ensure_eq!(*cached.id(&chain), want, format!("cache:{kind}:id-after-failed-precompute"), "id() after failed precompute");
        }
    }
    obs.class(kind);
    Ok(())
}

// =================================================================== Oracle B on the spec

fn mix(salt: u64, n: u64) -> u64 {
    let mut z = salt ^ n.wrapping_mul(0x9E3779B97F4A7C15);
    z = (z ^ (z >> 30)).wrapping_mul(0xBF58476D1CE4E5B9);
    z = (z ^ (z >> 27)).wrapping_mul(0x94D049BB133111EB);
    z ^ (z >> 31)
}

/// a different value of the same width (`bits` ≤ 64)
fn other_uint(v: u64, bits: u32, r: u64) -> u64 {
    let max = if bits == 64 { u64::MAX } else { (1u64 << bits) - 1 };
    let n = match r % 5 {
        0 | 1 => v ^ (1u64 << ((r >> 8) % bits as u64)),
        2 => if v != 0 { 0 } else { 1 },
        3 => if v != max { max } else { max - 1 },
        _ => if v == max { 0 } else { v + 1 },
    };
    debug_assert!(n != v && n <= max);
    n
}

fn other_b32(v: B32, r: u64) -> B32 {
    let mut a = v.0;
    match r % 4 {
        0 if a != [0u8; 32] => a = [0u8; 32],
        _ => {
            let bit = (r >> 8) % 256;
            a[(bit / 8) as usize] ^= 1 << (bit % 8);
        }
    }
    B32(a)
}

enum Fm<'a> {
    U64(&'a mut u64),
    /// a u64 slot holding a value that must stay ≤ u32::MAX (maturity / expiration / owner)
    U32in64(&'a mut u64),
    U32(&'a mut u32),
    U16(&'a mut u16),
    B32(&'a mut B32),
    /// bytes with a minimal length (1 for predicate / message data: documented aliasing)
    Bytes(&'a mut HexBytes, usize),
}

impl Fm<'_> {
    /// names of the single-field edits available at this position
    fn edits(&self) -> &'static [&'static str] {
        match self {
            Fm::Bytes(b, min) => {
                if b.0.is_empty() {
                    &["push"]
                } else if b.0.len() > *min {
                    &["flip", "push", "pop"]
                } else {
                    &["flip", "push"]
                }
            }
            _ => &["chg"],
        }
    }
    fn apply(self, edit: &str, r: u64) {
        match self {
            Fm::U64(v) => *v = other_uint(*v, 64, r),
            Fm::U32in64(v) => *v = other_uint(*v, 32, r),
            Fm::U32(v) => *v = other_uint(*v as u64, 32, r) as u32,
            Fm::U16(v) => *v = other_uint(*v as u64, 16, r) as u16,
            Fm::B32(v) => *v = other_b32(*v, r),
            Fm::Bytes(b, _) => match edit {
                "flip" => {
                    let bit = (r >> 8) as usize % (b.0.len() * 8);
                    b.0[bit / 8] ^= 1 << (bit % 8);
                }
                "push" => b.0.push((r >> 8) as u8),
                _ => {
                    b.0.pop();
                }
            },
        }
    }
}

type Fields<'a> = Vec<(&'static str, usize, Fm<'a>)>;

fn in_fields<'a>(idx: usize, i: &'a mut InSpec, out: &mut Fields<'a>) {
    let mut p = |l: &'static str, f: Fm<'a>| out.push((l, idx, f));
    match i {
        InSpec::CoinSigned { utxo, owner, amount, asset, txp, wit } => {
            p("in.CoinSigned.utxo.tx_id", Fm::B32(&mut utxo.0));
            p("in.CoinSigned.utxo.output_index", Fm::U16(&mut utxo.1));
            p("in.CoinSigned.owner", Fm::B32(owner));
            p("in.CoinSigned.amount", Fm::U64(amount));
            p("in.CoinSigned.asset", Fm::B32(asset));
            p("in.CoinSigned.txp.block_height", Fm::U32(&mut txp.0));
            p("in.CoinSigned.txp.tx_index", Fm::U16(&mut txp.1));
            p("in.CoinSigned.wit", Fm::U16(wit));
        }
        InSpec::CoinPredicate { utxo, owner, amount, asset, txp, gas, predicate, pdata } => {
            p("in.CoinPredicate.utxo.tx_id", Fm::B32(&mut utxo.0));
            p("in.CoinPredicate.utxo.output_index", Fm::U16(&mut utxo.1));
            p("in.CoinPredicate.owner", Fm::B32(owner));
            p("in.CoinPredicate.amount", Fm::U64(amount));
            p("in.CoinPredicate.asset", Fm::B32(asset));
            p("in.CoinPredicate.txp.block_height", Fm::U32(&mut txp.0));
            p("in.CoinPredicate.txp.tx_index", Fm::U16(&mut txp.1));
            p("in.CoinPredicate.gas", Fm::U64(gas));
            p("in.CoinPredicate.predicate", Fm::Bytes(predicate, 1));
            p("in.CoinPredicate.pdata", Fm::Bytes(pdata, 0));
        }
        InSpec::Contract { utxo, balance_root, state_root, txp, contract } => {
            p("in.Contract.utxo.tx_id", Fm::B32(&mut utxo.0));
            p("in.Contract.utxo.output_index", Fm::U16(&mut utxo.1));
            p("in.Contract.balance_root", Fm::B32(balance_root));
            p("in.Contract.state_root", Fm::B32(state_root));
            p("in.Contract.txp.block_height", Fm::U32(&mut txp.0));
            p("in.Contract.txp.tx_index", Fm::U16(&mut txp.1));
            p("in.Contract.contract", Fm::B32(contract));
        }
        InSpec::MsgCoinSigned { sender, recipient, amount, nonce, wit } => {
            p("in.MsgCoinSigned.sender", Fm::B32(sender));
            p("in.MsgCoinSigned.recipient", Fm::B32(recipient));
            p("in.MsgCoinSigned.amount", Fm::U64(amount));
            p("in.MsgCoinSigned.nonce", Fm::B32(nonce));
            p("in.MsgCoinSigned.wit", Fm::U16(wit));
        }
        InSpec::MsgCoinPredicate { sender, recipient, amount, nonce, gas, predicate, pdata } => {
            p("in.MsgCoinPredicate.sender", Fm::B32(sender));
            p("in.MsgCoinPredicate.recipient", Fm::B32(recipient));
            p("in.MsgCoinPredicate.amount", Fm::U64(amount));
            p("in.MsgCoinPredicate.nonce", Fm::B32(nonce));
            p("in.MsgCoinPredicate.gas", Fm::U64(gas));
            p("in.MsgCoinPredicate.predicate", Fm::Bytes(predicate, 1));
            p("in.MsgCoinPredicate.pdata", Fm::Bytes(pdata, 0));
        }
        InSpec::MsgDataSigned { sender, recipient, amount, nonce, wit, data } => {
            p("in.MsgDataSigned.sender", Fm::B32(sender));
            p("in.MsgDataSigned.recipient", Fm::B32(recipient));
            p("in.MsgDataSigned.amount", Fm::U64(amount));
            p("in.MsgDataSigned.nonce", Fm::B32(nonce));
            p("in.MsgDataSigned.wit", Fm::U16(wit));
            p("in.MsgDataSigned.data", Fm::Bytes(data, 1));
        }
        InSpec::MsgDataPredicate { sender, recipient, amount, nonce, gas, data, predicate, pdata } => {
            p("in.MsgDataPredicate.sender", Fm::B32(sender));
            p("in.MsgDataPredicate.recipient", Fm::B32(recipient));
            p("in.MsgDataPredicate.amount", Fm::U64(amount));
            p("in.MsgDataPredicate.nonce", Fm::B32(nonce));
            p("in.MsgDataPredicate.gas", Fm::U64(gas));
            p("in.MsgDataPredicate.data", Fm::Bytes(data, 1));
            p("in.MsgDataPredicate.predicate", Fm::Bytes(predicate, 1));
            p("in.MsgDataPredicate.pdata", Fm::Bytes(pdata, 0));
        }
    }
}

fn out_fields<'a>(idx: usize, o: &'a mut OutSpec, out: &mut Fields<'a>) {
    let mut p = |l: &'static str, f: Fm<'a>| out.push((l, idx, f));
    match o {
        OutSpec::Coin { to, amount, asset } => {
            p("out.Coin.to", Fm::B32(to));
            p("out.Coin.amount", Fm::U64(amount));
            p("out.Coin.asset", Fm::B32(asset));
        }
        OutSpec::Contract { input_index, balance_root, state_root } => {
            p("out.Contract.input_index", Fm::U16(input_index));
            p("out.Contract.balance_root", Fm::B32(balance_root));
            p("out.Contract.state_root", Fm::B32(state_root));
        }
        OutSpec::Change { to, amount, asset } => {
            p("out.Change.to", Fm::B32(to));
            p("out.Change.amount", Fm::U64(amount));
            p("out.Change.asset", Fm::B32(asset));
        }
        OutSpec::Variable { to, amount, asset } => {
            p("out.Variable.to", Fm::B32(to));
            p("out.Variable.amount", Fm::U64(amount));
            p("out.Variable.asset", Fm::B32(asset));
        }
        OutSpec::ContractCreated { contract, state_root } => {
            p("out.ContractCreated.contract", Fm::B32(contract));
            p("out.ContractCreated.state_root", Fm::B32(state_root));
        }
    }
}

/// every scalar / id / bytes position of a chargeable spec
fn tx_fields(t: &mut TxSpec) -> Fields<'_> {
    let mut out: Fields = Vec::new();
    match &mut t.body {
        BodySpec::Script { gas_limit, receipts_root, script, data } => {
            out.push(("body.Script.gas_limit", 0, Fm::U64(gas_limit)));
            out.push(("body.Script.receipts_root", 0, Fm::B32(receipts_root)));
            out.push(("body.Script.script", 0, Fm::Bytes(script, 0)));
            out.push(("body.Script.data", 0, Fm::Bytes(data, 0)));
        }
        BodySpec::Create { wit, salt, slots } => {
            out.push(("body.Create.wit", 0, Fm::U16(wit)));
            out.push(("body.Create.salt", 0, Fm::B32(salt)));
            for (i, (k, v)) in slots.iter_mut().enumerate() {
                out.push(("body.Create.slot.key", i, Fm::B32(k)));
                out.push(("body.Create.slot.value", i, Fm::B32(v)));
            }
        }
        BodySpec::Upgrade(PurposeSpec::Consensus { wit, checksum }) => {
            out.push(("body.Upgrade.Consensus.wit", 0, Fm::U16(wit)));
            out.push(("body.Upgrade.Consensus.checksum", 0, Fm::B32(checksum)));
        }
        BodySpec::Upgrade(PurposeSpec::StateTransition { root }) => {
            out.push(("body.Upgrade.StateTransition.root", 0, Fm::B32(root)));
        }
        BodySpec::Upload { root, wit, sub_idx, sub_n, proof } => {
            out.push(("body.Upload.root", 0, Fm::B32(root)));
            out.push(("body.Upload.wit", 0, Fm::U16(wit)));
            out.push(("body.Upload.sub_idx", 0, Fm::U16(sub_idx)));
            out.push(("body.Upload.sub_n", 0, Fm::U16(sub_n)));
            for (i, p) in proof.iter_mut().enumerate() {
                out.push(("body.Upload.proof", i, Fm::B32(p)));
            }
        }
        BodySpec::Blob { id, wit } => {
            out.push(("body.Blob.id", 0, Fm::B32(id)));
            out.push(("body.Blob.wit", 0, Fm::U16(wit)));
        }
    }
    // only policies whose bit is set exist in the transaction
    const POL: [&str; 6] = ["pol.tip", "pol.witness_limit", "pol.maturity", "pol.max_fee", "pol.expiration", "pol.owner"];
    let mask = t.pol.mask;
    for (i, v) in t.pol.vals.iter_mut().enumerate() {
        if mask & (1 << i) != 0 {
            out.push((POL[i], i, if matches!(i, 2 | 4 | 5) { Fm::U32in64(v) } else { Fm::U64(v) }));
        }
    }
    for (i, x) in t.inputs.iter_mut().enumerate() {
        in_fields(i, x, &mut out);
    }
    for (i, x) in t.outputs.iter_mut().enumerate() {
        out_fields(i, x, &mut out);
    }
    for (i, w) in t.witnesses.iter_mut().enumerate() {
        out.push(("witnesses.bytes", i, Fm::Bytes(w, 0)));
    }
    out
}

fn mint_fields(m: &mut MintSpec) -> Fields<'_> {
    vec![
        ("mint.txp.block_height", 0, Fm::U32(&mut m.txp.0)),
        ("mint.txp.tx_index", 0, Fm::U16(&mut m.txp.1)),
        ("mint.in.utxo.tx_id", 0, Fm::B32(&mut m.in_utxo.0)),
        ("mint.in.utxo.output_index", 0, Fm::U16(&mut m.in_utxo.1)),
        ("mint.in.balance_root", 0, Fm::B32(&mut m.in_balance_root)),
        ("mint.in.state_root", 0, Fm::B32(&mut m.in_state_root)),
        ("mint.in.txp.block_height", 0, Fm::U32(&mut m.in_txp.0)),
        ("mint.in.txp.tx_index", 0, Fm::U16(&mut m.in_txp.1)),
        ("mint.in.contract", 0, Fm::B32(&mut m.contract)),
        ("mint.out.input_index", 0, Fm::U16(&mut m.out_input_index)),
        ("mint.out.balance_root", 0, Fm::B32(&mut m.out_balance_root)),
        ("mint.out.state_root", 0, Fm::B32(&mut m.out_state_root)),
        ("mint.amount", 0, Fm::U64(&mut m.amount)),
        ("mint.asset", 0, Fm::B32(&mut m.asset)),
        ("mint.gas_price", 0, Fm::U64(&mut m.gas_price)),
    ]
}

fn fresh_input(r: u64, have: &[InSpec]) -> InSpec {
    match r % 3 {
        0 if !have.is_empty() => have[(r >> 8) as usize % have.len()].clone(),
        1 => InSpec::Contract { utxo: UtxoSpec(Z32, 0), balance_root: Z32, state_root: Z32, txp: TxpSpec(0, 0), contract: Z32 },
        _ => InSpec::CoinSigned { utxo: UtxoSpec(B32([7; 32]), 1), owner: B32([9; 32]), amount: r >> 16, asset: Z32, txp: TxpSpec(0, 0), wit: 0 },
    }
}

fn fresh_output(r: u64, have: &[OutSpec]) -> OutSpec {
    match r % 3 {
        0 if !have.is_empty() => have[(r >> 8) as usize % have.len()].clone(),
        // an output whose every field is malleable: only its presence is committed to
        1 => OutSpec::Variable { to: Z32, amount: 0, asset: Z32 },
        _ => OutSpec::Coin { to: B32([3; 32]), amount: r >> 16, asset: Z32 },
    }
}

/// Enumerate every single-position mutation of `base`: `f(label, index, edit, mutated)`.
fn each_mutation(base: &AnyTx, salt: u64, f: &mut dyn FnMut(&'static str, usize, &'static str, AnyTx) -> Check) -> Check {
    let mut ctr = 0u64;
    let mut next = || {
        ctr += 1;
        mix(salt, ctr)
    };
    match base {
        AnyTx::Mint(m) => {
            let n = mint_fields(&mut m.clone()).len();
            for k in 0..n {
                let mut t = m.clone();
                let (label, idx, fm) = mint_fields(&mut t).into_iter().nth(k).unwrap();
                fm.apply("chg", next());
                f(label, idx, "chg", AnyTx::Mint(t))?;
            }
        }
        AnyTx::Charge(b) => {
            // 1. scalar / id / bytes positions
            let shape: Vec<&'static [&'static str]> = tx_fields(&mut b.clone()).iter().map(|(_, _, fm)| fm.edits()).collect();
            for (k, edits) in shape.iter().enumerate() {
                for &edit in edits.iter() {
                    let mut t = b.clone();
                    let (label, idx, fm) = tx_fields(&mut t).into_iter().nth(k).unwrap();
                    fm.apply(edit, next());
                    if let BodySpec::Create { slots, .. } = &mut t.body {
                        slots.sort(); // the spec keeps what `Transaction::create` builds
                    }
                    f(label, idx, edit, AnyTx::Charge(t))?;
                }
            }
            // 2. policies: set / unset one bit
            for i in 0..6usize {
                let mut t = b.clone();
                t.pol.mask ^= 1 << i;
                let label = if b.pol.mask & (1 << i) != 0 { "pol.unset" } else { "pol.set" };
                f(label, i, "bit", AnyTx::Charge(t))?;
            }
            // 3. vector lengths and order
            {
                let mut t = b.clone();
                let x = fresh_input(next(), &b.inputs);
                t.inputs.push(x);
                f("inputs", b.inputs.len(), "push", AnyTx::Charge(t))?;
                let mut t = b.clone();
                let x = fresh_output(next(), &b.outputs);
                t.outputs.push(x);
                f("outputs", b.outputs.len(), "push", AnyTx::Charge(t))?;
                let mut t = b.clone();
                t.witnesses.push(HexBytes(next().to_le_bytes()[..(next() % 9) as usize].to_vec()));
                f("witnesses", b.witnesses.len(), "push", AnyTx::Charge(t))?;
            }
            if !b.inputs.is_empty() {
                let mut t = b.clone();
                t.inputs.pop();
                f("inputs", b.inputs.len() - 1, "pop", AnyTx::Charge(t))?;
                let at = next() as usize % b.inputs.len();
                let mut t = b.clone();
                t.inputs.remove(at);
                f("inputs", at, "remove", AnyTx::Charge(t))?;
            }
            if !b.outputs.is_empty() {
                let mut t = b.clone();
                t.outputs.pop();
                f("outputs", b.outputs.len() - 1, "pop", AnyTx::Charge(t))?;
                let at = next() as usize % b.outputs.len();
                let mut t = b.clone();
                t.outputs.remove(at);
                f("outputs", at, "remove", AnyTx::Charge(t))?;
            }
            if !b.witnesses.is_empty() {
                let mut t = b.clone();
                t.witnesses.pop();
                f("witnesses", b.witnesses.len() - 1, "pop", AnyTx::Charge(t))?;
                let at = next() as usize % b.witnesses.len();
                let mut t = b.clone();
                t.witnesses.remove(at);
                f("witnesses", at, "remove", AnyTx::Charge(t))?;
            }
            // order: two neighbours that differ in a non-malleable position swapped
            if let Some(i) = (1..b.inputs.len()).find(|&i| zero_in(&b.inputs[i]) != zero_in(&b.inputs[i - 1])) {
                let mut t = b.clone();
                t.inputs.swap(i - 1, i);
                f("inputs", i, "swap", AnyTx::Charge(t))?;
            }
            if let Some(i) = (1..b.outputs.len()).find(|&i| zero_out(&b.outputs[i]) != zero_out(&b.outputs[i - 1])) {
                let mut t = b.clone();
                t.outputs.swap(i - 1, i);
                f("outputs", i, "swap", AnyTx::Charge(t))?;
            }
            if let Some(i) = (1..b.witnesses.len()).find(|&i| b.witnesses[i] != b.witnesses[i - 1]) {
                let mut t = b.clone();
                t.witnesses.swap(i - 1, i);
                f("witnesses", i, "swap", AnyTx::Charge(t))?;
            }
            match &b.body {
                BodySpec::Create { slots, .. } => {
                    let mut t = b.clone();
                    if let BodySpec::Create { slots, .. } = &mut t.body {
                        let r = next();
                        slots.push((other_b32(Z32, r | 1), other_b32(Z32, next() | 1)));
                        slots.sort();
                    }
                    f("body.Create.slots", slots.len(), "push", AnyTx::Charge(t))?;
                    if !slots.is_empty() {
                        let mut t = b.clone();
                        if let BodySpec::Create { slots, .. } = &mut t.body {
                            slots.pop();
                        }
                        f("body.Create.slots", slots.len() - 1, "pop", AnyTx::Charge(t))?;
                    }
                }
                BodySpec::Upload { proof, .. } => {
                    let mut t = b.clone();
                    if let BodySpec::Upload { proof, .. } = &mut t.body {
                        proof.push(other_b32(Z32, next()));
                    }
                    f("body.Upload.proof_set", proof.len(), "push", AnyTx::Charge(t))?;
                    if !proof.is_empty() {
                        let mut t = b.clone();
                        if let BodySpec::Upload { proof, .. } = &mut t.body {
                            proof.pop();
                        }
                        f("body.Upload.proof_set", proof.len() - 1, "pop", AnyTx::Charge(t))?;
                    }
                    if let Some(i) = (1..proof.len()).find(|&i| proof[i] != proof[i - 1]) {
                        let mut t = b.clone();
                        if let BodySpec::Upload { proof, .. } = &mut t.body {
                            proof.swap(i - 1, i);
                        }
                        f("body.Upload.proof_set", i, "swap", AnyTx::Charge(t))?;
                    }
                }
                _ => {}
            }
        }
    }
    Ok(())
}

#[derive(Debug, Clone, Serialize, Deserialize)]
pub struct MutCase {
    pub tx: AnyTx,
    pub chain: u64,
    pub chain2: u64,
    /// seed of the replacement values (bit positions etc.)
    pub salt: u64,
}

fn check_spec_mutations(c: &MutCase, obs: &mut Obs) -> Check {
    let kind = kind_name(c.tx.kind());
    let chain = ChainId::new(c.chain);
    let tx = c.tx.build();
    let bytes = tx.to_bytes();
    let id = tx.id(&chain);

    if c.chain2 != c.chain {
        ensure!(tx.id(&ChainId::new(c.chain2)) != id, format!("meta:{kind}:chain-id-ignored"), "id under chain {} equals id under chain {}", c.chain2, c.chain);
    }

    let (mut n_mal, mut n_non) = (0u64, 0u64);
    let mut labels: std::collections::BTreeSet<&'static str> = Default::default();
    each_mutation(&c.tx, c.salt, &mut |label, idx, edit, mutated| {
        if mutated == c.tx {
            fail!("harness-noop-mutation", "mutation {label}[{idx}]#{edit} left the spec unchanged");
        }
        let mtx = mutated.build();
        if mtx.to_bytes() == bytes {
            fail!("harness-noop-encoding", "mutation {label}[{idx}]#{edit} left the canonical bytes unchanged");
        }
        let mid = mtx.id(&chain);
        if is_malleable(label) {
            n_mal += 1;
            ensure!(mid == id, format!("meta:{kind}:malleable-changes-id:{label}#{edit}"), "changing malleable {label}[{idx}] ({edit}) changed the id");
        } else {
            n_non += 1;
            ensure!(mid != id, format!("meta:{kind}:non-malleable-ignored:{label}#{edit}"), "changing {label}[{idx}] ({edit}) did not change the id");
        }
        labels.insert(label);
        Ok(())
    })?;
    obs.note("mutations:malleable", n_mal);
    obs.note("mutations:non-malleable", n_non);
    for l in &labels {
        obs.note(&format!("label:{l}"), 1);
    }
    obs.class(kind);
    if n_mal > 0 && n_non > 0 {
        obs.class("malleable+non-malleable");
        let mut sig = vec![c.tx.kind()];
        if let AnyTx::Charge(t) = &c.tx {
            sig.extend(layout_sig(t));
        }
        obs.nontrivial(&(sig, labels));
    }
    Ok(())
}

// =================================================================== Oracle B on the JSON tree

/// JSON paths (array indices dropped, `*` = one segment, `**` = any rest) of malleable leaves.
/// Everything else — including any leaf the harness has never seen — must change the id.
const JSON_MALLEABLE: &[&str] = &[
    "Script/body/receipts_root",
    "*/outputs/Change/amount",
    "*/outputs/Variable/to",
    "*/outputs/Variable/amount",
    "*/outputs/Variable/asset_id",
    "*/outputs/Contract/balance_root",
    "*/outputs/Contract/state_root",
    "*/inputs/Contract/utxo_id/**",
    "*/inputs/Contract/balance_root",
    "*/inputs/Contract/state_root",
    "*/inputs/Contract/tx_pointer/**",
    "*/inputs/CoinSigned/tx_pointer/**",
    "*/inputs/CoinPredicate/tx_pointer/**",
    "*/inputs/CoinPredicate/predicate_gas_used",
    "*/inputs/MessageCoinPredicate/predicate_gas_used",
    "*/inputs/MessageDataPredicate/predicate_gas_used",
    "*/witnesses/**",
    "*/witnesses",
    "Mint/input_contract/utxo_id/**",
    "Mint/input_contract/balance_root",
    "Mint/input_contract/state_root",
    "Mint/input_contract/tx_pointer/**",
    "Mint/output_contract/balance_root",
    "Mint/output_contract/state_root",
];

fn glob(pat: &str, path: &[&str]) -> bool {
    let mut p = pat.split('/');
    let mut i = 0;
    loop {
        match p.next() {
            None => return i == path.len(),
            Some("**") => return i < path.len(),
            Some(seg) => {
                if i >= path.len() || (seg != "*" && seg != path[i]) {
                    return false;
                }
                i += 1;
            }
        }
    }
}

fn json_malleable(path: &[&str]) -> bool {
    JSON_MALLEABLE.iter().any(|p| glob(p, path))
}

#[derive(Clone, Debug, PartialEq)]
enum Seg {
    Key(String),
    Idx(usize),
}

#[derive(Clone, Copy, Debug, PartialEq)]
enum Edit {
    Number,
    HexDigit,
    Push,
    Pop,
}

fn get_mut<'a>(v: &'a mut Value, path: &[Seg]) -> Option<&'a mut Value> {
    let mut cur = v;
    for s in path {
        cur = match s {
            Seg::Key(k) => cur.get_mut(k.as_str())?,
            Seg::Idx(i) => cur.get_mut(*i)?,
        };
    }
    Some(cur)
}

/// enumerate edit sites; long numeric arrays (byte vectors) contribute 3 elements chosen by `salt`
fn sites(v: &Value, path: &mut Vec<Seg>, salt: u64, out: &mut Vec<(Vec<Seg>, Edit)>) {
    match v {
        Value::Null | Value::Bool(_) => {}
        Value::Number(_) => out.push((path.clone(), Edit::Number)),
        Value::String(s) => {
            let h = s.strip_prefix("0x").unwrap_or(s);
            if !h.is_empty() && h.bytes().all(|c| c.is_ascii_hexdigit()) {
                out.push((path.clone(), Edit::HexDigit));
            }
        }
        Value::Array(a) => {
            out.push((path.clone(), Edit::Push));
            if !a.is_empty() {
                out.push((path.clone(), Edit::Pop));
            }
            let numeric = a.iter().all(|x| x.is_number());
            if numeric && a.len() > 8 {
                let h = mix(salt, hash64(&format!("{path:?}")));
                for k in 0..3u64 {
                    let i = (mix(h, k) % a.len() as u64) as usize;
                    path.push(Seg::Idx(i));
                    out.push((path.clone(), Edit::Number));
                    path.pop();
                }
            } else {
                for (i, x) in a.iter().enumerate() {
                    path.push(Seg::Idx(i));
                    sites(x, path, salt, out);
                    path.pop();
                }
            }
        }
        Value::Object(m) => {
            for (k, x) in m {
                path.push(Seg::Key(k.clone()));
                sites(x, path, salt, out);
                path.pop();
            }
        }
    }
}

/// apply the edit; `attempt` 0 = salt-chosen change, 1 = the smallest change (keeps any width)
fn apply_edit(root: &mut Value, path: &[Seg], edit: Edit, r: u64, attempt: u8) -> bool {
    let Some(v) = get_mut(root, path) else { return false };
    match edit {
        Edit::Number => {
            let Some(n) = v.as_u64() else { return false };
            let m = if attempt == 0 { n ^ (1u64 << (r % 64)) } else { n ^ 1 };
            *v = Value::from(m);
            true
        }
        Edit::HexDigit => {
            let Some(s) = v.as_str() else { return false };
            let pre = if s.starts_with("0x") { 2 } else { 0 };
            let mut b = s.as_bytes().to_vec();
            let n = b.len() - pre;
            let at = pre + if attempt == 0 { (r % n as u64) as usize } else { n - 1 };
            let d = (b[at] as char).to_digit(16).unwrap_or(0);
            let nd = if attempt == 0 { d ^ (1 << ((r >> 32) % 4)) } else { d ^ 1 };
            b[at] = std::char::from_digit(nd, 16).unwrap() as u8;
            *v = Value::String(String::from_utf8(b).unwrap());
            true
        }
        Edit::Push => {
            let Some(a) = v.as_array_mut() else { return false };
            let x = match a.last() {
                Some(x) => x.clone(),
                // an empty array gives no template: try a byte
                None => Value::from((r % 256) as u64),
            };
            a.push(x);
            true
        }
        Edit::Pop => {
            let Some(a) = v.as_array_mut() else { return false };
            a.pop().is_some()
        }
    }
}

fn check_json_leaves(c: &MutCase, obs: &mut Obs) -> Check {
    let kind = kind_name(c.tx.kind());
    let chain = ChainId::new(c.chain);
    let tx = c.tx.build();
    let bytes = tx.to_bytes();
    let id = tx.id(&chain);
    let root: Value = serde_json::to_value(&tx).map_err(|e| Failure::new("harness-json", format!("to_value: {e}")))?;
    let back: Transaction = serde_json::from_value(root.clone()).map_err(|e| Failure::new("json:round-trip-error", format!("from_value(to_value(tx)): {e}")))?;
    ensure!(back == tx, "json:round-trip", "from_value(to_value(tx)) != tx");

    let mut all = vec![];
    sites(&root, &mut vec![], c.salt, &mut all);
    let (mut n_mal, mut n_non) = (0u64, 0u64);
    let mut seen: std::collections::BTreeSet<String> = Default::default();
    for (k, (path, edit)) in all.iter().enumerate() {
        let names: Vec<&str> = path.iter().filter_map(|s| if let Seg::Key(k) = s { Some(k.as_str()) } else { None }).collect();
        let label = names.join("/");
        let r = mix(c.salt, k as u64 + 1);
        let mut done = false;
        for attempt in 0..2u8 {
            let mut v2 = root.clone();
            if !apply_edit(&mut v2, path, *edit, r, attempt) {
                break;
            }
            let Ok(tx2) = serde_json::from_value::<Transaction>(v2) else { continue };
            // a well-formed value of the type survives its own canonical encoding (valid
            // policies, no predicate/data aliasing); anything else is outside the domain
            let b2 = tx2.to_bytes();
            match catch_panic(|| <Transaction as fuel_types::canonical::Deserialize>::from_bytes(&b2)) {
                Ok(Ok(t3)) if t3 == tx2 => {}
                _ => continue,
            }
            if b2 == bytes {
                continue;
            }
            let id2 = tx2.id(&chain);
            if json_malleable(&names) {
                n_mal += 1;
                ensure!(id2 == id, format!("json:{kind}:malleable-changes-id:{label}#{edit:?}"), "changing malleable leaf {path:?} ({edit:?}) changed the id");
            } else {
                n_non += 1;
                ensure!(id2 != id, format!("json:{kind}:non-malleable-ignored:{label}#{edit:?}"), "changing leaf {path:?} ({edit:?}) did not change the id");
            }
            seen.insert(label.clone());
            done = true;
            break;
        }
        if !done {
            obs.note("skipped-sites", 1);
            obs.note(&format!("skipped:{label}#{edit:?}"), 1);
        }
    }
    obs.note("mutations:malleable", n_mal);
    obs.note("mutations:non-malleable", n_non);
    for l in &seen {
        obs.note(&format!("leaf:{l}"), 1);
    }
    obs.class(kind);
    if n_mal > 0 && n_non > 0 {
        obs.class("malleable+non-malleable");
        let mut sig = vec![c.tx.kind()];
        if let AnyTx::Charge(t) = &c.tx {
            sig.extend(layout_sig(t));
        }
        obs.nontrivial(&(sig, seen));
    }
    Ok(())
}

// =================================================================== property

fn id_case() -> impl Strategy<Value = IdCase> {
    (any_tx_cacheable(), chain_id()).prop_map(|(tx, chain)| IdCase { tx, chain })
}

fn mut_case() -> impl Strategy<Value = MutCase> {
    (any_tx(), chain_id(), chain_id(), any::<u64>()).prop_map(|(tx, chain, chain2, salt)| MutCase { tx, chain, chain2, salt })
}

fn part_with_shrink(name: &str, rule: &str, cases: (u64, u64), shrink_iters: u32, check: fn(&MutCase, &mut Obs) -> Check) -> Box<dyn PartDyn> {
    Box::new(GenPart {
        name: name.to_string(),
        rule: rule.to_string(),
        cases,
        strat: Box::new(|_c: &Ctx| mut_case().boxed()),
        check: Box::new(check),
        shrink_iters,
    })
}

pub fn property() -> Property {
    Property {
        id: "C03",
        rule: "G-TX transactions of the 6 kinds (flat over kinds; inputs 0..=40 of 7 kinds, outputs of 5 kinds, witnesses, all 64 policy masks), chain ids boundary-biased. ref-id: id == SHA-256(chain_be ‖ bytes(spec zeroed by the harness)), and after precompute cached_id/id equal it. spec-mut: every scalar/id/bytes position of the spec (body, set policies, every input/output field, witnesses), every policy bit, push/pop/remove/swap on inputs/outputs/witnesses/slots/proof set is mutated in turn (one position per mutant); id' == id iff the position is in the malleable table of the statement or a witness; a second chain id changes the id. json-leaf: the same iff for every leaf of serde_json::to_value(&Transaction) (unknown leaves count as non-malleable). Non-trivial = case with at least one malleable and one non-malleable mutant checked; distinct by (kind, layout signature, set of positions mutated)".into(),
        assumptions: vec![
            "sha2 crate is correct; SHA-256 collisions are ignored".into(),
            "the canonical encoder (C01) is used to serialise the harness-zeroed transaction".into(),
            "serde_json round-trip of Transaction (C06) for the json-leaf part".into(),
            "predicate / message data non-empty for predicate / data input variants (documented aliasing)".into(),
        ],
        parts: vec![
            gen_part("ref-id", "reference id by spec zeroing + cached id after precompute", (200_000, 6_000_000), |_c: &Ctx| id_case(), check_ref_id),
            // the two mutation parts evaluate hundreds of mutants per case: a smaller shrink budget
            // keeps a failing run short (the failure key already names the position)
            part_with_shrink("spec-mut", "every single-position mutation of the spec: id changes iff not malleable", (20_000, 500_000), 600, check_spec_mutations),
            part_with_shrink("json-leaf", "every leaf of the serde_json tree perturbed: id changes iff path not malleable", (6_000, 150_000), 200, check_json_leaves),
        ],
        floors: vec![("ref-id", "precompute-ok", 0.5), ("spec-mut", "malleable+non-malleable", 0.5), ("json-leaf", "malleable+non-malleable", 0.4)],
    }
}
