//! C06 — Serde formats round-trip protocol types and consensus parameters.
//!
//! Oracle: for fmt in {serde_json (string and Value), postcard, bincode}: `from(to(v)) == v` and
//! `to(from(to(v))) == to(v)` (the byte comparison also covers the fields the types' `Eq` ignores).
//! Policies additionally: an independent statement of the two layouts (legacy: always four values;
//! compact: one value per set bit) in postcard / bincode bytes and JSON shape, legacy <=> mask
//! uses none of the two newer bits. Upgrade chain: `Transaction::upgrade_consensus_parameters`
//! -> `UpgradeMetadata::compute` returns equal parameters, checksum == SHA-256(witness) == the
//! purpose's checksum, `postcard(params') == witness` — also after the transaction itself went
//! through canonical and postcard round trips.
use crate::engine::*;
use crate::gens::tx::*;
use crate::gens::tx_extra::*;
use crate::{ensure, ensure_eq};
use fuel_tx::consensus_parameters::gas::*;
use fuel_tx::consensus_parameters::{ConsensusParametersV1, ConsensusParametersV2, ScriptParametersV1};
use fuel_tx::field::{UpgradePurpose as _, Witnesses};
use fuel_tx::policies::Policies;
use fuel_tx::{ConsensusParameters, GasCosts, GasCostsValues, Receipt, ScriptParameters, Transaction, UpgradeMetadata, UpgradePurpose};
use proptest::prelude::*;
use serde::de::DeserializeOwned;
use serde::{Deserialize, Serialize};
use serde_json::Value;
use sha2::{Digest, Sha256};
use std::collections::BTreeMap;
use std::sync::{Arc, Mutex, OnceLock};

// ------------------------------------------------------------------ generic round trip

/// first difference of two Debug renderings (the values are long)
fn diff_dbg<T: std::fmt::Debug>(a: &T, b: &T) -> String {
    let (x, y) = (format!("{a:?}"), format!("{b:?}"));
    let at = x.bytes().zip(y.bytes()).position(|(p, q)| p != q).unwrap_or(x.len().min(y.len()));
    let lo = at.saturating_sub(60);
    let f = |s: &str| s.get(lo..(at + 40).min(s.len())).unwrap_or("").to_string();
    format!("first difference at debug offset {at}: got ...{}... want ...{}...", f(&x), f(&y))
}

pub fn roundtrip<T>(ty: &str, v: &T) -> Check
where
    T: Serialize + DeserializeOwned + PartialEq + std::fmt::Debug,
{
    // serde_json, text
    let s = serde_json::to_string(v).map_err(|e| Failure::new(format!("c06:{ty}:json:serialize-error"), e.to_string()))?;
    let d: T = serde_json::from_str(&s).map_err(|e| Failure::new(format!("c06:{ty}:json:deserialize-error"), format!("{e}; text {}", &s[..s.len().min(400)])))?;
    ensure!(d == *v, format!("c06:{ty}:json:value-differs"), "from_str(to_string(v)) != v; {}", diff_dbg(&d, v));
    let s2 = serde_json::to_string(&d).map_err(|e| Failure::new(format!("c06:{ty}:json:serialize-error"), e.to_string()))?;
    ensure!(s2 == s, format!("c06:{ty}:json:reserialization-differs"), "to_string(from_str(to_string(v))) differs");
    // serde_json, Value
    let j = serde_json::to_value(v).map_err(|e| Failure::new(format!("c06:{ty}:json-value:serialize-error"), e.to_string()))?;
    let d: T = serde_json::from_value(j.clone()).map_err(|e| Failure::new(format!("c06:{ty}:json-value:deserialize-error"), e.to_string()))?;
    ensure!(d == *v, format!("c06:{ty}:json-value:value-differs"), "from_value(to_value(v)) != v; {}", diff_dbg(&d, v));
    ensure!(serde_json::to_value(&d).ok().as_ref() == Some(&j), format!("c06:{ty}:json-value:reserialization-differs"), "to_value differs after round trip");
    // postcard
    let p = postcard::to_allocvec(v).map_err(|e| Failure::new(format!("c06:{ty}:postcard:serialize-error"), e.to_string()))?;
    let (d, rest): (T, &[u8]) = postcard::take_from_bytes(&p).map_err(|e| Failure::new(format!("c06:{ty}:postcard:deserialize-error"), e.to_string()))?;
    ensure!(rest.is_empty(), format!("c06:{ty}:postcard:bytes-left"), "{} bytes left after postcard decode", rest.len());
    ensure!(d == *v, format!("c06:{ty}:postcard:value-differs"), "postcard round trip differs; {}", diff_dbg(&d, v));
    let p2 = postcard::to_allocvec(&d).map_err(|e| Failure::new(format!("c06:{ty}:postcard:serialize-error"), e.to_string()))?;
    ensure!(p2 == p, format!("c06:{ty}:postcard:reserialization-differs"), "postcard bytes differ after round trip");
    // bincode
    let b = bincode::serialize(v).map_err(|e| Failure::new(format!("c06:{ty}:bincode:serialize-error"), e.to_string()))?;
    let d: T = bincode::deserialize(&b).map_err(|e| Failure::new(format!("c06:{ty}:bincode:deserialize-error"), e.to_string()))?;
    ensure!(d == *v, format!("c06:{ty}:bincode:value-differs"), "bincode round trip differs; {}", diff_dbg(&d, v));
    let b2 = bincode::serialize(&d).map_err(|e| Failure::new(format!("c06:{ty}:bincode:serialize-error"), e.to_string()))?;
    ensure!(b2 == b, format!("c06:{ty}:bincode:reserialization-differs"), "bincode bytes differ after round trip");
    ensure_eq!(bincode::serialized_size(v).ok(), Some(b.len() as u64), format!("c06:{ty}:bincode:serialized-size-differs"), "serialized_size vs len");
    Ok(())
}

// ------------------------------------------------------------------ policies layouts

fn leb(mut x: u64, out: &mut Vec<u8>) {
    loop {
        let b = (x & 0x7f) as u8;
        x >>= 7;
        if x == 0 {
            out.push(b);
            return;
        }
        out.push(b | 0x80);
    }
}

const FLAG_NAMES: [&str; 6] = ["Tip", "WitnessLimit", "Maturity", "MaxFee", "Expiration", "Owner"];

fn check_policies(p: &PolSpec, obs: &mut Obs) -> Check {
    let mask = p.mask & 63;
    let v: Policies = p.build();
    roundtrip("Policies", &v)?;
    let legacy = mask & 0b110000 == 0;
    let set: Vec<u64> = (0..6).filter(|k| mask & (1 << k) != 0).map(|k| p.vals[k]).collect();
    let first4: Vec<u64> = (0..4).map(|k| if mask & (1 << k) != 0 { p.vals[k] } else { 0 }).collect();
    let want_vals = if legacy { &first4 } else { &set };
    obs.class(if legacy { "policies:legacy-layout" } else { "policies:compact-layout" });
    // JSON shape
    let j = serde_json::to_value(&v).map_err(|e| Failure::new("c06:Policies:json:serialize-error", e.to_string()))?;
    let vals = j.get("values").and_then(|x| x.as_array()).ok_or_else(|| Failure::new("c06:Policies:json:no-values-array", format!("{j}")))?;
    let got: Vec<Option<u64>> = vals.iter().map(|x| x.as_u64()).collect();
    let want: Vec<Option<u64>> = want_vals.iter().map(|x| Some(*x)).collect();
    ensure!(got == want, "c06:Policies:json:values-layout", "mask {mask:#08b}: JSON values {got:?}, expected {} layout {want:?}", if legacy { "legacy" } else { "compact" });
    let names: Vec<&str> = (0..6).filter(|k| mask & (1 << k) != 0).map(|k| FLAG_NAMES[k]).collect();
    ensure!(j.get("bits").and_then(|b| b.as_str()) == Some(&names.join(" | ")), "c06:Policies:json:bits-text", "mask {mask:#08b}: bits rendered as {:?}", j.get("bits"));
    // postcard bytes: varint(bits) then legacy: 4 varints | compact: varint(n) + n varints
    let mut want_pc = vec![];
    leb(mask as u64, &mut want_pc);
    if !legacy {
        leb(set.len() as u64, &mut want_pc);
    }
    for x in want_vals {
        leb(*x, &mut want_pc);
    }
    let pc = postcard::to_allocvec(&v).map_err(|e| Failure::new("c06:Policies:postcard:serialize-error", e.to_string()))?;
    ensure!(pc == want_pc, "c06:Policies:postcard:layout", "mask {mask:#08b}: postcard {} != expected {} layout {}", hex::encode(&pc), if legacy { "legacy" } else { "compact" }, hex::encode(&want_pc));
    // bincode bytes: u32 LE bits, legacy: 4 x u64 LE | compact: u64 LE n + n x u64 LE
    let mut want_bc = (mask as u32).to_le_bytes().to_vec();
    if !legacy {
        want_bc.extend((set.len() as u64).to_le_bytes());
    }
    for x in want_vals {
        want_bc.extend(x.to_le_bytes());
    }
    let bc = bincode::serialize(&v).map_err(|e| Failure::new("c06:Policies:bincode:serialize-error", e.to_string()))?;
    ensure!(bc == want_bc, "c06:Policies:bincode:layout", "mask {mask:#08b}: bincode bytes differ from the expected {} layout", if legacy { "legacy" } else { "compact" });
    // reading the independently stated bytes gives the value back
    let d: Policies = postcard::from_bytes(&want_pc).map_err(|e| Failure::new("c06:Policies:postcard:deserialize-error", e.to_string()))?;
    ensure!(d == v, "c06:Policies:postcard:value-differs", "mask {mask:#08b}");
    for (k, t) in [fuel_tx::policies::PolicyType::Tip, fuel_tx::policies::PolicyType::WitnessLimit, fuel_tx::policies::PolicyType::Maturity, fuel_tx::policies::PolicyType::MaxFee, fuel_tx::policies::PolicyType::Expiration, fuel_tx::policies::PolicyType::Owner].into_iter().enumerate() {
        let want = if mask & (1 << k) != 0 { Some(p.vals[k]) } else { None };
        ensure_eq!(d.get(t), want, "c06:Policies:policy-value-differs", "policy {k} of mask {mask:#08b}");
    }
    if mask & 0b110000 != 0 {
        obs.class("nontrivial");
        obs.nontrivial(&(0u8, mask, p.vals.map(|x| x.leading_zeros() / 8)));
    }
    Ok(())
}

// ------------------------------------------------------------------ consensus parameters through JSON

struct Template {
    value: Value,
    /// numeric leaves outside dependent costs: path -> width in bits
    widths: BTreeMap<String, u8>,
}

fn gas_values(version: u8) -> GasCostsValues {
    match version {
        1 => GasCostsValues::V1(GasCostsValuesV1::unit()),
        2 => GasCostsValues::V2(GasCostsValuesV2::unit()),
        3 => GasCostsValues::V3(GasCostsValuesV3::unit()),
        4 => GasCostsValues::V4(GasCostsValuesV4::unit()),
        5 => GasCostsValues::V5(GasCostsValuesV5::unit()),
        6 => GasCostsValues::V6(GasCostsValuesV6::unit()),
        _ => GasCostsValues::V7(GasCostsValuesV7::unit()),
    }
}

fn gas_values_free(version: u8) -> GasCostsValues {
    match version {
        1 => GasCostsValues::V1(GasCostsValuesV1::free()),
        2 => GasCostsValues::V2(GasCostsValuesV2::free()),
        3 => GasCostsValues::V3(GasCostsValuesV3::free()),
        4 => GasCostsValues::V4(GasCostsValuesV4::free()),
        5 => GasCostsValues::V5(GasCostsValuesV5::free()),
        6 => GasCostsValues::V6(GasCostsValuesV6::free()),
        _ => GasCostsValues::V7(GasCostsValuesV7::free()),
    }
}

/// typed (not JSON-built) parameter values of the given versions: the library's standard values
/// with an all-zero or all-one gas table. Values built through the deserialiser can never carry
/// a non-default value in a field that serde drops; these can.
fn typed_base(cp: u8, gas: u8, script: u8, free: bool) -> ConsensusParameters {
    let mut base: ConsensusParameters = if cp == 1 { ConsensusParametersV1::standard().into() } else { ConsensusParametersV2::standard().into() };
    base.set_gas_costs(GasCosts::new(if free { gas_values_free(gas) } else { gas_values(gas) }));
    if script == 1 {
        base.set_script_params(ScriptParameters::V1(ScriptParametersV1 { max_script_length: 1024 * 1024, max_script_data_length: 1024 * 1024 }));
    }
    base
}

fn is_dep_cost(v: &Value) -> bool {
    v.as_object().map(|o| o.len() == 1 && (o.contains_key("LightOperation") || o.contains_key("HeavyOperation"))).unwrap_or(false)
}

/// DFS over numeric leaves (key-sorted: serde_json's map is a BTreeMap here), skipping dependent costs
fn walk_nums(v: &mut Value, path: &mut String, f: &mut dyn FnMut(&str, &str, &mut Value)) {
    match v {
        Value::Object(o) => {
            for (k, x) in o.iter_mut() {
                if is_dep_cost(x) {
                    continue;
                }
                let l = path.len();
                path.push('/');
                path.push_str(k);
                if x.is_number() {
                    f(path, k, x);
                } else {
                    walk_nums(x, path, f);
                }
                path.truncate(l);
            }
        }
        Value::Array(a) => {
            for (i, x) in a.iter_mut().enumerate() {
                let l = path.len();
                path.push_str(&format!("/{i}"));
                if x.is_number() {
                    f(path, "", x);
                } else {
                    walk_nums(x, path, f);
                }
                path.truncate(l);
            }
        }
        _ => {}
    }
}

fn walk_deps(v: &mut Value, f: &mut dyn FnMut(&mut Value)) {
    if is_dep_cost(v) {
        f(v);
        return;
    }
    match v {
        Value::Object(o) => o.values_mut().for_each(|x| walk_deps(x, f)),
        Value::Array(a) => a.iter_mut().for_each(|x| walk_deps(x, f)),
        _ => {}
    }
}

fn set_at(v: &mut Value, path: &str, new: Value) {
    if let Some(x) = v.pointer_mut(path) {
        *x = new;
    }
}

fn template(cp: u8, gas: u8, script: u8) -> Arc<Template> {
    static CACHE: OnceLock<Mutex<BTreeMap<(u8, u8, u8), Arc<Template>>>> = OnceLock::new();
    let cache = CACHE.get_or_init(|| Mutex::new(BTreeMap::new()));
    if let Some(t) = cache.lock().unwrap().get(&(cp, gas, script)) {
        return t.clone();
    }
    let base = typed_base(cp, gas, script, false);
    let mut value = serde_json::to_value(&base).expect("default consensus parameters serialise");
    // probe the width of every numeric leaf with the deserialiser (generation aid only)
    let mut paths: Vec<String> = vec![];
    walk_nums(&mut value, &mut String::new(), &mut |p, _, _| paths.push(p.to_string()));
    let mut widths = BTreeMap::new();
    for p in paths {
        let mut w = 0u8;
        for (bits, max) in [(64u8, u64::MAX), (32, u32::MAX as u64), (16, u16::MAX as u64), (8, u8::MAX as u64)] {
            let mut probe = value.clone();
            set_at(&mut probe, &p, Value::from(max));
            if serde_json::from_value::<ConsensusParameters>(probe).is_ok() {
                w = bits;
                break;
            }
        }
        widths.insert(p, w);
    }
    let t = Arc::new(Template { value, widths });
    cache.lock().unwrap().insert((cp, gas, script), t.clone());
    t
}

/// returns (parameters, number of leaves that differ from the default)
pub fn build_cp(spec: &CpSpec) -> Result<(ConsensusParameters, usize), Failure> {
    let t = template(spec.cp_version.clamp(1, 2), spec.gas_version.clamp(1, 7), spec.script_version.clamp(1, 2));
    let mut v = t.value.clone();
    let n = spec.nums.len().max(1);
    let num = |i: usize| spec.nums.get(i % n).copied().unwrap_or(0);
    let take = |i: usize| spec.density == 255 || ((i as u64).wrapping_mul(0x9E37).wrapping_add(num(0)) % 255) < spec.density as u64;
    let mut changed = 0usize;
    // dependent costs: variant by dep_kinds bit, numbers from the stream; units_per_gas >= 1
    let mut k = 0usize;
    walk_deps(&mut v, &mut |d| {
        if take(1000 + k) {
            let light = (spec.dep_kinds >> (k % 64)) & 1 == 1;
            let (a, b) = (num(2 * k + 1), num(2 * k + 2));
            *d = if light { serde_json::json!({"LightOperation": {"base": a, "units_per_gas": b.max(1)}}) } else { serde_json::json!({"HeavyOperation": {"base": a, "gas_per_unit": b}}) };
            changed += 2;
        }
        k += 1;
    });
    let mut i = 0usize;
    walk_nums(&mut v, &mut String::new(), &mut |p, _key, x| {
        let w = t.widths.get(p).copied().unwrap_or(0);
        if w > 0 && take(i) {
            let m = if w >= 64 { u64::MAX } else { (1u64 << w) - 1 };
            // keep boundary shape: saturate instead of masking when the draw is a high boundary
            let raw = num(i);
            let val = if raw > m { m - (raw % 3) } else { raw };
            if x.as_u64() != Some(val) {
                changed += 1;
            }
            *x = Value::from(val);
        }
        i += 1;
    });
    // ids
    let root = if spec.cp_version == 1 { "/V1" } else { "/V2" };
    set_at(&mut v, &format!("{root}/base_asset_id"), Value::from(hex::encode(spec.ids[0].0)));
    set_at(&mut v, &format!("{root}/privileged_address"), Value::from(hex::encode(spec.ids[1].0)));
    let cp: ConsensusParameters = serde_json::from_value(v).map_err(|e| Failure::new("harness-cp-spec-rejected", format!("generated consensus parameters rejected by the deserialiser: {e}")))?;
    Ok((cp, changed))
}

// ------------------------------------------------------------------ cases

#[derive(Debug, Clone, Serialize, Deserialize)]
pub enum Val {
    Tx(AnyTx),
    Receipt(ReceiptSpec),
    Receipts(Vec<ReceiptSpec>),
    Pol(PolSpec),
    In(InSpec),
    Out(OutSpec),
}

#[derive(Debug, Clone, Serialize, Deserialize)]
pub struct CpCase {
    pub cp: CpSpec,
    /// the rest of the upgrade transaction
    pub pol: PolSpec,
    pub inputs: Vec<InSpec>,
    pub outputs: Vec<OutSpec>,
    pub witnesses: Vec<HexBytes>,
}

fn check_val(v: &Val, obs: &mut Obs) -> Check {
    match v {
        Val::Tx(t) => {
            let tx: Transaction = t.build();
            obs.class(["tx:script", "tx:create", "tx:mint", "tx:upgrade", "tx:upload", "tx:blob"][t.kind() as usize]);
            roundtrip("Transaction", &tx)?;
            match &tx {
                Transaction::Script(x) => roundtrip("Script", x)?,
                Transaction::Create(x) => roundtrip("Create", x)?,
                Transaction::Mint(x) => roundtrip("Mint", x)?,
                Transaction::Upgrade(x) => roundtrip("Upgrade", x)?,
                Transaction::Upload(x) => roundtrip("Upload", x)?,
                Transaction::Blob(x) => roundtrip("Blob", x)?,
            }
            if let AnyTx::Charge(ts) = t {
                if ts.pol.mask & 0b110000 != 0 {
                    obs.class("nontrivial");
                    obs.nontrivial(&(1u8, layout_sig(ts)));
                }
            }
        }
        Val::Receipt(r) => {
            let rc: Receipt = r.build();
            obs.class("receipt");
            roundtrip("Receipt", &rc)?;
            // the fields Receipt's Eq ignores survive serde (they are part of these formats)
            let d: Receipt = postcard::from_bytes(&postcard::to_allocvec(&rc).unwrap()).map_err(|e| Failure::new("c06:Receipt:postcard:deserialize-error", e.to_string()))?;
            ensure!(d.data() == rc.data() && d.contract_id() == rc.contract_id() && d.reason() == rc.reason(), "c06:Receipt:postcard:eq-exempt-field-differs", "payload / panic contract id / reason lost");
            let d: Receipt = serde_json::from_str(&serde_json::to_string(&rc).unwrap()).map_err(|e| Failure::new("c06:Receipt:json:deserialize-error", e.to_string()))?;
            ensure!(d.data() == rc.data() && d.contract_id() == rc.contract_id() && d.reason() == rc.reason(), "c06:Receipt:json:eq-exempt-field-differs", "payload / panic contract id / reason lost");
            let d: Receipt = bincode::deserialize(&bincode::serialize(&rc).unwrap()).map_err(|e| Failure::new("c06:Receipt:bincode:deserialize-error", e.to_string()))?;
            ensure!(d.data() == rc.data() && d.contract_id() == rc.contract_id() && d.reason() == rc.reason(), "c06:Receipt:bincode:eq-exempt-field-differs", "payload / panic contract id / reason lost");
        }
        Val::Receipts(rs) => {
            obs.class("receipt-list");
            let v: Vec<Receipt> = rs.iter().map(|r| r.build()).collect();
            roundtrip("Vec<Receipt>", &v)?;
        }
        Val::Pol(p) => {
            obs.class("policies");
            check_policies(p, obs)?;
        }
        Val::In(i) => {
            obs.class("input");
            roundtrip("Input", &i.build())?;
        }
        Val::Out(o) => {
            obs.class("output");
            roundtrip("Output", &o.build())?;
        }
    }
    Ok(())
}

/// Reader-based APIs: `bincode::deserialize_from(impl Read)` and `serde_json::from_reader` hand
/// byte strings to the visitor as *transient* slices (`visit_bytes`) instead of borrowed ones.
fn reader_rt<T>(ty: &str, v: &T) -> Check
where
    T: Serialize + DeserializeOwned + PartialEq + std::fmt::Debug,
{
    let b = bincode::serialize(v).map_err(|e| Failure::new(format!("c06:{ty}:bincode:serialize-error"), e.to_string()))?;
    match bincode::deserialize_from::<_, T>(&b[..]) {
        Ok(d) => ensure!(d == *v, format!("c06:{ty}:bincode-reader:value-differs"), "bincode::deserialize_from round trip differs"),
        Err(e) => {
            let m = e.to_string();
            // one key for the one cause, whatever the containing type
            if m.starts_with("invalid type: byte array") {
                return Err(Failure::new("c06:bincode-reader:transient-byte-slice-rejected", format!("{ty}: bincode::deserialize_from(reader) of bincode::serialize(v) failed: {m}")));
            }
            return Err(Failure::new(format!("c06:{ty}:bincode-reader:deserialize-error"), m));
        }
    }
    let s = serde_json::to_vec(v).map_err(|e| Failure::new(format!("c06:{ty}:json:serialize-error"), e.to_string()))?;
    let d: T = serde_json::from_reader(&s[..]).map_err(|e| Failure::new(format!("c06:{ty}:json-reader:deserialize-error"), e.to_string()))?;
    ensure!(d == *v, format!("c06:{ty}:json-reader:value-differs"), "serde_json::from_reader round trip differs");
    Ok(())
}

fn check_reader(v: &Val, obs: &mut Obs) -> Check {
    match v {
        Val::Tx(t) => {
            obs.class("tx");
            reader_rt("Transaction", &t.build())
        }
        Val::Receipt(r) => {
            obs.class("receipt");
            reader_rt("Receipt", &r.build())
        }
        Val::Receipts(rs) => {
            obs.class("receipt-list");
            reader_rt("Vec<Receipt>", &rs.iter().map(|r| r.build()).collect::<Vec<Receipt>>())
        }
        Val::Pol(p) => {
            obs.class("policies");
            reader_rt("Policies", &p.build())
        }
        Val::In(i) => {
            obs.class("input");
            reader_rt("Input", &i.build())
        }
        Val::Out(o) => {
            obs.class("output");
            reader_rt("Output", &o.build())
        }
    }
}

fn sha(b: &[u8]) -> [u8; 32] {
    Sha256::digest(b).into()
}

fn check_cp(c: &CpCase, obs: &mut Obs) -> Check {
    let (params, changed) = build_cp(&c.cp)?;
    {
        let t = template(c.cp.cp_version.clamp(1, 2), c.cp.gas_version.clamp(1, 7), c.cp.script_version.clamp(1, 2));
        obs.note("cp-numeric-leaves", t.widths.len() as u64);
        obs.note("cp-numeric-leaves-width-unprobed", t.widths.values().filter(|w| **w == 0).count() as u64);
        obs.note("cp-numeric-leaves-narrower-than-u64", t.widths.values().filter(|w| **w != 0 && **w < 64).count() as u64);
    }
    obs.class(&format!("cp:V{}", c.cp.cp_version));
    obs.class(&format!("gas:V{}", c.cp.gas_version));
    obs.class(&format!("script-params:V{}", c.cp.script_version));
    if changed >= 10 {
        obs.class("nontrivial");
        obs.nontrivial(&(c.cp.cp_version, c.cp.gas_version, c.cp.script_version, c.cp.dep_kinds & 0xff, c.cp.nums.iter().take(6).map(|x| x.leading_zeros() / 8).collect::<Vec<_>>()));
    }
    // typed values of the same versions (standard limits, all-zero / all-one / default gas table)
    for free in [true, false] {
        let tb = typed_base(c.cp.cp_version.clamp(1, 2), c.cp.gas_version.clamp(1, 7), c.cp.script_version.clamp(1, 2), free);
        roundtrip("ConsensusParameters", &tb)?;
        let gv: &GasCostsValues = tb.gas_costs();
        roundtrip("GasCostsValues", gv)?;
    }
    roundtrip("GasCosts", &GasCosts::default())?;
    // every level round-trips
    roundtrip("ConsensusParameters", &params)?;
    roundtrip("GasCosts", params.gas_costs())?;
    let gv: &GasCostsValues = params.gas_costs();
    roundtrip("GasCostsValues", gv)?;
    roundtrip("FeeParameters", params.fee_params())?;
    roundtrip("TxParameters", params.tx_params())?;
    roundtrip("PredicateParameters", params.predicate_params())?;
    roundtrip("ScriptParameters", params.script_params())?;
    roundtrip("ContractParameters", params.contract_params())?;

    // upgrade checksum chain
    let pol = c.pol.build();
    let ins: Vec<_> = c.inputs.iter().map(|i| i.build()).collect();
    let outs: Vec<_> = c.outputs.iter().map(|o| o.build()).collect();
    let wits: Vec<fuel_tx::Witness> = c.witnesses.iter().map(|w| w.0.clone().into()).collect();
    let nw = wits.len();
    let up = Transaction::upgrade_consensus_parameters(&params, pol, ins, outs, wits).map_err(|e| Failure::new("c06:upgrade:constructor-refused", format!("{e:?}")))?;
    let chain = |tag: &str, up: &fuel_tx::Upgrade| -> Check {
        let UpgradePurpose::ConsensusParameters { witness_index, checksum } = *up.upgrade_purpose() else {
            return Err(Failure::new(format!("c06:upgrade:{tag}:wrong-purpose"), "purpose is not ConsensusParameters"));
        };
        ensure_eq!(witness_index as usize, nw, format!("c06:upgrade:{tag}:witness-index"), "witness index");
        let w = up.witnesses().get(witness_index as usize).ok_or_else(|| Failure::new(format!("c06:upgrade:{tag}:witness-missing"), "no witness at the committed index"))?;
        let wbytes: &[u8] = w.as_ref();
        ensure!(checksum.as_ref() == &sha(wbytes)[..], format!("c06:upgrade:{tag}:purpose-checksum-not-sha256-of-witness"), "purpose checksum != SHA-256(witness)");
        match UpgradeMetadata::compute(up) {
            Ok(UpgradeMetadata::ConsensusParameters { consensus_parameters, calculated_checksum }) => {
                ensure!(*consensus_parameters == params, format!("c06:upgrade:{tag}:parameters-differ"), "parameters recovered from the witness differ from the ones committed");
                ensure!(calculated_checksum == checksum && calculated_checksum.as_ref() == &sha(wbytes)[..], format!("c06:upgrade:{tag}:calculated-checksum-differs"), "calculated checksum != SHA-256(witness) / purpose checksum");
                let re = postcard::to_allocvec(&*consensus_parameters).map_err(|e| Failure::new(format!("c06:upgrade:{tag}:postcard-error"), e.to_string()))?;
                ensure!(re == wbytes, format!("c06:upgrade:{tag}:payload-not-reproducible"), "postcard(params') != witness bytes ({} vs {} bytes)", re.len(), wbytes.len());
                Ok(())
            }
            Ok(_) => Err(Failure::new(format!("c06:upgrade:{tag}:wrong-metadata"), "metadata is not ConsensusParameters")),
            Err(e) => Err(Failure::new(format!("c06:upgrade:{tag}:metadata-refused"), format!("{e:?}"))),
        }
    };
    chain("fresh", &up)?;
    // after a canonical round trip of the transaction
    use fuel_types::canonical::{Deserialize as _, Serialize as _};
    let up2 = fuel_tx::Upgrade::from_bytes(&up.to_bytes()).map_err(|e| Failure::new("c06:upgrade:canonical-decode-error", format!("{e:?}")))?;
    chain("after-canonical", &up2)?;
    // after postcard / json round trips of the transaction
    let tx: Transaction = up.clone().into();
    let p = postcard::to_allocvec(&tx).map_err(|e| Failure::new("c06:upgrade:postcard:serialize-error", e.to_string()))?;
    match postcard::from_bytes::<Transaction>(&p).map_err(|e| Failure::new("c06:upgrade:postcard:deserialize-error", e.to_string()))? {
        Transaction::Upgrade(u) => chain("after-postcard", &u)?,
        _ => return Err(Failure::new("c06:upgrade:postcard:variant-differs", "not an Upgrade after round trip")),
    }
    let s = serde_json::to_string(&tx).map_err(|e| Failure::new("c06:upgrade:json:serialize-error", e.to_string()))?;
    match serde_json::from_str::<Transaction>(&s).map_err(|e| Failure::new("c06:upgrade:json:deserialize-error", e.to_string()))? {
        Transaction::Upgrade(u) => chain("after-json", &u)?,
        _ => return Err(Failure::new("c06:upgrade:json:variant-differs", "not an Upgrade after round trip")),
    }
    Ok(())
}

// ------------------------------------------------------------------ strategies / enumeration

fn val() -> impl Strategy<Value = Val> {
    prop_oneof![
        8 => any_tx().prop_map(Val::Tx),
        4 => receipt_spec().prop_map(Val::Receipt),
        1 => prop::collection::vec(receipt_spec(), 0..12).prop_map(Val::Receipts),
        3 => pol_spec_wide().prop_map(Val::Pol),
        2 => in_spec().prop_map(Val::In),
        1 => out_spec().prop_map(Val::Out),
    ]
}

fn cp_case() -> impl Strategy<Value = CpCase> {
    (
        cp_spec(),
        pol_spec(),
        prop::collection::vec(in_spec(), 0..3),
        prop::collection::vec(out_spec(), 0..3),
        prop::collection::vec(hexbytes(), 0..3),
    )
        .prop_map(|(cp, pol, inputs, outputs, witnesses)| CpCase { cp, pol, inputs, outputs, witnesses })
}

/// all 64 masks x value lattice (every value position takes every lattice word at least once,
/// including 0 and u64::MAX; maturity / expiration within u32)
fn all_masks(shard: usize, nshards: usize, sink: &mut dyn FnMut(Val) -> bool) {
    let mut n = 0usize;
    for mask in 0u8..64 {
        for i in 0..WORDS.len() * 2 {
            let mut p = lpol(mask, i);
            p.vals[5] = lw(i + 9);
            if i >= WORDS.len() {
                // all values equal: catches positional mix-ups only through the layouts; all different above
                let x = lw(i);
                p.vals = [x, x, x.min(u32::MAX as u64), x, x.min(u32::MAX as u64), x];
            }
            if n % nshards == shard && !sink(Val::Pol(p)) {
                return;
            }
            n += 1;
        }
    }
}

/// every (cp version x gas version x script version) with default numbers and with all leaves at max
fn all_versions(shard: usize, nshards: usize, sink: &mut dyn FnMut(CpCase) -> bool) {
    let mut n = 0usize;
    for cp in 1u8..=2 {
        for gas in 1u8..=7 {
            for script in 1u8..=2 {
                for (density, nums, dep) in [(0u8, vec![0u64], 0u64), (255, vec![u64::MAX], u64::MAX), (255, vec![0], 0), (255, vec![1, u32::MAX as u64 + 1, 7, u64::MAX - 1, 255], 0xAAAA_AAAA_AAAA_AAAA)] {
                    let c = CpCase {
                        cp: CpSpec { cp_version: cp, gas_version: gas, script_version: script, nums, density, dep_kinds: dep, ids: [lb32(n), lb32(n + 1)] },
                        pol: lpol((n % 64) as u8, n),
                        inputs: vec![],
                        outputs: vec![],
                        witnesses: (0..n % 3).map(|k| lbytes(k * 5, k)).collect(),
                    };
                    if n % nshards == shard && !sink(c) {
                        return;
                    }
                    n += 1;
                }
            }
        }
    }
}

pub fn property() -> Property {
    Property {
        id: "C06",
        rule: "G-TX transactions (6 kinds, also as concrete types), receipts and receipt lists, inputs, outputs, policies: all 64 masks exhaustively x 24 value points plus random; ConsensusParameters V1/V2 x GasCostsValues V1..V7 x ScriptParameters V1/V2 obtained by serialising the version's default to serde_json::Value, replacing numeric leaves (width probed per leaf; share 'density') by boundary-biased numbers, dependent costs by Light/Heavy variants with units_per_gas >= 1, ids by random 32-byte values, and deserialising; each also wrapped into Transaction::upgrade_consensus_parameters with random policies/inputs/outputs/witnesses. Formats: serde_json (text and Value), postcard, bincode (slice API). Non-trivial = policy mask using Expiration or Owner, or parameters with >= 10 non-default leaves; distinct by mask/version/magnitude signature".into(),
        assumptions: vec![
            "sha2 crate is correct".into(),
            "postcard / bincode / serde_json themselves are correct; the Policies layouts are restated independently (LEB128 varints / little-endian words)".into(),
            "widths of numeric consensus-parameter leaves are probed with the deserialiser under test (generation aid only)".into(),
            "bincode is exercised through bincode::serialize / bincode::deserialize(&[u8]) with default options; part reader-apis additionally uses bincode::deserialize_from(&[u8] as io::Read) and serde_json::from_reader".into(),
        ],
        parts: vec![
            enum_part("policies-all-masks", "all 64 masks x 24 value points, round trip + independent layout statement", true, |_c: &Ctx, s, n, sink: &mut dyn FnMut(Val) -> bool| all_masks(s, n, sink), check_val),
            enum_part("param-versions", "2 x 7 x 2 versions x {default, all-max, all-zero, mixed}", true, |_c: &Ctx, s, n, sink: &mut dyn FnMut(CpCase) -> bool| all_versions(s, n, sink), check_cp),
            gen_part("values", "random transactions / receipts / policies / inputs / outputs", (200_000, 10_000_000), |_c: &Ctx| val(), check_val),
            gen_part("reader-apis", "same values through bincode::deserialize_from(reader) and serde_json::from_reader", (40_000, 400_000), |_c: &Ctx| val(), check_reader),
            gen_part("consensus-params", "random consensus parameters + upgrade checksum chain", (30_000, 2_000_000), |_c: &Ctx| cp_case(), check_cp),
        ],
        floors: vec![("values", "nontrivial", 0.20), ("consensus-params", "nontrivial", 0.40)],
    }
}
