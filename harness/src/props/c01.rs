//! C01 — Canonical encoding round-trips and reports its own size.
//!
//! Oracle (DESIGN.md §3 C01), for every protocol type with a canonical codec:
//!  (1) `b = to_bytes()` is word aligned, `b.len() == size() == size_static() + size_dynamic()`,
//!      `encode_static` / `encode_dynamic` into fresh vectors have exactly those lengths and are
//!      the prefix / suffix of `b`;
//!  (2) `decode(b)` succeeds and consumes everything; `decode(b ++ junk)` consumes exactly `b.len()`;
//!  (3) the decoded value equals the original (library `Eq`, plus a serde_json structural
//!      comparison where the type has serde), and the fields the format leaves out are the
//!      documented defaults (receipt payload `None`, panic contract id `None`, panic reason
//!      default, cached metadata `None`);
//!  (4) re-encoding the decoded value gives the same bytes;
//!  (5) encoding into a too-short `&mut [u8]` is `Err(BufferIsTooShort)` (no panic), into an exact
//!      one succeeds and fills it; decoding any proper prefix of `b` is an error (no panic).
use crate::engine::*;
use crate::gens::tx::*;
use crate::gens::tx_extra::*;
use crate::gens::{pick, small_bytes};
use crate::{ensure, ensure_eq};
use fuel_tx::{Cacheable, Input, Output, PanicInstruction, Receipt, ScriptExecutionResult, StorageSlot, Transaction, UpgradePurpose, Witness};
use fuel_types::canonical::{Deserialize as CDe, Error as CErr, Serialize as CSer};
use proptest::prelude::*;
use serde::{Deserialize, Serialize};
use sha2::{Digest, Sha256};

#[derive(Debug, Clone, Serialize, Deserialize)]
pub enum Val {
    Tx { tx: AnyTx, precompute: bool },
    In(InSpec),
    Out(OutSpec),
    Wit(HexBytes),
    Pol(PolSpec),
    Slot(B32, B32),
    Utxo(UtxoSpec),
    Txp(TxpSpec),
    Receipt(ReceiptSpec),
    Purpose(PurposeSpec),
    /// through `ScriptExecutionResult::from(word)`
    ScriptResult(u64),
    /// `ScriptExecutionResult::GenericFailure(word)` constructed directly (incl. 0..=2)
    ScriptResultGeneric(u64),
    PanicInstr { reason: u8, instr: u32 },
    Contract(HexBytes),
}

#[derive(Debug, Clone, Serialize, Deserialize)]
pub struct Case {
    pub val: Val,
    /// bytes appended after the encoding: must not be consumed
    pub junk: HexBytes,
    /// selector of one more cut position for the short-buffer checks
    pub cut: u16,
}

fn sha(b: &[u8]) -> [u8; 32] {
    Sha256::digest(b).into()
}

/// the generic part of the oracle; returns (bytes, decoded value)
fn codec<T>(ty: &str, v: &T, case: &Case) -> Result<(Vec<u8>, T), Failure>
where
    T: CSer + CDe + PartialEq + std::fmt::Debug,
{
    // (1) sizes
    let b = v.to_bytes();
    ensure!(b.len() % 8 == 0, format!("c01:{ty}:unaligned-length"), "encoded length {} is not word aligned", b.len());
    ensure_eq!(b.len(), v.size(), format!("c01:{ty}:size-differs-from-encoding"), "to_bytes().len() vs size()");
    ensure_eq!(v.size(), v.size_static() + v.size_dynamic(), format!("c01:{ty}:size-not-static-plus-dynamic"), "size() vs size_static()+size_dynamic()");
    let mut st = Vec::new();
    v.encode_static(&mut st).map_err(|e| Failure::new(format!("c01:{ty}:encode-static-error"), format!("{e:?}")))?;
    ensure_eq!(st.len(), v.size_static(), format!("c01:{ty}:size-static-differs"), "encode_static length vs size_static()");
    let mut dy = Vec::new();
    v.encode_dynamic(&mut dy).map_err(|e| Failure::new(format!("c01:{ty}:encode-dynamic-error"), format!("{e:?}")))?;
    ensure_eq!(dy.len(), v.size_dynamic(), format!("c01:{ty}:size-dynamic-differs"), "encode_dynamic length vs size_dynamic()");
    ensure!(b.starts_with(&st) && b.ends_with(&dy) && st.len() + dy.len() == b.len(), format!("c01:{ty}:static-dynamic-not-concatenated"), "to_bytes() != encode_static ++ encode_dynamic");

    // (2) exact consumption
    let mut s = &b[..];
    let d = match T::decode(&mut s) {
        Ok(d) => d,
        Err(e) => return Err(Failure::new(format!("c01:{ty}:decode-error"), format!("decode of own encoding failed: {e:?}"))),
    };
    ensure_eq!(s.len(), 0, format!("c01:{ty}:decode-leaves-bytes"), "bytes left after decoding own encoding of {} bytes", b.len());
    let fb = T::from_bytes(&b).map_err(|e| Failure::new(format!("c01:{ty}:from-bytes-error"), format!("{e:?}")))?;
    ensure!(fb == d, format!("c01:{ty}:from-bytes-differs"), "from_bytes != decode");
    let mut bj = b.clone();
    bj.extend_from_slice(&case.junk.0);
    let mut s = &bj[..];
    match T::decode(&mut s) {
        Ok(dj) => {
            ensure_eq!(bj.len() - s.len(), b.len(), format!("c01:{ty}:trailing-bytes-consumed"), "consumed vs own length with {} trailing bytes", case.junk.0.len());
            ensure!(dj == d, format!("c01:{ty}:trailing-bytes-change-value"), "value decoded with trailing bytes differs");
        }
        Err(e) => return Err(Failure::new(format!("c01:{ty}:decode-error-with-trailing-bytes"), format!("{e:?}"))),
    }

    // (4) byte identity of the re-encoding
    let b2 = d.to_bytes();
    ensure!(b2 == b, format!("c01:{ty}:reencode-differs"), "re-encoding differs: {} vs {} bytes, first difference at {:?}", b2.len(), b.len(), b.iter().zip(b2.iter()).position(|(x, y)| x != y));

    // (5) short buffers
    let n = b.len();
    let mut cuts = vec![0usize, 1, 7, 8, n.saturating_sub(1), n.saturating_sub(7), n.saturating_sub(8), st.len().saturating_sub(1), st.len()];
    if n > 0 {
        cuts.push(pick(case.cut, n));
    }
    cuts.sort();
    cuts.dedup();
    for &c in cuts.iter().filter(|&&c| c < n) {
        let mut buf = vec![0xA5u8; c];
        let r = v.encode(&mut &mut buf[..]);
        ensure!(r == Err(CErr::BufferIsTooShort), format!("c01:{ty}:short-buffer-encode-not-rejected"), "encode into {c} of {n} bytes returned {r:?}");
        let r = T::decode(&mut &b[..c]);
        ensure!(r.is_err(), format!("c01:{ty}:truncated-decode-accepted"), "decode of the first {c} of {n} bytes succeeded");
    }
    let mut buf = vec![0xA5u8; n + 8];
    {
        let mut out = &mut buf[..];
        let r = v.encode(&mut out);
        ensure!(r.is_ok(), format!("c01:{ty}:exact-buffer-encode-rejected"), "encode into a sufficient buffer failed: {r:?}");
        ensure_eq!(out.len(), 8, format!("c01:{ty}:slice-encode-length"), "bytes left in an (n+8)-byte slice");
    }
    ensure!(buf[..n] == b[..] && buf[n..] == [0xA5u8; 8], format!("c01:{ty}:slice-encode-differs"), "encoding into a slice differs from to_bytes()");
    Ok((b, d))
}

/// first difference of two Debug renderings (the values are long)
fn diff_dbg<T: std::fmt::Debug>(a: &T, b: &T) -> String {
    let (x, y) = (format!("{a:?}"), format!("{b:?}"));
    let at = x.bytes().zip(y.bytes()).position(|(p, q)| p != q).unwrap_or(x.len().min(y.len()));
    let lo = at.saturating_sub(60);
    let f = |s: &str| s.get(lo..(at + 40).min(s.len())).unwrap_or("").to_string();
    format!("first difference at debug offset {at}: decoded ...{}... original ...{}...", f(&x), f(&y))
}

fn same_json<T: Serialize>(ty: &str, a: &T, b: &T) -> Check {
    let (ja, jb) = (serde_json::to_value(a), serde_json::to_value(b));
    match (ja, jb) {
        (Ok(x), Ok(y)) => {
            ensure!(x == y, format!("c01:{ty}:decoded-differs-structurally"), "serde_json view of decoded value differs from the original");
            Ok(())
        }
        _ => Ok(()),
    }
}

fn eq_full<T>(ty: &str, v: &T, case: &Case) -> Result<(Vec<u8>, T), Failure>
where
    T: CSer + CDe + PartialEq + std::fmt::Debug,
{
    let (b, d) = codec(ty, v, case)?;
    ensure!(d == *v, format!("c01:{ty}:decoded-differs"), "decoded != original; {}", diff_dbg(&d, v));
    Ok((b, d))
}

/// generator-health differential: the harness' own statement of the wire format must agree with
/// the encoder, otherwise C02's aimed mutations would be mis-aimed. A disagreement is a harness
/// problem (exit 2), not a C01 violation: it is raised only after every C01 check has passed.
fn refcmp(obs: &mut Obs, l: Layout, b: &[u8]) -> Check {
    if l.bytes == b {
        obs.class("ref-layout-ok");
        Ok(())
    } else {
        let at = l.bytes.iter().zip(b.iter()).position(|(x, y)| x != y);
        Err(Failure::new("harness-ref-layout-mismatch", format!("reference layout ({} bytes) differs from the encoder ({} bytes), first difference at {:?}", l.bytes.len(), b.len(), at)))
    }
}

fn lenclass(sig: &mut Vec<u8>, nt: &mut bool, n: usize) {
    sig.push((n % 8) as u8);
    if n % 8 != 0 {
        *nt = true;
    }
}

fn check(case: &Case, obs: &mut Obs) -> Check {
    let mut nt = false;
    let mut sig: Vec<u8> = vec![];
    match &case.val {
        Val::Tx { tx, precompute } => {
            let mut t = tx.build();
            if *precompute {
                // metadata must be transparent for the codec; precompute may legitimately refuse
                let mut t2 = t.clone();
                match catch_panic(move || t2.precompute(&Default::default()).map(|_| t2)) {
                    Ok(Ok(t2)) => {
                        t = t2;
                        obs.class("tx-with-metadata");
                    }
                    Ok(Err(_)) => obs.note("precompute-refused", 1),
                    Err(_) => obs.note("precompute-panicked(not C01)", 1),
                }
            }
            let kind = tx.kind();
            obs.class(["tx:script", "tx:create", "tx:mint", "tx:upgrade", "tx:upload", "tx:blob"][kind as usize]);
            let (b, d) = eq_full("Transaction", &t, case)?;
            same_json("Transaction", &t, &d)?;
            ensure!(!d.is_computed(), "c01:Transaction:metadata-not-default", "decoded transaction carries cached metadata");
            refcmp(obs, Layout::of_any_tx(tx), &b)?;
            // the concrete type behind the variant
            macro_rules! concrete {
                ($name:literal, $x:expr) => {{
                    let (b2, d2) = eq_full($name, $x, case)?;
                    ensure!(b2 == b, concat!("c01:", $name, ":differs-from-Transaction-encoding"), "concrete type encodes differently from the enum");
                    ensure!(!d2.is_computed(), concat!("c01:", $name, ":metadata-not-default"), "decoded value carries cached metadata");
                }};
            }
            match &t {
                Transaction::Script(x) => concrete!("Script", x),
                Transaction::Create(x) => concrete!("Create", x),
                Transaction::Mint(x) => concrete!("Mint", x),
                Transaction::Upgrade(x) => concrete!("Upgrade", x),
                Transaction::Upload(x) => concrete!("Upload", x),
                Transaction::Blob(x) => concrete!("Blob", x),
            }
            match tx {
                AnyTx::Charge(ts) => {
                    sig = layout_sig(ts);
                    sig.insert(0, 0);
                    let kinds: std::collections::BTreeSet<u8> = ts.inputs.iter().map(|i| i.kind()).collect();
                    nt = ts.pol.mask.count_ones() >= 2 || kinds.len() >= 2;
                    // any byte vector with len % 8 != 0
                    let mut odd = false;
                    if let BodySpec::Script { script, data, .. } = &ts.body {
                        odd |= script.0.len() % 8 != 0 || data.0.len() % 8 != 0;
                    }
                    odd |= ts.witnesses.iter().any(|w| w.0.len() % 8 != 0);
                    for i in &ts.inputs {
                        let l = Layout::of_input(i);
                        odd |= l.marks.iter().any(|m| m.kind == MarkKind::Pad);
                    }
                    nt |= odd;
                    if ts.pol.mask.count_ones() >= 2 {
                        obs.class("tx:>=2-policies");
                    }
                    if kinds.len() >= 2 {
                        obs.class("tx:>=2-input-kinds");
                    }
                    if odd {
                        obs.class("tx:unaligned-vector");
                    }
                }
                AnyTx::Mint(_) => sig = vec![0, 2],
            }
        }
        Val::In(i) => {
            let v: Input = i.build();
            obs.class(["in:coin-signed", "in:coin-predicate", "in:contract", "in:msg-coin-signed", "in:msg-coin-predicate", "in:msg-data-signed", "in:msg-data-predicate"][i.kind() as usize]);
            let (b, d) = eq_full("Input", &v, case)?;
            same_json("Input", &v, &d)?;
            let l = Layout::of_input(i);
            sig = vec![1, i.kind()];
            for m in l.marks_of(MarkKind::Len) {
                let n = u64::from_be_bytes(l.bytes[m.off..m.off + 8].try_into().unwrap()) as usize;
                lenclass(&mut sig, &mut nt, n);
            }
            refcmp(obs, l, &b)?;
        }
        Val::Out(o) => {
            let v: Output = o.build();
            obs.class(["out:coin", "out:contract", "out:change", "out:variable", "out:contract-created"][o.kind() as usize]);
            let (b, d) = eq_full("Output", &v, case)?;
            same_json("Output", &v, &d)?;
            refcmp(obs, Layout::of_output(o), &b)?;
            sig = vec![2, o.kind()];
        }
        Val::Wit(w) => {
            let v = Witness::from(w.0.clone());
            obs.class("witness");
            let (b, d) = eq_full("Witness", &v, case)?;
            ensure!(d.as_vec() == &w.0, "c01:Witness:payload-differs", "witness payload differs");
            refcmp(obs, Layout::of_witness(w), &b)?;
            sig = vec![3];
            lenclass(&mut sig, &mut nt, w.0.len());
        }
        Val::Pol(p) => {
            let v = p.build();
            obs.class("policies");
            let (b, d) = eq_full("Policies", &v, case)?;
            same_json("Policies", &v, &d)?;
            ensure_eq!(d.bits(), (p.mask & 63) as u32, "c01:Policies:bits-differ", "mask");
            ensure_eq!(b.len(), 8 + 8 * (p.mask & 63).count_ones() as usize, "c01:Policies:length-not-8-per-set-bit", "encoded length for mask {:#x}", p.mask);
            refcmp(obs, Layout::of_policies(p), &b)?;
            sig = vec![4, p.mask];
            nt = p.mask.count_ones() >= 2;
        }
        Val::Slot(k, v) => {
            let s = StorageSlot::new((*k).into(), (*v).into());
            obs.class("storage-slot");
            let (b, _) = eq_full("StorageSlot", &s, case)?;
            ensure!(b[..32] == k.0 && b[32..] == v.0 && b.len() == 64, "c01:StorageSlot:not-key-then-value", "slot encoding is not key ++ value");
            sig = vec![5];
        }
        Val::Utxo(u) => {
            obs.class("utxo-id");
            let v = u.build();
            let (_, d) = eq_full("UtxoId", &v, case)?;
            ensure!(d.output_index() == u.1 && d.tx_id().as_ref() == &u.0 .0[..], "c01:UtxoId:fields-differ", "decoded utxo id fields differ");
            sig = vec![6];
        }
        Val::Txp(t) => {
            obs.class("tx-pointer");
            let v = t.build();
            let (_, d) = eq_full("TxPointer", &v, case)?;
            ensure!(u32::from(d.block_height()) == t.0 && d.tx_index() == t.1, "c01:TxPointer:fields-differ", "decoded tx pointer fields differ");
            sig = vec![7];
        }
        Val::Receipt(r) => {
            let v: Receipt = r.build();
            obs.class(
                ["rc:call", "rc:return", "rc:return-data", "rc:panic", "rc:revert", "rc:log", "rc:log-data", "rc:transfer", "rc:transfer-out", "rc:script-result", "rc:message-out", "rc:mint", "rc:burn"][r.kind() as usize],
            );
            let (b, d) = codec("Receipt", &v, case)?;
            // expected: the original with the exempt fields at their defaults
            let mut norm = r.clone();
            if let ReceiptSpec::Panic { reason, contract, .. } = &mut norm {
                *reason = 0;
                *contract = None;
            }
            let want = norm.build();
            ensure!(d == want, "c01:Receipt:decoded-differs", "decoded != original-with-exempt-fields-defaulted; {}", diff_dbg(&d, &want));
            ensure!(d.data().is_none(), "c01:Receipt:payload-not-default", "decoded receipt carries payload bytes");
            ensure!(d.contract_id().is_none(), "c01:Receipt:panic-contract-id-not-default", "decoded panic receipt carries a contract id");
            if let Some(pi) = d.reason() {
                ensure!(*pi.reason() == fuel_asm::PanicReason::default(), "c01:Receipt:panic-reason-not-default", "decoded panic reason {:?}", pi.reason());
            }
            // non-exempt fields that Eq might not look at: explicit comparison
            ensure!(d.len() == v.len() && d.digest() == v.digest() && d.id() == v.id() && d.pc() == v.pc() && d.is() == v.is(), "c01:Receipt:fields-differ", "len/digest/id/pc/is differ");
            if let ReceiptSpec::Panic { instr, .. } = r {
                ensure!(d.reason().map(|p| *p.instruction()) == Some(*instr), "c01:Receipt:panic-instruction-differs", "panic instruction differs");
            }
            refcmp(obs, Layout::of_receipt(r, &sha), &b)?;
            sig = vec![8, r.kind()];
            match r {
                ReceiptSpec::ReturnData { data, .. } | ReceiptSpec::LogData { data, .. } | ReceiptSpec::MessageOut { data, .. } => lenclass(&mut sig, &mut nt, data.0.len()),
                _ => {}
            }
        }
        Val::Purpose(p) => {
            obs.class("upgrade-purpose");
            let v: UpgradePurpose = p.build();
            eq_full("UpgradePurpose", &v, case)?;
            sig = vec![9, matches!(p, PurposeSpec::Consensus { .. }) as u8];
        }
        Val::ScriptResult(w) => {
            obs.class("script-result");
            let v = ScriptExecutionResult::from(*w);
            let (_, d) = eq_full("ScriptExecutionResult", &v, case)?;
            ensure_eq!(u64::from(d), *w, "c01:ScriptExecutionResult:word-differs", "word of decoded result");
            sig = vec![10, (*w).min(3) as u8];
        }
        Val::ScriptResultGeneric(w) => {
            obs.class("script-result");
            let v = ScriptExecutionResult::GenericFailure(*w);
            eq_full("ScriptExecutionResult", &v, case)?;
            sig = vec![10, 4];
        }
        Val::PanicInstr { reason, instr } => {
            obs.class("panic-instruction");
            let v = PanicInstruction::error(fuel_asm::PanicReason::from(*reason), *instr);
            let (b, d) = codec("PanicInstruction", &v, case)?;
            ensure_eq!(b.len(), 8, "c01:PanicInstruction:length", "encoded length");
            ensure!(*d.instruction() == *instr, "c01:PanicInstruction:instruction-differs", "instruction differs");
            ensure!(*d.reason() == fuel_asm::PanicReason::default(), "c01:PanicInstruction:reason-not-default", "decoded reason {:?}", d.reason());
            sig = vec![11];
        }
        Val::Contract(c) => {
            obs.class("contract");
            let v = fuel_tx::Contract::from(c.0.clone());
            let (b, d) = eq_full("Contract", &v, case)?;
            ensure!(d.as_ref() == &c.0[..], "c01:Contract:code-differs", "contract code differs");
            refcmp(obs, Layout::of_witness(c), &b)?;
            sig = vec![12];
            lenclass(&mut sig, &mut nt, c.0.len());
        }
    }
    if nt {
        obs.class("nontrivial");
        obs.nontrivial(&sig);
    }
    Ok(())
}

fn val() -> impl Strategy<Value = Val> {
    prop_oneof![
        10 => (any_tx(), prop::bool::weighted(0.25)).prop_map(|(tx, precompute)| Val::Tx { tx, precompute }),
        5 => in_spec().prop_map(Val::In),
        2 => out_spec().prop_map(Val::Out),
        2 => hexbytes().prop_map(Val::Wit),
        2 => pol_spec_wide().prop_map(Val::Pol),
        1 => (b32(), b32()).prop_map(|(a, b)| Val::Slot(a, b)),
        1 => utxo_spec().prop_map(Val::Utxo),
        1 => txp_spec().prop_map(Val::Txp),
        5 => receipt_spec().prop_map(Val::Receipt),
        1 => prop_oneof![
            (any::<u16>(), b32()).prop_map(|(wit, checksum)| PurposeSpec::Consensus { wit, checksum }),
            b32().prop_map(|root| PurposeSpec::StateTransition { root })
        ]
        .prop_map(Val::Purpose),
        1 => prop_oneof![0u64..5, crate::gens::word()].prop_map(Val::ScriptResult),
        1 => prop_oneof![0u64..5, crate::gens::word()].prop_map(Val::ScriptResultGeneric),
        1 => (any::<u8>(), any::<u32>()).prop_map(|(reason, instr)| Val::PanicInstr { reason, instr }),
        1 => hexbytes().prop_map(Val::Contract),
    ]
}

fn long_case() -> impl Strategy<Value = Case> {
    (tx_spec(), 0u8..5, prop::sample::select(vec![255usize, 256, 257, 1023, 1024, 1025, 1026, 2049, 5000]), any::<u16>()).prop_map(|(mut t, which, n, cut)| {
        match which {
            0 => {
                let mut k = 0u16;
                while t.inputs.len() < n {
                    k = k.wrapping_add(1);
                    let mut id = [0x5a; 32];
                    id[0] = (k >> 8) as u8;
                    id[1] = k as u8;
                    t.inputs.push(InSpec::CoinSigned { utxo: UtxoSpec(B32(id), k), owner: B32([3; 32]), amount: k as u64, asset: B32([0; 32]), txp: TxpSpec(0, 0), wit: 0 });
                }
            }
            1 => {
                while t.outputs.len() < n {
                    let k = t.outputs.len() as u64;
                    t.outputs.push(OutSpec::Coin { to: B32([4; 32]), amount: k, asset: B32([0; 32]) });
                }
            }
            2 => {
                while t.witnesses.len() < n {
                    let k = t.witnesses.len() as u8;
                    t.witnesses.push(HexBytes(vec![k]));
                }
            }
            _ => match &mut t.body {
                BodySpec::Create { slots, .. } => {
                    let mut k = 0u16;
                    while slots.len() < n {
                        k += 1;
                        let mut key = [0u8; 32];
                        key[30] = (k >> 8) as u8;
                        key[31] = k as u8;
                        slots.push((B32(key), B32([k as u8; 32])));
                    }
                    slots.sort();
                    slots.dedup_by(|a, b| a.0 == b.0);
                }
                BodySpec::Upload { proof, .. } => {
                    while proof.len() < n {
                        let k = proof.len() as u8;
                        proof.push(B32([k; 32]));
                    }
                }
                _ => {
                    while t.witnesses.len() < n {
                        let k = t.witnesses.len() as u8;
                        t.witnesses.push(HexBytes(vec![k, 1]));
                    }
                }
            },
        }
        Case { val: Val::Tx { tx: AnyTx::Charge(t), precompute: false }, junk: HexBytes(vec![1, 2, 3]), cut }
    })
}

fn case() -> impl Strategy<Value = Case> {
    (val(), small_bytes().prop_map(HexBytes), any::<u16>()).prop_map(|(val, junk, cut)| Case { val, junk, cut })
}

fn lattice(shard: usize, nshards: usize, sink: &mut dyn FnMut(Case) -> bool) {
    let mut n = 0usize;
    let mut go = true;
    let mut emit = |val: Val| -> bool {
        let i = n;
        n += 1;
        if !go {
            return false;
        }
        if i % nshards == shard {
            let junk = HexBytes(match i % 4 {
                0 => vec![],
                1 => vec![0xff],
                2 => vec![0; 8],
                _ => (0..13).map(|k| (k * 29 + i) as u8).collect(),
            });
            go = sink(Case { val, junk, cut: (i as u16).wrapping_mul(40503) });
        }
        go
    };
    lattice_txs(|t| emit(Val::Tx { tx: t.clone(), precompute: false }) && emit(Val::Tx { tx: t, precompute: true }));
    lattice_inputs(|i| emit(Val::In(i)));
    lattice_outputs(|o| emit(Val::Out(o)));
    lattice_receipts(|r| emit(Val::Receipt(r)));
    for mask in 0u8..64 {
        for i in 0..12 {
            // owner (index 5) over the whole u64 range, maturity / expiration <= u32::MAX
            let mut p = lpol(mask, i);
            p.vals[5] = lw(i + 9);
            emit(Val::Pol(p));
        }
    }
    for n in 0..=40usize {
        emit(Val::Wit(lbytes(n, n)));
        emit(Val::Contract(lbytes(n, n + 1)));
    }
    for i in 0..12 {
        emit(Val::Slot(lb32(i), lb32(i + 1)));
        emit(Val::Utxo(UtxoSpec(lb32(i), [0u16, 1, 255, 256, u16::MAX][i % 5])));
        emit(Val::Txp(TxpSpec([0u32, 1, u32::MAX - 1, u32::MAX][i % 4], [0u16, 1, u16::MAX][i % 3])));
        emit(Val::Purpose(PurposeSpec::Consensus { wit: [0u16, 1, u16::MAX][i % 3], checksum: lb32(i) }));
        emit(Val::Purpose(PurposeSpec::StateTransition { root: lb32(i) }));
        emit(Val::ScriptResult(lw(i)));
        emit(Val::ScriptResult(i as u64));
        emit(Val::ScriptResultGeneric(lw(i)));
        emit(Val::PanicInstr { reason: [0u8, 1, 2, 0x2a, 0xff, 0x80][i % 6], instr: [0u32, 1, u32::MAX, 0x7200_0020][i % 4] });
    }
}

pub fn property() -> Property {
    Property {
        id: "C01",
        rule: "values of every protocol type with a canonical codec built from G-TX specs through public constructors (aliasing restriction: predicate / message-data variants non-empty; maturity, expiration <= u32::MAX). Lattice part: every tx kind x all 64 policy masks x length class mod 8 (with and without cached metadata), every input kind x length class mod 8 of each of its byte vectors x 3 magnitudes, every output kind, every receipt kind x payload length class, all 64 masks x 12 value points, witness/contract lengths 0..=40, scalar types at boundary values. Random part on top. Non-trivial = value with a byte vector whose length is not a multiple of 8, or >= 2 policies, or >= 2 inputs of different kinds; distinct by (type, variant path, policy mask, length classes mod 8)".into(),
        assumptions: vec![
            "sha2 crate is correct (receipt digests in the reference layout)".into(),
            "gens::tx_extra::Layout is an independent re-statement of the wire format; it is used only as a generator-health differential: a disagreement with the encoder makes the run inconclusive (exit 2), never a violation".into(),
            "Transaction::precompute is only used to obtain a value with cached metadata; its refusals are not judged here".into(),
        ],
        parts: vec![
            enum_part("lattice", "variant x policy mask x length-class-mod-8 lattice, see rule", true, |_c: &Ctx, shard, nshards, sink: &mut dyn FnMut(Case) -> bool| lattice(shard, nshards, sink), check),
            gen_part("long-vectors", "a transaction with one element vector (inputs, outputs, witnesses, storage slots, proof set) of 255..=5000 elements", (400, 8_000), |_c: &Ctx| long_case(), |c: &Case, obs: &mut Obs| { obs.class("long-vector"); check(c, obs) }),
            gen_part("random", "random G-TX values of all listed types with junk suffix and cut selector", (1_500_000, 40_000_000), |_c: &Ctx| case(), check),
        ],
        floors: vec![("random", "nontrivial", 0.30), ("random", "ref-layout-ok", 0.60)],
    }
}
