//! C21 — Register arithmetic and logic instructions follow the specification.
//!
//! One instruction is executed with `Interpreter::instruction` on an initialised script VM
//! (`vmfix`), with `$flag`, `$of`, `$err` and the operand registers planted through
//! `registers_mut()`. The expected destination value, `$of`, `$err` or panic reason comes from
//! `model::alu` (exact integer arithmetic); the instruction word is built with `model::isa`
//! arithmetic. On success `$pc` advances by 4 and every other non-gas register is unchanged; a
//! reserved destination gives ReservedRegisterNotWritable with every non-gas register unchanged.
use crate::engine::*;
use crate::gens;
use crate::model::alu::{self, Op, Panic as MPanic};
use crate::model::isa::{self, Fields, Shape};
use crate::vmfix::{self, is_gas_reg, RegFile, StepError, NREGS};
use crate::{ensure, ensure_eq, fail};
use fuel_asm::PanicReason;
use fuel_vm::state::ExecuteState;
use proptest::prelude::*;
use serde::{Deserialize, Serialize};
use std::sync::OnceLock;

const R_OF: usize = 0x02;
const R_PC: usize = 0x03;
const R_ERR: usize = 0x08;
const R_FLAG: usize = 0x0F;
const WRITABLE: u8 = 0x10;

#[derive(Clone, Copy, Debug, PartialEq, Eq)]
enum Kind {
    /// rA = f(rB, rC)
    Rrr(Op),
    /// rA = f(rB)
    Rr(Op),
    /// rA = f(rB, rC, rD)
    Rrrr(Op),
    /// rA = f(rB, imm12)
    Rri(Op),
    /// rA = imm18
    Ri,
    /// rA = niop(rB, rC, imm6)
    Niop,
    Noop,
}

struct Spec {
    name: &'static str,
    byte: u8,
    shape: Shape,
    kind: Kind,
}

const OP_NAMES: &[(&str, Kind)] = &[
    ("ADD", Kind::Rrr(Op::Add)),
    ("SUB", Kind::Rrr(Op::Sub)),
    ("MUL", Kind::Rrr(Op::Mul)),
    ("DIV", Kind::Rrr(Op::Div)),
    ("MOD", Kind::Rrr(Op::Mod)),
    ("EXP", Kind::Rrr(Op::Exp)),
    ("MLOG", Kind::Rrr(Op::Mlog)),
    ("MROO", Kind::Rrr(Op::Mroo)),
    ("AND", Kind::Rrr(Op::And)),
    ("OR", Kind::Rrr(Op::Or)),
    ("XOR", Kind::Rrr(Op::Xor)),
    ("SLL", Kind::Rrr(Op::Sll)),
    ("SRL", Kind::Rrr(Op::Srl)),
    ("EQ", Kind::Rrr(Op::Eq)),
    ("GT", Kind::Rrr(Op::Gt)),
    ("LT", Kind::Rrr(Op::Lt)),
    ("NOT", Kind::Rr(Op::Not)),
    ("MOVE", Kind::Rr(Op::Mov)),
    ("MLDV", Kind::Rrrr(Op::Mldv)),
    ("ADDI", Kind::Rri(Op::Add)),
    ("SUBI", Kind::Rri(Op::Sub)),
    ("MULI", Kind::Rri(Op::Mul)),
    ("DIVI", Kind::Rri(Op::Div)),
    ("MODI", Kind::Rri(Op::Mod)),
    ("EXPI", Kind::Rri(Op::Exp)),
    ("ANDI", Kind::Rri(Op::And)),
    ("ORI", Kind::Rri(Op::Or)),
    ("XORI", Kind::Rri(Op::Xor)),
    ("SLLI", Kind::Rri(Op::Sll)),
    ("SRLI", Kind::Rri(Op::Srl)),
    ("MOVI", Kind::Ri),
    ("NIOP", Kind::Niop),
    ("NOOP", Kind::Noop),
];

fn specs() -> &'static Vec<Spec> {
    static S: OnceLock<Vec<Spec>> = OnceLock::new();
    S.get_or_init(|| {
        let snap = isa::snapshot();
        OP_NAMES
            .iter()
            .map(|(name, kind)| {
                let o = snap.iter().find(|o| o.name == *name).expect("ALU mnemonic in the ISA snapshot");
                let want = match kind {
                    Kind::Rrr(_) => Shape::RRR,
                    Kind::Rr(_) => Shape::RR,
                    Kind::Rrrr(_) => Shape::RRRR,
                    Kind::Rri(_) => Shape::RRI12,
                    Kind::Ri => Shape::RI18,
                    Kind::Niop => Shape::RRRI6,
                    Kind::Noop => Shape::N,
                };
                assert_eq!(o.shape, want, "shape of {name}");
                Spec { name, byte: o.byte, shape: o.shape, kind: *kind }
            })
            .collect()
    })
}

fn spec_by_name(name: &str) -> &'static Spec {
    specs().iter().find(|s| s.name == name).expect("known ALU mnemonic")
}

/// A single-instruction experiment (plain data).
#[derive(Debug, Clone, Serialize, Deserialize, PartialEq, Eq)]
pub struct AluCase {
    /// opcode byte
    pub op: u8,
    pub ra: u8,
    pub rb: u8,
    pub rc: u8,
    pub rd: u8,
    pub imm: u32,
    /// values planted into rA..rD (only into writable registers, in this order; later wins)
    pub va: u64,
    pub vb: u64,
    pub vc: u64,
    pub vd: u64,
    pub flag: u8,
    pub of: u64,
    pub err: u64,
}

const NIOP_OPS: [&str; 6] = ["ADD", "SUB", "MUL", "EXP", "SLL", "XNOR"];

fn op_label(s: &Spec, imm: u32) -> String {
    if s.kind == Kind::Niop {
        let sel = (imm & 0xF) as usize;
        match NIOP_OPS.get(sel) {
            Some(n) => format!("NIOP.{n}"),
            None => "NIOP.invalid".into(),
        }
    } else {
        s.name.to_string()
    }
}

fn reason_of(p: MPanic) -> PanicReason {
    match p {
        MPanic::ArithmeticOverflow => PanicReason::ArithmeticOverflow,
        MPanic::ArithmeticError => PanicReason::ArithmeticError,
        MPanic::InvalidImmediateValue => PanicReason::InvalidImmediateValue,
    }
}

fn bitlen(x: u64) -> u8 {
    (64 - x.leading_zeros()) as u8
}

fn check_alu(c: &AluCase, obs: &mut Obs) -> Check {
    let Some(s) = specs().iter().find(|s| s.byte == c.op) else { fail!("harness-alu-case", "opcode byte {:#04x} is not an ALU instruction", c.op) };
    ensure!(c.ra < 64 && c.rb < 64 && c.rc < 64 && c.rd < 64 && c.flag < 4, "harness-alu-case", "register id / flag out of range");
    let shape = s.shape;
    let fields = match s.kind {
        Kind::Rrr(_) => Fields::of(&[c.ra as u32, c.rb as u32, c.rc as u32]),
        Kind::Rr(_) => Fields::of(&[c.ra as u32, c.rb as u32]),
        Kind::Rrrr(_) => Fields::of(&[c.ra as u32, c.rb as u32, c.rc as u32, c.rd as u32]),
        Kind::Rri(_) => Fields::of(&[c.ra as u32, c.rb as u32, c.imm]),
        Kind::Ri => Fields::of(&[c.ra as u32, c.imm]),
        Kind::Niop => Fields::of(&[c.ra as u32, c.rb as u32, c.rc as u32, c.imm]),
        Kind::Noop => Fields::NONE,
    };
    ensure!(shape.in_range(&fields), "harness-alu-case", "immediate out of range");
    let word = shape.pack(s.byte, &fields);

    // run
    let (before, res, after): (RegFile, Result<ExecuteState, StepError>, RegFile) = vmfix::with_reused_vm(|vm, init| {
        let mut regs = *init;
        regs[R_FLAG] = c.flag as u64;
        regs[R_OF] = c.of;
        regs[R_ERR] = c.err;
        for (r, v) in [(c.ra, c.va), (c.rb, c.vb), (c.rc, c.vc), (c.rd, c.vd)] {
            if r >= WRITABLE {
                regs[r as usize] = v;
            }
        }
        vmfix::plant(vm, &regs);
        let res = vmfix::step(vm, word);
        (regs, res, vmfix::regfile(vm))
    })
    .map_err(|e| Failure::new("harness-vm-fixture", e))?;

    // operands as the instruction sees them (gas registers are read after the charge)
    let src = |r: u8| if is_gas_reg(r as usize) { after[r as usize] } else { before[r as usize] };
    let (mop, b, cv, d) = match s.kind {
        Kind::Rrr(o) => (o, src(c.rb), src(c.rc), 0),
        Kind::Rr(o) => (o, src(c.rb), 0, 0),
        Kind::Rrrr(o) => (o, src(c.rb), src(c.rc), src(c.rd)),
        Kind::Rri(o) => (o, src(c.rb), c.imm as u64, 0),
        Kind::Ri => (Op::Mov, c.imm as u64, 0, 0),
        Kind::Niop => (Op::Niop(c.imm as u8), src(c.rb), src(c.rc), 0),
        Kind::Noop => (Op::Noop, 0, 0, 0),
    };
    let (model, traits) = alu::eval(mop, b, cv, d, c.flag as u64);
    let label = op_label(s, c.imm);
    let has_dst = s.kind != Kind::Noop;
    let reserved = has_dst && c.ra < WRITABLE;

    // classification
    obs.class(&format!("op:{}", s.name));
    if traits.overflow {
        obs.class("overflow");
    }
    if traits.undefined {
        obs.class("undefined");
    }
    if traits.truncated_operand {
        obs.class("narrow-truncated-operand");
    }
    if traits.invalid_imm {
        obs.class("niop-invalid-imm");
    }
    if reserved {
        obs.class("reserved-dst");
    }
    if traits.overflow || traits.undefined || traits.truncated_operand || reserved {
        obs.class("non-trivial");
        obs.nontrivial(&(word >> 24, c.imm, c.flag, traits, reserved.then_some(c.ra), bitlen(b), bitlen(cv), bitlen(d)));
    }

    let unchanged_except_gas = |what: &str| -> Check {
        for i in 0..NREGS {
            if is_gas_reg(i) {
                ensure!(after[i] <= before[i], format!("{label}:gas-increased"), "{what}: gas register {i:#04x} went from {} to {}", before[i], after[i]);
            } else {
                ensure_eq!(after[i], before[i], format!("{what}:register-changed"), "{label} {c:?}: register {i:#04x} changed");
            }
        }
        Ok(())
    };

    if reserved {
        let mut admissible = vec![PanicReason::ReservedRegisterNotWritable];
        if let Err(MPanic::InvalidImmediateValue) = model {
            // the order of the immediate check and the destination check is not specified
            admissible.push(PanicReason::InvalidImmediateValue);
        }
        match &res {
            Err(StepError::Panic(r)) if admissible.contains(r) => {
                obs.class(&format!("panic:{r:?}"));
            }
            other => fail!(
                format!("reserved-dst:{label}:not-refused"),
                "{c:?}: writing reserved register {:#04x} gave {:?}, expected panic {:?}", c.ra, other, admissible
            ),
        }
        return unchanged_except_gas("reserved-dst");
    }

    match model {
        Err(p) => {
            let want = reason_of(p);
            obs.class(&format!("panic:{want:?}"));
            match &res {
                Err(StepError::Panic(r)) if *r == want => {}
                Ok(_) => fail!(format!("{label}:missing-panic:{want:?}"), "{c:?} (b={b} c={cv} d={d}): expected panic {want:?}, instruction succeeded with dest={} of={} err={}", after[c.ra as usize], after[R_OF], after[R_ERR]),
                other => fail!(format!("{label}:wrong-panic"), "{c:?} (b={b} c={cv} d={d}): expected panic {want:?}, got {other:?}"),
            }
            // the statement does not constrain registers after an arithmetic panic; count it
            if (0..NREGS).any(|i| !is_gas_reg(i) && after[i] != before[i]) {
                obs.note("arithmetic panic left a non-gas register changed", 1);
            }
            Ok(())
        }
        Ok(exp) => {
            obs.class("ok");
            match &res {
                Ok(ExecuteState::Proceed) => {}
                Err(StepError::Panic(r)) => fail!(format!("{label}:unexpected-panic:{r:?}"), "{c:?} (b={b} c={cv} d={d} flag={}): expected dest={:?} of={} err={}, got panic {r:?}", c.flag, exp.value, exp.of, exp.err),
                other => fail!(format!("{label}:unexpected-result"), "{c:?}: {other:?}"),
            }
            let mut want = before;
            want[R_OF] = exp.of;
            want[R_ERR] = exp.err;
            want[R_PC] = before[R_PC] + 4;
            if let Some(v) = exp.value {
                want[c.ra as usize] = v;
            }
            // destination first (most specific key), then $of/$err/$pc, then the rest
            if has_dst {
                ensure_eq!(after[c.ra as usize], want[c.ra as usize], format!("{label}:dest-value"), "{c:?} (b={b} c={cv} d={d} flag={})", c.flag);
            }
            ensure_eq!(after[R_OF], want[R_OF], format!("{label}:of"), "{c:?} (b={b} c={cv} d={d} flag={}) $of", c.flag);
            ensure_eq!(after[R_ERR], want[R_ERR], format!("{label}:err"), "{c:?} (b={b} c={cv} d={d} flag={}) $err", c.flag);
            ensure_eq!(after[R_PC], want[R_PC], format!("{label}:pc"), "{c:?} $pc");
            for i in 0..NREGS {
                if is_gas_reg(i) {
                    ensure!(after[i] <= before[i], format!("{label}:gas-increased"), "gas register {i:#04x} went from {} to {}", before[i], after[i]);
                } else {
                    ensure_eq!(after[i], want[i], format!("{label}:other-register-changed"), "{c:?}: register {i:#04x}");
                }
            }
            Ok(())
        }
    }
}

// ------------------------------------------------------------------ generators

/// boundary values used by the enumerated parts
fn boundary_words() -> Vec<u64> {
    let mut v: Vec<u64> = vec![
        0, 1, 2, 3, 4, 7, 8, 9, 10, 15, 16, 27, 31, 32, 33, 62, 63, 64, 65, 100, 127, 128, 255, 256, 257, 1000, 65535, 65536, 65537,
        (1 << 31) - 1, 1 << 31, (1 << 31) + 1, u32::MAX as u64 - 1, u32::MAX as u64, 1 << 32, (1 << 32) + 1,
        3037000499, 3037000500, // floor(sqrt(2^63)) and +1
        4294967295 * 4294967295 - 1, 4294967295 * 4294967295, 4294967295 * 4294967295 + 1,
        2642245, 2642246, // floor(cbrt(2^64)) and +1
        18446724184312856125, // 2642245^3
        i64::MAX as u64 - 1, i64::MAX as u64, 1 << 63, (1 << 63) + 1, u64::MAX - 1, u64::MAX,
        0xFFFF_FFFF_0000_0000, 0x0000_0001_0000_0100, 0xFFFF_FFFF_FFFF_FF00, 0xAAAA_AAAA_AAAA_AAAA, 0x5555_5555_5555_5555,
    ];
    v.sort();
    v.dedup();
    v
}

/// perfect powers r^n (n ≥ 2) and neighbours, as (value, n, r)
fn perfect_powers() -> Vec<(u64, u64, u64)> {
    let mut out = vec![];
    for n in 2..=64u32 {
        // largest r with r^n ≤ u64::MAX, by linear/binary search on checked_pow
        let (mut lo, mut hi) = (1u64, u64::MAX);
        while lo < hi {
            let mid = lo + (hi - lo) / 2 + 1;
            if mid.checked_pow(n).is_some() { lo = mid } else { hi = mid - 1 }
        }
        let rmax = lo;
        let mut rs = vec![2, 3, 5, 10, rmax / 2, rmax - 1, rmax];
        rs.retain(|r| *r >= 2 && *r <= rmax);
        rs.sort();
        rs.dedup();
        for r in rs {
            let p = r.pow(n);
            for v in [p.wrapping_sub(1), p, p.wrapping_add(1)] {
                out.push((v, n as u64, r));
            }
        }
    }
    out
}

fn base_case(s: &Spec) -> AluCase {
    AluCase { op: s.byte, ra: 0x10, rb: 0x11, rc: 0x12, rd: 0x13, imm: 0, va: 0xDEAD_BEEF, vb: 0, vc: 0, vd: 0, flag: 0, of: 0, err: 0 }
}

fn reg_strategy() -> impl Strategy<Value = (u8, u8, u8, u8)> {
    // destination: mostly writable, sometimes reserved; sources: writable / any / aliasing the destination
    let dst = prop_oneof![6 => 16u8..64, 1 => 0u8..16];
    let src = || prop_oneof![5 => 16u8..64, 2 => 0u8..64, 1 => Just(0xFFu8)];
    (dst, src(), src(), src()).prop_map(|(a, b, c, d)| {
        let fix = |x: u8| if x == 0xFF { a } else { x };
        (a, fix(b), fix(c), fix(d))
    })
}

fn special_amounts() -> impl Strategy<Value = u64> {
    prop::sample::select(vec![0u64, 1, 2, 7, 8, 15, 16, 31, 32, 33, 62, 63, 64, 65, 127, 128, 255, 256, u32::MAX as u64, 1 << 32, (1 << 32) + 1, (1 << 32) + 63, u64::MAX])
}

/// operand triples (b, c, d) aimed at the interesting regions of every instruction
fn operands() -> impl Strategy<Value = (u64, u64, u64)> {
    let pp = perfect_powers();
    prop_oneof![
        4 => (gens::word(), gens::word(), gens::word()),
        // perfect powers and neighbours: (value, exponent) for MROO, (value, base) for MLOG
        2 => (prop::sample::select(pp.clone()), any::<bool>(), gens::word()).prop_map(|((v, n, r), root, d)| if root { (v, n, d) } else { (v, r, d) }),
        // random r, n with r^n near the limit
        1 => (2u64..=4096, 2u32..=12, 0u64..3, any::<bool>()).prop_map(|(r, n, dl, root)| {
            let mut n = n;
            while r.checked_pow(n).is_none() { n -= 1 }
            let v = r.pow(n).wrapping_add(dl).wrapping_sub(1);
            if root { (v, n as u64, 0) } else { (v, r, 0) }
        }),
        // shifts / exponents
        2 => (gens::word(), special_amounts(), gens::word()),
        // zero / one right operands (undefined results of DIV, MOD, MLOG, MROO) and zero left operands
        2 => (prop_oneof![3 => gens::word(), 1 => Just(0u64)], prop_oneof![2 => Just(0u64), 1 => Just(1u64)], gens::word()),
        // sums around 2^64
        1 => (gens::word(), 0u64..3).prop_map(|(b, dl)| (b, (0u64.wrapping_sub(b)).wrapping_add(dl).wrapping_sub(1), 1)),
        // products around 2^64 and MLDV quotients around 2^64
        2 => (1u64..=u64::MAX, 0u64..3, 0u64..4).prop_map(|(b, dl, dsel)| {
            let c = (u64::MAX / b).wrapping_add(dl).wrapping_sub(1);
            let hi = ((b as u128 * c as u128) >> 64) as u64;
            let d = match dsel { 0 => 0, 1 => 1, 2 => hi, _ => hi.wrapping_add(1) };
            (b, c, d)
        }),
        // differences around 0
        1 => (gens::word(), 0u64..3).prop_map(|(b, dl)| (b, b.wrapping_add(dl).wrapping_sub(1), 0)),
        // narrow-int boundaries with dirty upper bits
        2 => (any::<u64>(), any::<u64>(), prop::sample::select(vec![8u32, 16, 32]), 0u64..6, 0u64..6).prop_map(|(hb, hc, w, lb, lc)| {
            let m = (1u64 << w) - 1;
            let pick = |k: u64| match k { 0 => 0, 1 => 1, 2 => 2, 3 => m - 1, 4 => m, _ => (m >> 1) + 1 };
            ((hb & !m) | pick(lb), (hc & !m) | pick(lc), 0)
        }),
        1 => (any::<u64>(), any::<u64>(), any::<u64>()),
    ]
}

fn imm_for(kind_sel: u16) -> impl Strategy<Value = u32> {
    let _ = kind_sel;
    prop_oneof![
        3 => prop::sample::select(vec![0u32, 1, 2, 3, 7, 8, 31, 32, 33, 62, 63, 64, 65, 127, 128, 255, 256, 2047, 2048, 4094, 4095]),
        2 => 0u32..4096,
        1 => 0u32..70,
    ]
}

fn alu_case() -> impl Strategy<Value = AluCase> {
    let n = specs().len();
    (
        any::<u16>(),
        reg_strategy(),
        operands(),
        imm_for(0),
        (0u32..(1 << 18), prop::sample::select(vec![0u32, 1, (1 << 18) - 1, 1 << 17, 4096])),
        // NIOP immediate: mostly valid
        prop_oneof![6 => (0u32..6, 0u32..3).prop_map(|(o, w)| o | (w << 4)), 1 => 0u32..64],
        0u8..4,
        (prop_oneof![2 => Just(0u64), 1 => Just(1u64), 1 => gens::word()], prop_oneof![2 => Just(0u64), 1 => Just(1u64), 1 => gens::word()]),
        gens::word(),
        any::<bool>(),
    )
        .prop_map(move |(sel, (ra, rb, rc, rd), (vb, vc, vd), imm12, (imm18a, imm18b), imm6, flag, (of, err), va, niop_more)| {
            // NIOP gets a double share: it has 18 sub-operations
            let k = gens::pick(sel, n + 6);
            let _ = niop_more;
            let s = if k >= n { spec_by_name("NIOP") } else { &specs()[k] };
            let imm = match s.kind {
                Kind::Rri(_) => imm12,
                Kind::Ri => if sel & 1 == 0 { imm18a } else { imm18b },
                Kind::Niop => imm6,
                _ => 0,
            };
            AluCase { op: s.byte, ra, rb, rc, rd, imm, va, vb, vc, vd, flag, of, err }
        })
}

// ------------------------------------------------------------------ enumerations

/// NIOP over all 8-bit operand pairs × 6 ops × 4 flags × 3 upper-bit settings
fn enumerate_niop_u8(_ctx: &Ctx, shard: usize, nshards: usize, sink: &mut dyn FnMut(AluCase) -> bool) {
    let s = spec_by_name("NIOP");
    for l in 0..256u64 {
        if l as usize % nshards != shard {
            continue;
        }
        for r in 0..256u64 {
            for sel in 0..6u32 {
                for flag in 0..4u8 {
                    for hi in 0..3u8 {
                        let (hl, hr) = match hi {
                            0 => (0u64, 0u64),
                            1 => (!0xFFu64, !0xFFu64),
                            _ => {
                                // deterministic dirty upper bits
                                let x = (l << 8 | r).wrapping_mul(0x9E37_79B9_7F4A_7C15) ^ 0xD1B5_4A32_D192_ED03;
                                (x & !0xFF, x.rotate_left(29) & !0xFF)
                            }
                        };
                        let mut c = base_case(s);
                        c.imm = sel; // width U8 = 0 << 4
                        c.vb = hl | l;
                        c.vc = hr | r;
                        c.flag = flag;
                        c.of = 5;
                        c.err = 1;
                        if !sink(c) {
                            return;
                        }
                    }
                }
            }
        }
    }
}

/// all instructions × all 64 destinations × flags × operand combinations with and without
/// overflow / undefined results; plus all 64 source registers
fn enumerate_dests(_ctx: &Ctx, shard: usize, nshards: usize, sink: &mut dyn FnMut(AluCase) -> bool) {
    let combos: [(u64, u64, u64); 6] = [(7, 3, 2), (u64::MAX, u64::MAX, 1), (0, 0, 0), (5, 0, 0), (0, 7, 1), (1 << 40, 1 << 40, 3)];
    let mut k = 0usize;
    for s in specs() {
        let imms: Vec<u32> = match s.kind {
            Kind::Rri(_) => vec![0, 1, 64, 4095],
            Kind::Ri => vec![0, (1 << 18) - 1],
            Kind::Niop => vec![0x00, 0x01, 0x12, 0x23, 0x25, 0x06, 0x30, 0x3F],
            _ => vec![0],
        };
        for imm in imms {
            for (vb, vc, vd) in combos {
                for flag in 0..4u8 {
                    for r in 0..64u8 {
                        k += 1;
                        if k % nshards != shard {
                            continue;
                        }
                        // destination sweep
                        let mut c = base_case(s);
                        (c.imm, c.vb, c.vc, c.vd, c.flag, c.ra) = (imm, vb, vc, vd, flag, r);
                        c.of = 9;
                        c.err = 1;
                        if !sink(c.clone()) {
                            return;
                        }
                        // source sweeps (including reserved sources and aliasing)
                        let mut c2 = base_case(s);
                        (c2.imm, c2.vb, c2.vc, c2.vd, c2.flag, c2.rb, c2.rc) = (imm, vb, vc, vd, flag, r, 63 - r);
                        c2.of = vb;
                        c2.err = vc;
                        if !sink(c2) {
                            return;
                        }
                        let mut c3 = base_case(s);
                        (c3.imm, c3.vb, c3.vc, c3.vd, c3.flag, c3.ra, c3.rb, c3.rc, c3.rd) = (imm, vb, vc, vd, flag, 16 + r % 48, 16 + r % 48, r, r);
                        if !sink(c3) {
                            return;
                        }
                    }
                }
            }
        }
    }
}

/// register-register instructions over the cross product of boundary operands, perfect powers
/// for MROO/MLOG/EXP, and immediate sweeps
fn enumerate_boundaries(ctx: &Ctx, shard: usize, nshards: usize, sink: &mut dyn FnMut(AluCase) -> bool) {
    let thorough = ctx.tier == Tier::Thorough;
    let bw = boundary_words();
    let mut k = 0usize;
    let mut emit = |c: AluCase| -> bool {
        k += 1;
        if k % nshards != shard {
            return true;
        }
        sink(c)
    };
    for s in specs() {
        match s.kind {
            Kind::Rrr(_) | Kind::Rr(_) => {
                for &b in &bw {
                    for &cv in &bw {
                        for flag in 0..4u8 {
                            let mut c = base_case(s);
                            (c.vb, c.vc, c.flag) = (b, cv, flag);
                            if !emit(c) {
                                return;
                            }
                        }
                        if matches!(s.kind, Kind::Rr(_)) {
                            break;
                        }
                    }
                }
            }
            Kind::Rrrr(_) => {
                let small: Vec<u64> = bw.iter().copied().step_by(if thorough { 1 } else { 3 }).collect();
                for &b in &small {
                    for &cv in &small {
                        let hi = ((b as u128 * cv as u128) >> 64) as u64;
                        for d in [0u64, 1, 2, hi, hi.wrapping_add(1), hi.wrapping_sub(1), b, cv, u64::MAX, 1 << 63] {
                            for flag in [0u8, 2, 3] {
                                let mut c = base_case(s);
                                (c.vb, c.vc, c.vd, c.flag) = (b, cv, d, flag);
                                if !emit(c) {
                                    return;
                                }
                            }
                        }
                    }
                }
            }
            Kind::Rri(o) => {
                let all_imm = thorough || matches!(o, Op::Sll | Op::Srl | Op::Exp);
                let imms: Vec<u32> = if all_imm { (0..4096).collect() } else { isa::field_lattice(12) };
                let bs: Vec<u64> = if thorough { bw.clone() } else { vec![0, 1, 2, 3, 15, 255, 65535, 65536, u32::MAX as u64, 1 << 32, 3037000500, 1 << 63, u64::MAX - 1, u64::MAX, 0xAAAA_AAAA_AAAA_AAAA, 4503599627370496] };
                for &imm in &imms {
                    for &b in &bs {
                        for flag in 0..4u8 {
                            let mut c = base_case(s);
                            (c.imm, c.vb, c.flag) = (imm, b, flag);
                            if !emit(c) {
                                return;
                            }
                        }
                    }
                }
            }
            Kind::Ri => {
                let imms: Vec<u32> = if thorough { (0..1 << 18).collect() } else { isa::field_lattice(18) };
                for imm in imms {
                    let mut c = base_case(s);
                    c.imm = imm;
                    c.flag = (imm & 3) as u8;
                    c.of = 3;
                    if !emit(c) {
                        return;
                    }
                }
            }
            Kind::Niop => {
                // wider widths on boundary operands
                for w in 0..4u32 {
                    for sel in 0..8u32 {
                        for &b in &bw {
                            for &cv in &bw {
                                for flag in [0u8, 2] {
                                    let mut c = base_case(s);
                                    (c.imm, c.vb, c.vc, c.flag) = (sel | (w << 4), b, cv, flag);
                                    if !emit(c) {
                                        return;
                                    }
                                }
                            }
                        }
                    }
                }
            }
            Kind::Noop => {
                for flag in 0..4u8 {
                    let mut c = base_case(s);
                    (c.flag, c.of, c.err) = (flag, 77, 1);
                    if !emit(c) {
                        return;
                    }
                }
            }
        }
    }
    // perfect powers
    for (v, n, r) in perfect_powers() {
        for name in ["MROO", "MLOG", "EXP"] {
            let s = spec_by_name(name);
            for (b, cv) in [(v, n), (v, r), (r, n), (r, n + 1), (r + 1, n), (r.wrapping_sub(1), n)] {
                for flag in [0u8, 1, 2] {
                    let mut c = base_case(s);
                    (c.vb, c.vc, c.flag) = (b, cv, flag);
                    if !emit(c) {
                        return;
                    }
                }
            }
        }
    }
}

pub fn property() -> Property {
    Property {
        id: "C21",
        rule: "single ALU instructions (ADD..XOR, immediates, EXP/EXPI, MLOG, MROO, MLDV, NIOP, MOVE/MOVI, NOT, NOOP) executed with Interpreter::instruction on an initialised script VM with $flag in 0..=3, $of/$err and operand registers planted; destination over 0..63 (reserved and writable), sources over 0..63 incl. aliasing and reserved sources; operands boundary-biased u64 (2^k±1, perfect powers ±1 with their exponent/base, shift amounts 63/64/65/2^32, sums/products/quotients around 2^64, narrow boundaries under dirty upper bits) and uniform. Expected (dest,$of,$err)/panic from model::alu. Non-trivial = overflow or undefined result or truncated narrow operand or reserved destination; distinct by (opcode, imm, flag, traits, reserved dst, bit lengths of the operands)".into(),
        assumptions: vec![
            "model::alu transcribes the documented instruction semantics (exact integer arithmetic)".into(),
            "model::isa word layout (C08)".into(),
            "ALU instructions touch registers only, so one VM per thread is reused with all 64 registers reset before every case".into(),
            "$zero/$one and the other reserved registers are never planted (only $flag, $of, $err); gas registers used as sources are read after the gas charge".into(),
        ],
        parts: vec![
            gen_part("alu-random", "all ALU instructions, aimed operands, random registers/flags", (1_500_000, 60_000_000), |_c: &Ctx| alu_case(), check_alu),
            enum_part("niop-u8-exhaustive", "NIOP width U8: all 256x256 low-byte operand pairs x 6 operations x 4 flag values x 3 upper-bit settings (clean, all ones, mixed)", true, enumerate_niop_u8, check_alu),
            enum_part("dest-and-source-sweep", "every instruction x all 64 destination registers / all 64 source registers x 4 flags x 6 operand combinations x representative immediates", true, enumerate_dests, check_alu),
            enum_part("boundary-cross", "register-register instructions over the cross product of ~55 boundary operands x 4 flags; MLDV with divisors around the 2^64 quotient boundary; immediate instructions over all 4096 immediates (quick: shifts and EXPI) x boundary operands; MOVI immediates; NIOP all widths/ops incl. reserved on boundary operands; perfect powers r^n±1 for MROO/MLOG/EXP", false, enumerate_boundaries, check_alu),
        ],
        floors: vec![
            ("alu-random", "non-trivial", 0.25),
            ("alu-random", "overflow", 0.05),
            ("alu-random", "undefined", 0.01),
            ("alu-random", "reserved-dst", 0.05),
            ("alu-random", "narrow-truncated-operand", 0.03),
        ],
    }
}
