//! C15 — Contract and predicate identifiers follow the specification.
//!
//! Oracle: the formulas of the specification evaluated with harness primitives only
//! (SHA-256 from `sha2`, `model::rfc6962::mth` for the code root, a recursive compact sparse
//! Merkle root written below for the state root). Compared with `Contract::{root_from_code,
//! root, initial_state_root, default_state_root, id}`, `Input::{predicate_owner,
//! is_predicate_owner_valid}`, `CreateMetadata::compute`, the `Create` validity rule on the
//! `ContractCreated` output, and the VM: deployment through `Transactor` / `MemoryClient`,
//! the `CROO` instruction, and the predicate owner check of `check_predicates`.
use crate::engine::*;
use crate::gens::{bytes32, pick};
use crate::model::rfc6962 as rf;
use crate::{ensure, ensure_eq};
use fuel_vm::checked_transaction::{CheckError, CheckPredicateParams, CheckPredicates, EstimatePredicates, IntoChecked};
use fuel_vm::error::PredicateVerificationFailed;
use fuel_vm::fuel_asm::{op, GTFArgs, RegId};
use fuel_vm::fuel_tx::{
    ConsensusParameters, Contract, CreateMetadata, Finalizable, FormatValidityChecks, Input, Output, Receipt, ScriptExecutionResult, StorageSlot,
    TransactionBuilder, UtxoId, ValidityError, Witness,
};
use fuel_vm::fuel_types::{Address, AssetId, Bytes32, ContractId, Nonce, Salt};
use fuel_vm::interpreter::{InterpreterParams, MemoryInstance, NotSupportedEcal};
use fuel_vm::prelude::{InterpreterStorage, MemoryClient, MemoryStorage, Transactor};
use fuel_vm::storage::predicate::EmptyStorage;
use proptest::prelude::*;
use serde::{Deserialize, Serialize};
use sha2::{Digest, Sha256};
use std::borrow::Cow;
use std::collections::BTreeMap;

type H = [u8; 32];

// ---------------------------------------------------------------- reference formulas

const CHUNK: usize = 16 * 1024;
/// "FUEL"
const SEED: [u8; 4] = [0x46, 0x55, 0x45, 0x4C];

fn sha(parts: &[&[u8]]) -> H {
    let mut h = Sha256::new();
    for p in parts {
        h.update(p);
    }
    h.finalize().into()
}

/// chunks of 16 KiB; the final partial chunk is zero-padded to `pad`-byte alignment
/// (full chunks are borrowed, only a padded tail is copied)
fn chunks_padded(code: &[u8], chunk: usize, pad: usize) -> Vec<Cow<'_, [u8]>> {
    let mut out = vec![];
    let mut at = 0;
    while at < code.len() {
        let end = (at + chunk).min(code.len());
        let c = &code[at..end];
        if c.len() < chunk && c.len() % pad != 0 {
            let mut v = c.to_vec();
            while v.len() % pad != 0 {
                v.push(0);
            }
            out.push(Cow::Owned(v));
        } else {
            out.push(Cow::Borrowed(c));
        }
        at = end;
    }
    out
}

fn ref_code_root(code: &[u8]) -> H {
    rf::mth(&chunks_padded(code, CHUNK, 8))
}

fn ref_contract_id(salt: &H, code_root: &H, state_root: &H) -> H {
    sha(&[&SEED, salt, code_root, state_root])
}

fn ref_predicate_owner(code: &[u8]) -> H {
    sha(&[&SEED, &ref_code_root(code)])
}

fn bit(k: &H, depth: usize) -> bool {
    (k[depth / 8] >> (7 - depth % 8)) & 1 == 1
}

/// Compact sparse Merkle root over (path key, leaf hash) pairs sorted by key, all sharing their
/// first `depth` bits: empty subtree = 32 zero bytes, a subtree with a single leaf is that leaf's
/// hash, otherwise SHA256(0x01 ‖ left ‖ right) splitting on bit `depth` (MSB first).
fn smt_subroot(leaves: &[(H, H)], depth: usize) -> H {
    match leaves.len() {
        0 => [0u8; 32],
        1 => leaves[0].1,
        _ => {
            assert!(depth < 256, "duplicate path keys");
            let cut = leaves.partition_point(|(k, _)| !bit(k, depth));
            let l = smt_subroot(&leaves[..cut], depth + 1);
            let r = smt_subroot(&leaves[cut..], depth + 1);
            sha(&[&[1u8], &l, &r])
        }
    }
}

/// state root of a slot *map* (unique slot keys): path key = SHA256(slot key),
/// leaf = SHA256(0x00 ‖ path key ‖ SHA256(value))
fn ref_state_root(slots: &BTreeMap<H, H>) -> H {
    let mut leaves: Vec<(H, H)> = slots
        .iter()
        .map(|(k, v)| {
            let pk = sha(&[k]);
            (pk, sha(&[&[0u8], &pk, &sha(&[v])]))
        })
        .collect();
    leaves.sort();
    smt_subroot(&leaves, 0)
}

// ---------------------------------------------------------------- deterministic content

fn splitmix(x: &mut u64) -> u64 {
    *x = x.wrapping_add(0x9E37_79B9_7F4A_7C15);
    let mut z = *x;
    z = (z ^ (z >> 30)).wrapping_mul(0xBF58_476D_1CE4_E5B9);
    z = (z ^ (z >> 27)).wrapping_mul(0x94D0_49BB_1331_11EB);
    z ^ (z >> 31)
}

fn fill(seed: u64, len: usize) -> Vec<u8> {
    let mut s = seed;
    let mut v = Vec::with_capacity(len + 8);
    while v.len() < len {
        v.extend_from_slice(&splitmix(&mut s).to_le_bytes());
    }
    v.truncate(len);
    v
}

#[derive(Debug, Clone, Copy, Serialize, Deserialize)]
pub enum Style {
    Random,
    Zeros,
    Ones,
    /// random, but the last 1..=9 bytes are zero (indistinguishable from padding)
    ZeroTail,
    /// random, last byte non-zero
    NonZeroTail,
}

fn style() -> impl Strategy<Value = Style> {
    prop_oneof![
        4 => Just(Style::Random),
        1 => Just(Style::Zeros),
        1 => Just(Style::Ones),
        2 => Just(Style::ZeroTail),
        2 => Just(Style::NonZeroTail),
    ]
}

fn code_bytes(len: usize, seed: u64, style: Style) -> Vec<u8> {
    let mut c = match style {
        Style::Zeros => vec![0u8; len],
        Style::Ones => vec![0xffu8; len],
        _ => fill(seed, len),
    };
    match style {
        Style::ZeroTail => {
            let k = 1 + (seed % 9) as usize;
            let n = c.len();
            for b in c[n.saturating_sub(k)..].iter_mut() {
                *b = 0;
            }
        }
        Style::NonZeroTail => {
            if let Some(b) = c.last_mut() {
                *b |= 1;
            }
        }
        _ => {}
    }
    c
}

/// code lengths: 0..=72, 8k±1, 16384·m + {−9..+9} (m ≤ max_m), plus uniform up to 3·16384+72
/// (m = 6 gives 7 chunks = three peaks in the code root; 6·16384+9 is below contract_max_size)
fn code_len(max_m: u32) -> impl Strategy<Value = u32> {
    prop_oneof![
        4 => 0u32..=72,
        3 => (1u32..=40, -1i32..=1).prop_map(|(k, d)| (8 * k as i32 + d) as u32),
        2 => (1u32..=2047, -1i32..=1).prop_map(|(k, d)| (8 * k as i32 + d) as u32),
        6 => (1u32..=max_m, -9i32..=9).prop_map(|(m, d)| (16384 * m as i32 + d) as u32),
        1 => 0u32..=(3 * 16384 + 72),
    ]
}

fn len_class(len: usize) -> &'static str {
    let m = len % CHUNK;
    let near = len >= CHUNK - 9 && (m <= 9 || m >= CHUNK - 9);
    match (near, len % 8 == 0) {
        (true, true) => "len:near-chunk-boundary,multiple-of-8",
        (true, false) => "len:near-chunk-boundary,not-multiple-of-8",
        (false, false) => "len:not-multiple-of-8",
        (false, true) => "len:multiple-of-8",
    }
}

fn nontrivial_len(len: usize) -> bool {
    let m = len % CHUNK;
    len % 8 != 0 || (len >= CHUNK - 9 && (m <= 9 || m >= CHUNK - 9))
}

// ---------------------------------------------------------------- part 1: code root / predicate owner

#[derive(Debug, Clone, Serialize, Deserialize)]
pub struct CodeCase {
    pub len: u32,
    pub seed: u64,
    pub style: Style,
    pub flip: u8,
}

fn run_code(c: &CodeCase, obs: &mut Obs) -> Check {
    let len = c.len as usize;
    let code = code_bytes(len, c.seed, c.style);
    let want = ref_code_root(&code);
    obs.class(len_class(len));
    if nontrivial_len(len) {
        obs.nontrivial(&(c.len, c.style as u8));
    }
    if len == 0 {
        ensure_eq!(want, rf::empty(), "harness-model", "root of empty code is SHA-256 of the empty string");
    }
    ensure_eq!(*Contract::root_from_code(&code), want, "code-root:root_from_code", "Contract::root_from_code for {len} bytes");
    ensure_eq!(*Contract::from(code.clone()).root(), want, "code-root:Contract::root", "Contract::root for {len} bytes");
    ensure_eq!(*Contract::from(code.as_slice()).root(), want, "code-root:Contract::root", "Contract::from(&[u8]).root for {len} bytes");

    let owner = ref_predicate_owner(&code);
    ensure_eq!(*Input::predicate_owner(&code), owner, "predicate-owner:formula", "Input::predicate_owner for {len} bytes");
    ensure!(Input::is_predicate_owner_valid(&Address::new(owner), &code), "predicate-owner:valid-rejected", "is_predicate_owner_valid rejects the formula owner ({len} bytes)");
    // near misses: every one that differs from the formula owner must be rejected
    let mut flipped = owner;
    flipped[(c.flip / 8) as usize % 32] ^= 1 << (c.flip % 8);
    let alts: [(&str, H); 6] = [
        ("bit-flip", flipped),
        ("unpadded-root", sha(&[&SEED, &rf::mth(&chunks_padded(&code, CHUNK, 1))])),
        ("pad-4-root", sha(&[&SEED, &rf::mth(&chunks_padded(&code, CHUNK, 4))])),
        ("no-seed", sha(&[&want])),
        ("code-root-itself", want),
        ("contract-id-shape", ref_contract_id(&[0u8; 32], &want, &[0u8; 32])),
    ];
    for (what, a) in alts {
        if a != owner {
            ensure!(!Input::is_predicate_owner_valid(&Address::new(a), &code), "predicate-owner:invalid-accepted", "is_predicate_owner_valid accepts the {what} owner ({len} bytes)");
        }
    }
    Ok(())
}

// ---------------------------------------------------------------- part 2: slots, state root, id, metadata

#[derive(Debug, Clone, Serialize, Deserialize)]
pub enum KeySpec {
    Raw([u8; 32]),
    /// numerically adjacent to an earlier key (raw-key clustering must not matter: keys are hashed)
    Adjacent { of: u16, delta: i8 },
    /// a key whose SHA-256 shares at least `bits` leading bits with the SHA-256 of an earlier key
    /// (found by deterministic search from `nonce`): exercises deep branches of the sparse tree
    NearHashed { of: u16, bits: u8, nonce: u64 },
}

#[derive(Debug, Clone, Serialize, Deserialize)]
pub struct SlotSpec {
    pub key: KeySpec,
    pub value: [u8; 32],
}

fn key_spec(max_bits: u8) -> impl Strategy<Value = KeySpec> {
    prop_oneof![
        3 => bytes32().prop_map(KeySpec::Raw),
        1 => (any::<u16>(), -2i8..=2).prop_map(|(of, delta)| KeySpec::Adjacent { of, delta }),
        3 => (any::<u16>(), 1u8..=max_bits, any::<u64>()).prop_map(|(of, bits, nonce)| KeySpec::NearHashed { of, bits, nonce }),
    ]
}

fn slot_specs(max: usize, max_bits: u8) -> impl Strategy<Value = Vec<SlotSpec>> {
    prop::collection::vec((key_spec(max_bits), bytes32()).prop_map(|(key, value)| SlotSpec { key, value }), 0..=max)
}

fn common_prefix(a: &H, b: &H) -> u32 {
    let mut n = 0;
    for i in 0..32 {
        let x = a[i] ^ b[i];
        if x == 0 {
            n += 8;
        } else {
            n += x.leading_zeros();
            break;
        }
    }
    n
}

fn add_small(k: &H, d: i8) -> H {
    // big-endian add of a small signed number, wrapping
    let mut out = *k;
    let mut carry = d as i16;
    for i in (0..32).rev() {
        let v = out[i] as i16 + carry;
        out[i] = v.rem_euclid(256) as u8;
        carry = v.div_euclid(256);
        if carry == 0 {
            break;
        }
    }
    out
}

/// resolve the specs to (key, value) in generated order; duplicates of an earlier key are dropped
fn resolve_slots(specs: &[SlotSpec]) -> Vec<(H, H)> {
    let mut out: Vec<(H, H)> = vec![];
    for s in specs {
        let key = match &s.key {
            KeySpec::Raw(k) => *k,
            KeySpec::Adjacent { of, delta } => {
                if out.is_empty() {
                    [0u8; 32]
                } else {
                    add_small(&out[pick(*of, out.len())].0, *delta)
                }
            }
            KeySpec::NearHashed { of, bits, nonce } => {
                if out.is_empty() {
                    let v = fill(*nonce, 32);
                    v.try_into().unwrap()
                } else {
                    let target = sha(&[&out[pick(*of, out.len())].0]);
                    let mut n = *nonce;
                    let mut found = None;
                    for _ in 0..(1u64 << 20) {
                        let cand: H = fill(n, 32).try_into().unwrap();
                        n = n.wrapping_add(1);
                        if common_prefix(&sha(&[&cand]), &target) >= (*bits).min(16) as u32 {
                            found = Some(cand);
                            break;
                        }
                    }
                    found.unwrap_or([0x5a; 32])
                }
            }
        };
        if out.iter().all(|(k, _)| *k != key) {
            out.push((key, s.value));
        }
    }
    out
}

fn to_storage_slots(slots: &[(H, H)]) -> Vec<StorageSlot> {
    slots.iter().map(|(k, v)| StorageSlot::new(Bytes32::new(*k), Bytes32::new(*v))).collect()
}

/// deepest pair of path keys (SHA-256 of slot keys): how deep the sparse tree branches
fn max_shared_prefix(slots: &[(H, H)]) -> u32 {
    let mut hk: Vec<H> = slots.iter().map(|(k, _)| sha(&[k])).collect();
    hk.sort();
    hk.windows(2).map(|w| common_prefix(&w[0], &w[1])).max().unwrap_or(0)
}

#[derive(Debug, Clone, Serialize, Deserialize)]
pub struct StateCase {
    pub slots: Vec<SlotSpec>,
    pub salt: [u8; 32],
    pub code_len: u32,
    pub code_seed: u64,
}

fn run_state(c: &StateCase, obs: &mut Obs) -> Check {
    let slots = resolve_slots(&c.slots);
    let map: BTreeMap<H, H> = slots.iter().cloned().collect();
    let want_state = ref_state_root(&map);
    let depth = max_shared_prefix(&slots);
    obs.class(&format!("slots={:02}", slots.len()));
    obs.class(match depth {
        0..=3 => "deepest-branch:0-3",
        4..=7 => "deepest-branch:4-7",
        8..=11 => "deepest-branch:8-11",
        _ => "deepest-branch:12+",
    });
    if slots.len() >= 2 {
        obs.class("slots>=2");
        obs.nontrivial(&map);
    }

    // generated order, sorted order, reversed order: a *set* has one root
    let gen_order = to_storage_slots(&slots);
    let mut sorted = gen_order.clone();
    sorted.sort();
    let mut rev = sorted.clone();
    rev.reverse();
    ensure_eq!(*Contract::initial_state_root(gen_order.iter()), want_state, "state-root:generated-order", "initial_state_root over {} slots in generated order (deepest branch {depth})", slots.len());
    ensure_eq!(*Contract::initial_state_root(sorted.iter()), want_state, "state-root:sorted", "initial_state_root over {} sorted slots (deepest branch {depth})", slots.len());
    ensure_eq!(*Contract::initial_state_root(rev.iter()), want_state, "state-root:reversed", "initial_state_root over {} slots in descending order", slots.len());
    if slots.is_empty() {
        ensure_eq!(want_state, [0u8; 32], "harness-model", "empty sparse root is zero");
        ensure_eq!(*Contract::default_state_root(), want_state, "state-root:default", "default_state_root");
    }

    let code = fill(c.code_seed, c.code_len as usize);
    let code_root = ref_code_root(&code);
    let want_id = ref_contract_id(&c.salt, &code_root, &want_state);
    let salt = Salt::new(c.salt);
    ensure_eq!(*Contract::id(&salt, &Bytes32::new(code_root), &Bytes32::new(want_state)), want_id, "contract-id:formula", "Contract::id");

    // metadata computed from a Create transaction
    let tx = TransactionBuilder::create(Witness::from(code.clone()), salt, gen_order.clone()).add_fee_input().finalize();
    let md = CreateMetadata::compute(&tx).map_err(|e| Failure::new("create-metadata:error", format!("{e:?}")))?;
    ensure_eq!(*md.contract_root, code_root, "create-metadata:contract_root", "CreateMetadata.contract_root ({} bytes)", code.len());
    ensure_eq!(*md.state_root, want_state, "create-metadata:state_root", "CreateMetadata.state_root ({} slots)", slots.len());
    ensure_eq!(*md.contract_id, want_id, "create-metadata:contract_id", "CreateMetadata.contract_id");
    Ok(())
}

// ---------------------------------------------------------------- part 3: the VM side — deploy and CROO

#[derive(Debug, Clone, Copy, PartialEq, Eq, Serialize, Deserialize)]
pub enum WrongId {
    /// output carries exactly the formula's id and state root
    None,
    IdBitFlip(u8),
    StateRootBitFlip(u8),
    /// id computed from the code root without padding of the last chunk
    UnpaddedRoot,
    /// … padded to 4 instead of 8
    Pad4Root,
    /// SHA-256(salt ‖ root ‖ state root) without the seed
    NoSeed,
    /// id computed with the default (empty) state root
    EmptyStateRoot,
    /// id computed from a state root keyed by the raw (unhashed) slot keys
    UnhashedKeys,
}

fn wrong_id() -> impl Strategy<Value = WrongId> {
    prop_oneof![
        8 => Just(WrongId::None),
        1 => any::<u8>().prop_map(WrongId::IdBitFlip),
        1 => any::<u8>().prop_map(WrongId::StateRootBitFlip),
        1 => Just(WrongId::UnpaddedRoot),
        1 => Just(WrongId::Pad4Root),
        1 => Just(WrongId::NoSeed),
        1 => Just(WrongId::EmptyStateRoot),
        1 => Just(WrongId::UnhashedKeys),
    ]
}

#[derive(Debug, Clone, Serialize, Deserialize)]
pub struct VmCase {
    pub code_len: u32,
    pub code_seed: u64,
    pub style: Style,
    pub slots: Vec<SlotSpec>,
    pub salt: [u8; 32],
    pub wrong: WrongId,
    /// deploy through MemoryClient (true) or Transactor (false)
    pub via_client: bool,
}

fn flip_bit(h: &H, b: u8) -> H {
    let mut a = *h;
    a[(b / 8) as usize % 32] ^= 1 << (b % 8);
    a
}

fn croo_script() -> Vec<u8> {
    vec![
        op::gtf_args(0x10, RegId::ZERO, GTFArgs::ScriptData),
        op::movi(0x11, 32),
        op::aloc(0x11),
        op::croo(RegId::HP, 0x10),
        op::logd(RegId::ZERO, RegId::ZERO, RegId::HP, 0x11),
        op::ret(RegId::ONE),
    ]
    .into_iter()
    .collect()
}

fn check_deployed(storage: &MemoryStorage, id: &H, code: &[u8], slots: &[(H, H)]) -> Check {
    let cid = ContractId::new(*id);
    let exists = storage.storage_contract_exists(&cid).map_err(|e| Failure::new("harness-storage", format!("{e:?}")))?;
    ensure!(exists, "deploy:not-under-formula-id", "after deploy no contract exists under the formula's id");
    let got = storage.storage_contract(&cid).map_err(|e| Failure::new("harness-storage", format!("{e:?}")))?;
    let Some(got) = got else {
        return Err(Failure::new("deploy:not-under-formula-id", "storage_contract(id) is None"));
    };
    ensure!(got.as_ref().as_ref() == code, "deploy:code-differs", "stored code differs from the deployed bytecode ({} vs {} bytes)", got.as_ref().as_ref().len(), code.len());
    for b in [0u8, 255] {
        let other = ContractId::new(flip_bit(id, b));
        let e = storage.storage_contract_exists(&other).map_err(|e| Failure::new("harness-storage", format!("{e:?}")))?;
        ensure!(!e, "deploy:exists-under-other-id", "a contract exists under a neighbouring id");
    }
    // exactly the slots, all under exactly this id
    let mut got: BTreeMap<(H, H), Vec<u8>> = BTreeMap::new();
    for (k, v) in storage.all_contract_state() {
        let kb: &[u8] = k.as_ref();
        got.insert((kb[..32].try_into().unwrap(), kb[32..].try_into().unwrap()), v.as_ref().to_vec());
    }
    let want: BTreeMap<(H, H), Vec<u8>> = slots.iter().map(|(k, v)| ((*id, *k), v.to_vec())).collect();
    ensure_eq!(got, want, "deploy:slots-differ", "contract state after deploy is not exactly the {} initial slots under the formula's id", slots.len());
    Ok(())
}

fn croo_receipt_root(receipts: &[Receipt]) -> Result<H, Failure> {
    ensure!(
        matches!(receipts.last(), Some(Receipt::ScriptResult { result: ScriptExecutionResult::Success, .. })),
        "croo:script-failed",
        "CROO script did not succeed: {:?}",
        receipts.iter().rev().take(2).collect::<Vec<_>>()
    );
    for r in receipts {
        if let Receipt::LogData { data: Some(d), .. } = r {
            let h: H = d.as_ref().try_into().map_err(|_| Failure::new("harness-croo-log", "LOGD data is not 32 bytes"))?;
            return Ok(h);
        }
    }
    Err(Failure::new("harness-croo-log", format!("no LOGD receipt: {receipts:?}")))
}

fn run_vm(c: &VmCase, obs: &mut Obs) -> Check {
    let len = c.code_len as usize;
    let code = code_bytes(len, c.code_seed, c.style);
    let slots = resolve_slots(&c.slots);
    let map: BTreeMap<H, H> = slots.iter().cloned().collect();
    let code_root = ref_code_root(&code);
    let state_root = ref_state_root(&map);
    let id = ref_contract_id(&c.salt, &code_root, &state_root);
    let salt = Salt::new(c.salt);
    let params = ConsensusParameters::standard();

    let (out_id, out_state) = match c.wrong {
        WrongId::None => (id, state_root),
        WrongId::IdBitFlip(b) => (flip_bit(&id, b), state_root),
        WrongId::StateRootBitFlip(b) => (id, flip_bit(&state_root, b)),
        WrongId::UnpaddedRoot => (ref_contract_id(&c.salt, &rf::mth(&chunks_padded(&code, CHUNK, 1)), &state_root), state_root),
        WrongId::Pad4Root => (ref_contract_id(&c.salt, &rf::mth(&chunks_padded(&code, CHUNK, 4)), &state_root), state_root),
        WrongId::NoSeed => (sha(&[&c.salt, &code_root, &state_root]), state_root),
        WrongId::EmptyStateRoot => (ref_contract_id(&c.salt, &code_root, &[0u8; 32]), [0u8; 32]),
        WrongId::UnhashedKeys => {
            let mut leaves: Vec<(H, H)> = map.iter().map(|(k, v)| (*k, sha(&[&[0u8], k, &sha(&[v])]))).collect();
            leaves.sort();
            let sr = smt_subroot(&leaves, 0);
            (ref_contract_id(&c.salt, &code_root, &sr), sr)
        }
    };
    let is_wrong = (out_id, out_state) != (id, state_root);
    obs.class(len_class(len));
    obs.class(if is_wrong { "output:wrong-id-or-state-root" } else { "output:formula" });

    let create = if c.code_len % 2 == 1 {
        // same transaction reached by editing a finalized (already precomputed) Create: built with
        // another salt and its own formula id, then salt and output are replaced
        obs.class("create:edited-after-finalize");
        let mut other_salt = c.salt;
        other_salt[0] ^= 0x55;
        let other_id = ref_contract_id(&other_salt, &ref_code_root(&code), &state_root);
        let mut t = TransactionBuilder::create(Witness::from(code.clone()), Salt::new(other_salt), to_storage_slots(&slots))
            .add_fee_input()
            .add_output(Output::contract_created(ContractId::new(other_id), Bytes32::new(state_root)))
            .finalize();
        *fuel_tx::field::Salt::salt_mut(&mut t) = salt;
        for o in fuel_tx::field::Outputs::outputs_mut(&mut t).iter_mut() {
            if matches!(o, Output::ContractCreated { .. }) {
                *o = Output::contract_created(ContractId::new(out_id), Bytes32::new(out_state));
            }
        }
        // refresh the cache and sign again (the id changed with the salt); the fee input of
        // `add_fee_input` is owned by the key drawn from StdRng::seed_from_u64(2322)
        {
            use rand::SeedableRng;
            let chain = ConsensusParameters::standard().chain_id();
            fuel_tx::Cacheable::precompute(&mut t, &chain).map_err(|e| Failure::new("harness-precompute", format!("{e:?}")))?;
            let secret = fuel_crypto::SecretKey::random(&mut rand::rngs::StdRng::seed_from_u64(2322u64));
            fuel_tx::Signable::sign_inputs(&mut t, &secret, &chain);
        }
        t
    } else {
        TransactionBuilder::create(Witness::from(code.clone()), salt, to_storage_slots(&slots))
            .add_fee_input()
            .add_output(Output::contract_created(ContractId::new(out_id), Bytes32::new(out_state)))
            .finalize()
    };
    let checked = create.into_checked(Default::default(), &params);
    if is_wrong {
        // the validity rule must refuse any output that is not the formula's
        match checked {
            Ok(_) => {
                return Err(Failure::new(
                    "create-check:accepts-non-formula-id",
                    format!("Create with a ContractCreated output that is not the formula's ({:?}) passes the check; {len} bytes, {} slots", c.wrong, slots.len()),
                ));
            }
            Err(CheckError::Validity(ValidityError::TransactionCreateOutputContractCreatedDoesntMatch { .. })) => {
                obs.nontrivial(&(c.code_len, slots.len(), format!("{:?}", c.wrong)));
                return Ok(());
            }
            Err(e) => return Err(Failure::new("create-check:unexpected-error", format!("{:?}: {e:?}", c.wrong))),
        }
    }
    let checked = checked.map_err(|e| {
        Failure::new("create-check:rejects-formula-id", format!("Create carrying the formula's id/state root is refused: {e:?}; {len} bytes, {} slots", slots.len()))
    })?;

    // script executing CROO on the deployed contract
    let script = TransactionBuilder::script(croo_script(), id.to_vec())
        .script_gas_limit(5_000_000)
        .add_input(Input::contract(UtxoId::new(Bytes32::new([7u8; 32]), 0), Bytes32::zeroed(), Bytes32::zeroed(), Default::default(), ContractId::new(id)))
        .add_fee_input()
        .add_output(Output::contract(0, Bytes32::zeroed(), Bytes32::zeroed()))
        .finalize()
        .into_checked(Default::default(), &params)
        .map_err(|e| Failure::new("harness-script-check", format!("{e:?}")))?;

    let ip = InterpreterParams::new(0, &params);
    let logged;
    if c.via_client {
        obs.class("deploy:MemoryClient");
        let mut client = MemoryClient::<MemoryInstance>::new(MemoryInstance::new(), MemoryStorage::default(), ip);
        client.deploy(checked).map_err(|e| Failure::new("deploy:error", format!("{e:?}")))?;
        check_deployed(client.as_ref(), &id, &code, &slots)?;
        let receipts = client.transact(script).to_vec();
        logged = croo_receipt_root(&receipts)?;
        // execution of a script must not change what was deployed
        check_deployed(client.as_ref(), &id, &code, &slots)?;
    } else {
        obs.class("deploy:Transactor");
        let mut t = Transactor::<MemoryInstance, MemoryStorage, fuel_vm::prelude::Script>::new(MemoryInstance::new(), MemoryStorage::default(), ip);
        t.deploy(checked).map_err(|e| Failure::new("deploy:error", format!("{e:?}")))?;
        check_deployed(t.as_ref(), &id, &code, &slots)?;
        t.transact(script);
        if let Some(e) = t.error() {
            return Err(Failure::new("croo:script-failed", format!("{e:?}")));
        }
        let receipts = t.receipts().map(|r| r.to_vec()).unwrap_or_default();
        logged = croo_receipt_root(&receipts)?;
        // the bytes CROO left in VM memory at $hp
        let vm = t.interpreter();
        let hp = vm.registers()[RegId::HP];
        let mem: &[u8] = vm.memory().read(hp, 32usize).map_err(|e| Failure::new("harness-vm-memory", format!("{e:?}")))?;
        ensure_eq!(mem, &code_root[..], "croo:memory", "bytes at $hp after CROO ({len} bytes of code)");
    }
    ensure_eq!(logged, code_root, "croo:root", "CROO result for {len} bytes of code");
    if nontrivial_len(len) {
        obs.nontrivial(&(c.code_len, slots.len(), c.via_client));
    }
    Ok(())
}

// ---------------------------------------------------------------- part 4: predicate owner check in the VM

#[derive(Debug, Clone, Copy, PartialEq, Eq, Serialize, Deserialize)]
pub enum WrongOwner {
    None,
    BitFlip(u8),
    UnpaddedRoot,
    Pad4Root,
    NoSeed,
    CodeRootItself,
    /// owner of the predicate without its last byte / with one more zero byte
    OtherLength(i8),
}

fn wrong_owner() -> impl Strategy<Value = WrongOwner> {
    prop_oneof![
        6 => Just(WrongOwner::None),
        2 => any::<u8>().prop_map(WrongOwner::BitFlip),
        2 => Just(WrongOwner::UnpaddedRoot),
        2 => Just(WrongOwner::Pad4Root),
        1 => Just(WrongOwner::NoSeed),
        1 => Just(WrongOwner::CodeRootItself),
        2 => prop_oneof![Just(-1i8), Just(1i8), Just(8i8), Just(-8i8)].prop_map(WrongOwner::OtherLength),
    ]
}

#[derive(Debug, Clone, Serialize, Deserialize)]
pub struct PredCase {
    /// total predicate length (>= 4: it starts with `ret $one`)
    pub len: u32,
    pub seed: u64,
    pub style: Style,
    pub wrong: WrongOwner,
    /// 0 coin, 1 message-coin, 2 message-data
    pub input_kind: u8,
    pub data: Vec<u8>,
}

fn run_pred(c: &PredCase, obs: &mut Obs) -> Check {
    let len = (c.len as usize).max(4);
    let mut pred = code_bytes(len, c.seed, c.style);
    pred[..4].copy_from_slice(&op::ret(RegId::ONE).to_bytes());
    let owner = ref_predicate_owner(&pred);
    let used = match c.wrong {
        WrongOwner::None => owner,
        WrongOwner::BitFlip(b) => flip_bit(&owner, b),
        WrongOwner::UnpaddedRoot => sha(&[&SEED, &rf::mth(&chunks_padded(&pred, CHUNK, 1))]),
        WrongOwner::Pad4Root => sha(&[&SEED, &rf::mth(&chunks_padded(&pred, CHUNK, 4))]),
        WrongOwner::NoSeed => sha(&[&ref_code_root(&pred)]),
        WrongOwner::CodeRootItself => ref_code_root(&pred),
        WrongOwner::OtherLength(d) => {
            let mut p = pred.clone();
            if d < 0 {
                p.truncate(p.len().saturating_sub((-d) as usize).max(1));
            } else {
                p.extend(std::iter::repeat_n(0u8, d as usize));
            }
            ref_predicate_owner(&p)
        }
    };
    let valid = used == owner;
    obs.class(len_class(len));
    obs.class(if valid { "owner:formula" } else { "owner:near-miss" });
    if !valid && matches!(c.wrong, WrongOwner::OtherLength(_) | WrongOwner::UnpaddedRoot | WrongOwner::Pad4Root) {
        obs.class("owner:near-miss-by-padding-or-length");
    }
    let params = ConsensusParameters::standard();
    let cp: CheckPredicateParams = (&params).into();
    let addr = Address::new(used);
    let mut s = c.seed ^ 0xabcdef;
    let mut r32 = || -> H { fill(splitmix(&mut s), 32).try_into().unwrap() };
    let input = match c.input_kind % 3 {
        0 => Input::coin_predicate(UtxoId::new(Bytes32::new(r32()), 1), addr, 1000, AssetId::zeroed(), Default::default(), 0, pred.clone(), c.data.clone()),
        1 => Input::message_coin_predicate(Address::new(r32()), addr, 1000, Nonce::new(r32()), 0, pred.clone(), c.data.clone()),
        _ => Input::message_data_predicate(Address::new(r32()), addr, 1000, Nonce::new(r32()), 0, vec![1, 2, 3], pred.clone(), c.data.clone()),
    };
    obs.class(["input:coin-predicate", "input:message-coin-predicate", "input:message-data-predicate"][(c.input_kind % 3) as usize]);
    let mut tx = TransactionBuilder::script(op::ret(RegId::ONE).to_bytes().to_vec(), vec![]).script_gas_limit(10_000).add_input(input).add_fee_input().finalize();
    tx.estimate_predicates(&cp, MemoryInstance::new(), &EmptyStorage)
        .map_err(|e| Failure::new("harness-estimate", format!("estimate_predicates failed: {e:?} (len {len})")))?;

    // transaction-level rule
    match (tx.check_signatures(&params.chain_id()), valid) {
        (Ok(()), true) => {}
        (Err(ValidityError::InputPredicateOwner { index: 0 }), false) => {}
        (Ok(()), false) => {
            return Err(Failure::new("predicate-owner:tx-check-accepts-invalid", format!("check_signatures accepts owner {:?} for a {len}-byte predicate", c.wrong)));
        }
        (Err(e), true) => return Err(Failure::new("predicate-owner:tx-check-rejects-valid", format!("check_signatures refuses the formula owner: {e:?} ({len} bytes)"))),
        (Err(e), false) => return Err(Failure::new("predicate-owner:tx-check-unexpected-error", format!("{e:?}"))),
    }

    // VM-level rule
    let checked = tx.into_checked_basic(Default::default(), &params).map_err(|e| Failure::new("harness-checked-basic", format!("{e:?}")))?;
    let res = checked.check_predicates(&cp, MemoryInstance::new(), &EmptyStorage, NotSupportedEcal);
    match (res, valid) {
        (Ok(_), true) => {}
        (Err(CheckError::PredicateVerificationFailed(PredicateVerificationFailed::InvalidOwner { index: 0 })), false) => {}
        (Ok(_), false) => {
            return Err(Failure::new("predicate-owner:vm-accepts-invalid", format!("check_predicates accepts owner {:?} for a {len}-byte predicate", c.wrong)));
        }
        (Err(e), true) => return Err(Failure::new("predicate-owner:vm-rejects-valid", format!("check_predicates refuses the formula owner: {e:?} ({len} bytes)"))),
        (Err(e), false) => return Err(Failure::new("predicate-owner:vm-unexpected-error", format!("{e:?}"))),
    }
    // every predicate input is checked on its own: a second predicate input that claims the
    // (valid) owner of the first one but carries different bytecode must be refused
    if valid && len <= 30_000 {
        let mut pred2 = pred.clone();
        pred2.extend_from_slice(&op::noop().to_bytes());
        let second = Input::coin_predicate(UtxoId::new(Bytes32::new(r32()), 2), addr, 500, AssetId::zeroed(), Default::default(), 0, pred2, c.data.clone());
        let first = Input::coin_predicate(UtxoId::new(Bytes32::new(r32()), 3), addr, 700, AssetId::zeroed(), Default::default(), 0, pred.clone(), c.data.clone());
        let mut tx2 = TransactionBuilder::script(op::ret(RegId::ONE).to_bytes().to_vec(), vec![]).script_gas_limit(10_000).add_input(first).add_input(second).add_fee_input().finalize();
        tx2.estimate_predicates(&cp, MemoryInstance::new(), &EmptyStorage)
            .map_err(|e| Failure::new("harness-estimate", format!("estimate_predicates (two predicates) failed: {e:?}")))?;
        ensure!(
            matches!(tx2.check_signatures(&params.chain_id()), Err(ValidityError::InputPredicateOwner { index: 1 })),
            "predicate-owner:tx-check-accepts-second-input-with-borrowed-owner",
            "check_signatures does not refuse a second predicate input claiming the first one's owner"
        );
        let checked2 = tx2.into_checked_basic(Default::default(), &params).map_err(|e| Failure::new("harness-checked-basic", format!("{e:?}")))?;
        let res2 = checked2.check_predicates(&cp, MemoryInstance::new(), &EmptyStorage, NotSupportedEcal);
        ensure!(
            matches!(res2, Err(CheckError::PredicateVerificationFailed(PredicateVerificationFailed::InvalidOwner { index: 1 }))),
            "predicate-owner:vm-accepts-second-input-with-borrowed-owner",
            "check_predicates result for a second predicate input claiming the first one's owner: {:?}", res2.map(|_| ())
        );
        obs.class("owner:second-input-borrowed");
    }
    if nontrivial_len(len) {
        obs.nontrivial(&(len, format!("{:?}", c.wrong), c.input_kind % 3));
    }
    Ok(())
}

pub fn property() -> Property {
    Property {
        id: "C15",
        rule: "code lengths from {0..=72, 8k±1 (k<=2047), 16384·m+{-9..+9} (m<=6), uniform <= 49224} with random / all-zero / all-ones / zero-tail / non-zero-tail content; slot sets of 0..=12|24 unique keys: raw, numerically adjacent, or searched so that their SHA-256 shares up to 10|14 leading bits with another slot's; salts. (1) code root, predicate owner and rejection of six near-miss owners; (2) state root in three iteration orders, contract id, CreateMetadata; (3) VM: Create carrying the formula's (id, state root) must pass the check and, deployed through Transactor or MemoryClient, leave exactly the code and exactly the slots under exactly that id, CROO must write the formula's code root (LOGD receipt and VM memory); Create carrying any of 7 near-miss ids must be refused; (4) predicate inputs of the three kinds: accepted by check_signatures and check_predicates iff the owner is the formula's. Non-trivial = code length not a multiple of 8 or within 9 bytes of a 16 KiB boundary (parts 1,3,4), >= 2 slots (part 2)".into(),
        assumptions: vec![
            "sha2 crate is correct".into(),
            "model::rfc6962 is the RFC 6962 tree hash".into(),
            "the compact sparse Merkle root written in c15.rs (leaf = H(0x00‖key‖H(value)), node = H(0x01‖l‖r), empty = 0^32, single-leaf subtree = leaf) is the specification's".into(),
            "seed constant 0x4655454C ('FUEL') from the specification".into(),
        ],
        parts: vec![
            gen_part("code-root-owner", "code root / predicate owner formulas", (30_000, 800_000), |_c: &Ctx| {
                (code_len(6), any::<u64>(), style(), any::<u8>()).prop_map(|(len, seed, style, flip)| CodeCase { len, seed, style, flip })
            }, run_code),
            gen_part("state-root-id", "state root, contract id, CreateMetadata", (30_000, 600_000), |c: &Ctx| {
                (slot_specs(c.tier.pick(12, 24), c.tier.pick(10, 14)), any::<[u8; 32]>(), prop_oneof![3 => 0u32..=72, 1 => 16375u32..=16393], any::<u64>())
                    .prop_map(|(slots, salt, code_len, code_seed)| StateCase { slots, salt, code_len, code_seed })
            }, run_state),
            gen_part("vm-deploy-croo", "Create check, deploy, storage content, CROO", (12_000, 250_000), |c: &Ctx| {
                (code_len(6), any::<u64>(), style(), slot_specs(6, c.tier.pick(8, 12)), any::<[u8; 32]>(), wrong_id(), any::<bool>()).prop_map(
                    |(code_len, code_seed, style, slots, salt, wrong, via_client)| VmCase { code_len, code_seed, style, slots, salt, wrong, via_client },
                )
            }, run_vm),
            gen_part("vm-predicate-owner", "predicate owner rule at transaction level and in check_predicates", (10_000, 200_000), |_c: &Ctx| {
                (code_len(6), any::<u64>(), style(), wrong_owner(), 0u8..3, crate::gens::small_bytes())
                    .prop_map(|(len, seed, style, wrong, input_kind, data)| PredCase { len, seed, style, wrong, input_kind, data })
            }, run_pred),
        ],
        floors: vec![
            ("code-root-owner", "len:near-chunk-boundary,not-multiple-of-8", 0.15),
            ("state-root-id", "slots>=2", 0.5),
            ("vm-deploy-croo", "output:formula", 0.3),
            ("vm-predicate-owner", "owner:near-miss", 0.2),
        ],
    }
}
